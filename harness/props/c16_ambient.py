"""C16 — the ambient state of the process while a random catalog is generated.

The property: a random catalog is a function of (generator parameters, seed) only.  Everything else the process
carries around while the records are drawn is AMBIENT and must not matter:

  logging     the level of the `yaw` logger, of any of its child loggers, of the root logger (DEBUG, INFO, WARNING,
              below DEBUG, NOTSET); handlers that really format their records (stream, file); logging.basicConfig;
              the library's own yaw.utils.get_logger(level, stdout / file, pretty); logging.disable
  progress    progress indicators on / off (Catalog.from_random(progress=True), Indicator around a reader)
  warnings    the warnings filter (error / ignore / always / default / once / module), logging.captureWarnings
  env         the environment variables the library reads - found by a scan of the library source and by recording
              which keys library code asks os.environ for during a run (today: YAW_NUM_THREADS) - set, unset, changed
  workers     the number of workers taken from the environment (max_workers=None, YAW_NUM_THREADS=w; simulated pool)
  global-rng  the state of numpy's global (legacy) PRNG and of python's `random`
  numpy-state np.seterr, np.set_printoptions
  stdio       sys.stdout / sys.stderr replaced by a text buffer / by something that claims to be a terminal
  cwd         the working directory
  trace       a trace function installed with sys.settrace (debugger / coverage)
  interpreter (own interpreters, c16_ambient_driver.py) python -O, -X dev, -W error::..., -u, -B; PYTHONWARNINGS and
              YAW_NUM_THREADS present / absent BEFORE the library is imported; each crossed with in-process settings

A case = (window, seed, attribute table, n, chunk size, patch mode, call sizes) and several ambient SETTINGS (the
neutral one of the harness first, then single deviations taken in turn from a fixed grid that covers every value of
every dimension, then random combinations).  Under every setting the records are produced by four routes -
chunks of a RandomReader, the patches of Catalog.from_random, direct calls / generate_dataframe, reader.get_probe -
with a generator constructed inside the setting, constructed before it, or one object shared by all settings.

Oracle (never the library recorded earlier): the REFERENCE STREAM of the model - numpy's PRNG seeded as documented
(SeedSequence(seed).spawn(1)[0]), position 0, x / y / one index vector per call, the call sizes of the route
(random_sizes n cs) - computed here without the library.  Inside Coq (Model/Randoms.v, c16_ambient_case) every
route under every setting is laid next to it: exact size, window, joint rows, the records are those of the
reference stream, the calls after the last reseed of the generator's event log are those of the route (tie; sound by
RandomsP.tie_sound), plus: the records equal, bit for bit, those of the same route under the neutral setting.
A setting under which a route differs is reduced to the single dimension that reproduces the difference
(signature c16-not-reproducible:ambient-<dimension>).
"""
import contextlib
import io
import json
import logging
import os
import random
import re
import shutil
import subprocess
import sys
import traceback
import warnings

import numpy as np

from lib import floatq as fq
from lib import impl
from sim import pool as simpool

DIM_NAMES = {"log": "logging", "progress": "progress", "warnings": "warnings", "env": "env", "workers": "workers",
             "rng": "global-rng", "np": "numpy-state", "stdio": "stdio", "cwd": "cwd", "trace": "trace"}
LEVEL_NAMES = {"debug": 10, "info": 20, "warning": 30, "error": 40}
BLAME_BUDGET = 12


# ---------------------------------------------------------------------------------------------
# the reference stream of the model, instantiated with numpy's PRNG (no library code)
# ---------------------------------------------------------------------------------------------
def ref_stream(window, seed, w, z, sizes):
    """chunks (dict name -> float64 array) that seed `seed` stands for: per call x, y, then ONE index vector"""
    rng = np.random.default_rng(np.random.SeedSequence(int(seed)).spawn(1)[0])
    x0, x1 = np.deg2rad(window[0]), np.deg2rad(window[1])
    y0, y1 = np.sin(np.deg2rad(window[2])), np.sin(np.deg2rad(window[3]))
    m = len(w) if w is not None else (len(z) if z is not None else 0)
    out = []
    for k in sizes:
        x = rng.uniform(x0, x1, k)
        y = rng.uniform(y0, y1, k)
        cols = {"ra": x, "dec": np.arcsin(y)}
        if m:
            idx = rng.integers(0, m, size=k)
            if w is not None:
                cols["weights"] = np.asarray(w, dtype="f8")[idx]
            if z is not None:
                cols["redshifts"] = np.asarray(z, dtype="f8")[idx]
        out.append(cols)
    return out


def pass_sizes(n, cs):
    return [cs] * (n // cs) + ([n % cs] if n % cs else [])


FIELDS = ("ra", "dec", "weights", "redshifts")


def names_of(chunk):
    return list(chunk.dtype.names) if hasattr(chunk, "dtype") else [f for f in FIELDS if f in chunk]


def rows_of(chunks):
    """(field names or None when the chunks disagree, rows as tuples of floats in FIELDS order)"""
    names, rows = None, []
    for c in chunks:
        nm = [f for f in FIELDS if f in names_of(c)]
        extra = [f for f in names_of(c) if f not in FIELDS]
        if names is None:
            names = nm + extra
        elif names != nm + extra:
            names = ["<mixed>"]
        cols = [np.asarray(c[f], dtype="f8") for f in nm]
        for i in range(len(c["ra"])):
            rows.append(tuple(float(col[i]) for col in cols))
    return names, rows


def hexed(rows):
    return [tuple(x.hex() for x in r) for r in rows]


# ---------------------------------------------------------------------------------------------
# discovery: loggers of the library, environment variables the library reads
# ---------------------------------------------------------------------------------------------
def library_loggers():
    """names of the loggers the library has created so far ('yaw' itself first)"""
    import yaw.catalog.catalog  # noqa: F401  (their loggers exist once the modules are imported)
    import yaw.catalog.readers  # noqa: F401
    import yaw.randoms  # noqa: F401
    names = [n for n, lg in logging.root.manager.loggerDict.items()
             if isinstance(lg, logging.Logger) and (n == "yaw" or n.startswith("yaw."))]
    return ["yaw"] + sorted(n for n in names if n != "yaw")


def library_modules():
    return sorted(n for n in sys.modules if n.startswith("yaw.") and not n.endswith("_version"))


_ENV_PATTERNS = [re.compile(r"""environ(?:\.get|\.pop|\.setdefault)?\s*[\[(]\s*["']([A-Za-z_][A-Za-z0-9_]*)["']"""),
                 re.compile(r"""getenv\(\s*["']([A-Za-z_][A-Za-z0-9_]*)["']"""),
                 re.compile(r"""["']([A-Za-z_][A-Za-z0-9_]*)["']\s+(?:not\s+)?in\s+os\.environ""")]


def env_keys_static():
    keys = set()
    root = os.path.join(impl.REPO_SRC, "yaw")
    for d, _, files in os.walk(root):
        for f in files:
            if f.endswith(".py"):
                try:
                    text = open(os.path.join(d, f), encoding="utf-8", errors="replace").read()
                except OSError:
                    continue
                for pat in _ENV_PATTERNS:
                    keys.update(pat.findall(text))
    return keys


class EnvRecorder:
    """records the keys that code of the library asks os.environ for"""

    def __init__(self):
        self.keys = set()

    def __enter__(self):
        cls = type(os.environ)
        self.cls, self.orig = cls, cls.__getitem__
        src = os.path.realpath(impl.REPO_SRC) + os.sep
        rec, orig = self.keys, self.orig

        def getitem(env, key):
            try:
                # the first frame that is not the mapping machinery itself (Mapping.get / __contains__, os.getenv)
                # must be code of the library: lookups that the standard library makes on its own account
                # (subprocess searching PATH for a command the library runs) are not variables the library reads
                f = sys._getframe(1)
                for _ in range(4):
                    if f is None or os.path.basename(f.f_code.co_filename) not in ("_collections_abc.py", "os.py"):
                        break
                    f = f.f_back
                if (f is not None and isinstance(key, str) and re.fullmatch(r"[A-Za-z_][A-Za-z0-9_]*", key)
                        and os.path.realpath(f.f_code.co_filename).startswith(src)):
                    rec.add(key)
            except Exception:  # pragma: no cover
                pass
            return orig(env, key)

        cls.__getitem__ = getitem
        return self

    def __exit__(self, *a):
        self.cls.__getitem__ = self.orig
        return False


def env_values(key):
    if re.search(r"THREAD|WORKER|PROC|NUM|CPU|CORE", key, re.I):
        return [None, "1", "2", "3", "16", "64"]
    return [None, "1", "0", "true", "debug"]


# ---------------------------------------------------------------------------------------------
# one ambient setting, applied and restored
# ---------------------------------------------------------------------------------------------
class FakeTTY(io.StringIO):
    def isatty(self):
        return True


class Ambient:
    """with Ambient(setting, scratch): ...   `setting` is a JSON-able dict dimension -> value; {} = the neutral
    state of the harness (yaw logger at CRITICAL, YAW_NUM_THREADS=1, default warnings, no progress)"""

    def __init__(self, setting, scratch):
        self.s, self.scratch = setting, scratch
        self.sinks = []

    def __enter__(self):
        self.es = contextlib.ExitStack()
        try:
            self._apply()
        except BaseException:
            self.es.close()
            raise
        return self

    def __exit__(self, *exc):
        self.es.close()
        return False

    def log_lines(self):
        n = 0
        for s in self.sinks:
            try:
                if hasattr(s, "getvalue"):
                    n += s.getvalue().count("\n")
                else:
                    with open(s) as fh:
                        n += sum(1 for _ in fh)
            except Exception:
                pass
        return n

    # ---- dimensions ----
    def _apply(self):
        s, es = self.s, self.es
        os.makedirs(self.scratch, exist_ok=True)
        env = dict(s.get("env") or {})
        if s.get("workers"):
            env["YAW_NUM_THREADS"] = str(s["workers"]["n"])
        if env:
            saved = {k: os.environ.get(k) for k in env}

            def restore_env():
                for k, v in saved.items():
                    if v is None:
                        os.environ.pop(k, None)
                    else:
                        os.environ[k] = v
            es.callback(restore_env)
            for k, v in env.items():
                if v is None:
                    os.environ.pop(k, None)
                else:
                    os.environ[k] = v
        if s.get("cwd"):
            d = os.path.join(self.scratch, "elsewhere")
            os.makedirs(d, exist_ok=True)
            es.callback(os.chdir, os.getcwd())
            os.chdir(d)
        if s.get("stdio") or (s.get("log") or {}).get("stdout"):
            out, err = sys.stdout, sys.stderr

            def restore_stdio():
                sys.stdout, sys.stderr = out, err
            es.callback(restore_stdio)
            kind = s.get("stdio") or "buffer"
            sys.stdout = FakeTTY() if kind == "tty" else io.StringIO()
            if s.get("stdio"):
                sys.stderr = FakeTTY() if kind == "tty" else io.StringIO()
        if s.get("warnings"):
            es.enter_context(warnings.catch_warnings())
            warnings.simplefilter(s["warnings"]["action"])
        if s.get("log") or (s.get("warnings") or {}).get("capture"):
            self._snapshot_logging()
            if (s.get("warnings") or {}).get("capture"):
                logging.captureWarnings(True)
            if s.get("log"):
                self._apply_logging(s["log"])
        if s.get("rng") is not None:
            st_np, st_py = np.random.get_state(), random.getstate()
            es.callback(np.random.set_state, st_np)
            es.callback(random.setstate, st_py)
            np.random.seed(int(s["rng"]) % (2 ** 32))
            random.seed(int(s["rng"]))
        if s.get("np"):
            if s["np"].get("err"):
                old = np.seterr(all=s["np"]["err"])
                es.callback(lambda: np.seterr(**old))
            if s["np"].get("print"):
                old_po = np.get_printoptions()
                es.callback(lambda: np.set_printoptions(**{k: v for k, v in old_po.items() if k != "override_repr"}))
                np.set_printoptions(precision=2, threshold=3, suppress=True)
        if s.get("progress"):
            # the indicator writes to the stderr object of import time: silence the descriptor
            sys.stderr.flush() if hasattr(sys.stderr, "flush") else None
            keep = os.dup(2)
            null = os.open(os.devnull, os.O_WRONLY)

            def restore_fd():
                try:
                    sys.__stderr__.flush()
                except Exception:
                    pass
                os.dup2(keep, 2)
                os.close(keep)
                os.close(null)
            es.callback(restore_fd)
            os.dup2(null, 2)
        if s.get("trace"):
            prev = sys.gettrace()
            es.callback(sys.settrace, prev)
            sys.settrace(lambda frame, event, arg: None)

    def _snapshot_logging(self):
        mgr = logging.root.manager
        loggers = [logging.root] + [lg for lg in mgr.loggerDict.values() if isinstance(lg, logging.Logger)]
        snap = [(lg, lg.level, list(lg.handlers), lg.propagate, lg.disabled) for lg in loggers]
        known = set(id(lg) for lg in loggers)
        disable = mgr.disable
        capture = getattr(logging, "_warnings_showwarning", None) is not None
        import yaw.utils.logging as ylog
        prefix = ylog.INDICATOR_PREFIX

        def restore():
            for lg, level, handlers, prop, dis in snap:
                for h in list(lg.handlers):
                    if h not in handlers:
                        lg.removeHandler(h)
                        try:
                            h.close()
                        except Exception:
                            pass
                for h in handlers:
                    if h not in lg.handlers:
                        lg.addHandler(h)
                lg.setLevel(level)
                lg.propagate, lg.disabled = prop, dis
            for lg in list(mgr.loggerDict.values()):
                if isinstance(lg, logging.Logger) and id(lg) not in known:
                    for h in list(lg.handlers):
                        lg.removeHandler(h)
                    lg.setLevel(logging.NOTSET)
            logging.disable(disable)
            logging.captureWarnings(capture)
            ylog.INDICATOR_PREFIX = prefix
        self.es.callback(restore)

    def _handler(self, kind):
        if kind == "file":
            path = os.path.join(self.scratch, "ambient_%d.log" % len(self.sinks))
            h = logging.FileHandler(path)
            self.sinks.append(path)
        else:
            buf = io.StringIO()
            h = logging.StreamHandler(buf)
            self.sinks.append(buf)
        h.setLevel(logging.NOTSET)
        h.setFormatter(logging.Formatter("%(asctime)s %(name)s %(levelname)s > %(message)s"))
        return h

    def _apply_logging(self, lg):
        route, level = lg["route"], lg.get("level", 10)
        yawlog, root = logging.getLogger("yaw"), logging.getLogger()
        if route == "yaw_level":
            yawlog.setLevel(level)
            if lg.get("handler"):
                yawlog.addHandler(self._handler(lg["handler"]))
        elif route == "child_level":
            child = logging.getLogger(lg["child"])
            child.setLevel(level)
            if lg.get("handler"):
                child.addHandler(self._handler(lg["handler"]))
        elif route == "root_level":
            yawlog.setLevel(logging.NOTSET)
            root.setLevel(level)
            if lg.get("handler"):
                root.addHandler(self._handler(lg["handler"]))
        elif route == "basicConfig":
            yawlog.setLevel(logging.NOTSET)
            buf = io.StringIO()
            self.sinks.append(buf)
            logging.basicConfig(level=level, stream=buf, force=True)
        elif route == "get_logger":
            from yaw.utils import get_logger
            yawlog.setLevel(logging.NOTSET)
            for h in list(root.handlers):      # a process that has not configured logging before
                root.removeHandler(h)
            path = None
            if lg.get("file"):
                path = os.path.join(self.scratch, "yaw_%d.log" % len(self.sinks))
                self.sinks.append(path)
            get_logger(lg["name"], stdout=bool(lg.get("stdout")), file=path, pretty=bool(lg.get("pretty")),
                       capture_warnings=bool(lg.get("capture")))
        elif route == "disable":
            yawlog.setLevel(logging.DEBUG)
            yawlog.addHandler(self._handler("stream"))
            logging.disable(level)
        else:  # pragma: no cover
            raise ValueError(route)


WATCHED_ENV = {"YAW_NUM_THREADS"}      # grows with every variable a setting touches


def fingerprint():
    """the ambient state the settings touch, for the check that a setting is gone after its `with` block (third-party
    code initialises itself lazily - treecorr adds a logger of its own and sets OMP_PROC_BIND on first use - so only
    the loggers of the library / of the warnings capture and the watched variables are compared)"""
    mgr = logging.root.manager
    logs = sorted((n, lg.level, tuple(id(h) for h in lg.handlers), lg.propagate, lg.disabled)
                  for n, lg in mgr.loggerDict.items()
                  if isinstance(lg, logging.Logger) and (n == "yaw" or n.startswith("yaw.") or n == "py.warnings")
                  and (lg.level or lg.handlers or not lg.propagate or lg.disabled))
    try:
        fd2 = tuple(os.fstat(2)[:3])
    except OSError:
        fd2 = None
    return dict(loggers=logs, root=(logging.root.level, tuple(id(h) for h in logging.root.handlers)), disable=mgr.disable,
                capture=getattr(logging, "_warnings_showwarning", None) is not None,
                env=sorted((k, os.environ.get(k)) for k in WATCHED_ENV), cwd=os.getcwd(), filters=[repr(f) for f in warnings.filters],
                showwarning=id(warnings.showwarning), stdout=id(sys.stdout), stderr=id(sys.stderr),
                nperr=sorted(np.geterr().items()), npprint=repr(sorted((k, repr(v)) for k, v in np.get_printoptions().items())),
                trace=repr(sys.gettrace()), fd2=fd2)


# ---------------------------------------------------------------------------------------------
# settings: a grid of single deviations (every value of every dimension), then combinations
# ---------------------------------------------------------------------------------------------
def log_values(loggers, modules):
    vals = []
    for level in (10, 20, 30, 5, 0):
        vals.append(dict(route="yaw_level", level=level, handler=("stream" if level in (10, 30, 0) else None)))
    vals.append(dict(route="yaw_level", level=10, handler="file"))
    vals.append(dict(route="yaw_level", level=1, handler=None))
    for child in loggers[1:]:
        vals.append(dict(route="child_level", child=child, level=10, handler="stream"))
    for child in loggers[1:4]:
        vals.append(dict(route="child_level", child=child, level=20, handler=None))
    for level in (10, 20, 0, 5):
        vals.append(dict(route="root_level", level=level, handler=("stream" if level != 20 else None)))
    for level in (10, 20):
        vals.append(dict(route="basicConfig", level=level))
    for name, stdout, file, pretty in (("debug", False, True, False), ("debug", True, False, True), ("info", True, False, True),
                                       ("info", False, True, False), ("warning", False, True, True), ("error", True, True, False)):
        vals.append(dict(route="get_logger", name=name, level=LEVEL_NAMES[name], stdout=stdout, file=file, pretty=pretty,
                         capture=(name != "info")))
    for level in (10, 20, 50):
        vals.append(dict(route="disable", level=level))
    return vals


def random_log_value(rng, loggers, modules):
    route = rng.choice(["yaw_level", "yaw_level", "child_level", "child_level", "root_level", "basicConfig", "get_logger", "disable"])
    level = rng.choice([10, 10, 10, 20, 20, 30, 40, 5, 1, 0, 15])
    if route == "child_level":
        return dict(route=route, child=rng.choice(loggers[1:] + modules), level=level, handler=rng.choice([None, "stream", "file"]))
    if route == "get_logger":
        name = rng.choice(["debug", "debug", "info", "warning", "error"])
        return dict(route=route, name=name, level=LEVEL_NAMES[name], stdout=rng.random() < 0.5, file=rng.random() < 0.5,
                    pretty=rng.random() < 0.5, capture=rng.random() < 0.5)
    if route == "basicConfig":
        return dict(route=route, level=level)
    if route == "disable":
        return dict(route=route, level=rng.choice([10, 20, 30, 50]))
    return dict(route=route, level=level, handler=rng.choice([None, "stream", "stream", "file"]))


def dimension_values(loggers, modules, envkeys):
    """dimension -> list of values (every one of them appears alone in the grid)"""
    dims = {
        "log": log_values(loggers, modules),
        "progress": [True],
        "warnings": [dict(action=a, capture=c) for a, c in (("error", False), ("ignore", False), ("always", True),
                                                            ("default", False), ("once", True), ("module", False))],
        "env": [{k: v} for k in sorted(envkeys) for v in env_values(k)],
        "workers": [dict(n=2, order="identity", seed=0), dict(n=3, order="random", seed=1), dict(n=4, order="reverse", seed=2)],
        "rng": [0, 12345, 2 ** 31 + 7],
        "np": [dict(err="raise"), dict(err="warn"), dict(err="ignore", print=True)],
        "stdio": ["buffer", "tty"],
        "cwd": [True],
        "trace": [True],
    }
    return dims


def make_grid(dims):
    """single deviations, the dimensions taken in turn (so that a prefix of the grid already touches all of them)"""
    cols = {d: [{d: v} for v in vals] for d, vals in dims.items()}
    grid, i = [], 0
    while any(cols.values()):
        for d in list(cols):
            if cols[d]:
                grid.append(cols[d].pop(0))
        i += 1
        if i == 1:
            # progress and workers select another code path of the library (indicator loop, pool path): every
            # pair of them, and each with logging at its most talkative
            talk = dims["log"][0] if dims.get("log") else None
            pw = [("progress", v) for v in dims.get("progress", [])[:1]] + [("workers", v) for v in dims.get("workers", [])[:2]]
            for a in range(len(pw)):
                for b in range(a + 1, len(pw)):
                    if pw[a][0] != pw[b][0]:
                        grid.append(dict([pw[a], pw[b]]))
                if talk is not None:
                    grid.append(dict([pw[a], ("log", talk)]))
    return grid


def random_setting(rng, dims, loggers, modules):
    keys = rng.sample(sorted(dims), rng.choice([2, 2, 3, 4]))
    s = {}
    for k in keys:
        if k == "log":
            s[k] = random_log_value(rng, loggers, modules)
        elif dims[k]:
            s[k] = rng.choice(dims[k])
    if "log" not in s and rng.random() < 0.5:
        s["log"] = random_log_value(rng, loggers, modules)
    return s


def setting_label(s):
    if not s:
        return "neutral"
    parts = []
    for k in sorted(s):
        v = s[k]
        if k == "log":
            parts.append("log:%s:%s" % (v["route"], v.get("name", v.get("level"))))
        elif k == "warnings":
            parts.append("warnings:" + v["action"])
        elif k == "env":
            parts.append("env:" + ",".join("%s=%s" % kv for kv in sorted(v.items())))
        elif k == "workers":
            parts.append("workers:%d" % v["n"])
        else:
            parts.append(k)
    return "+".join(parts)


# ---------------------------------------------------------------------------------------------
# cases and routes
# ---------------------------------------------------------------------------------------------
ROUTES = ("reader", "catalog", "calls", "probe")


def gen_cases(ctx, base, grid, dims, loggers, modules):
    rng = random.Random(ctx.rng.getrandbits(64))
    ncases = max(ctx.n(30, 180), -(-len(grid) // 2))       # quick: two entries of the grid per case, the whole grid
    per_case_grid = 2 if ctx.quick() else 3
    cases, g = [], 0
    for idx in range(ncases):
        if rng.random() < 0.7:
            window, wlabel = base.WINDOWS[rng.randrange(len(base.WINDOWS))]
        else:
            ra0 = rng.randrange(-2880, 2880) / 8.0
            d0 = rng.randrange(-720, 712) / 8.0
            window, wlabel = (ra0, ra0 + rng.choice([0.125, 1.0, 10.0, 90.0, 360.0]), d0, min(90.0, d0 + rng.choice([1.0, 10.0, 45.0, 180.0]))), "random"
        attrs = rng.choice(["none", "w", "z", "both", "both", "both"])
        m = rng.choice([1, 2, 5, 17]) if attrs != "none" else 0
        cs = rng.choice([1, 2, 3, 5, 8, 16])
        n = rng.choice(sorted({1, cs, cs + 1, 2 * cs, 2 * cs + 1, 3 * cs - 1, 4 * cs + 1} - {0}))
        patch = "centers"
        probe = None
        if rng.random() < 0.35:
            n = max(n, rng.choice([10, 11, 16, 21]))
            patch, probe = "patch_num", rng.randrange(10, n + 1)
        settings = [{}]
        for _ in range(per_case_grid):
            settings.append(grid[g % len(grid)])
            g += 1
        for _ in range(ctx.n(1, 2)):
            settings.append(random_setting(rng, dims, loggers, modules))
        kprobe = rng.choice([1, 2, 3, 5])
        cases.append(dict(idx=idx, window=list(window), wlabel=wlabel, attrs=attrs, m=m, n=n, cs=cs, patch=patch, probe=probe,
                          seed=rng.choice([0, 1, 12345, rng.randrange(2 ** 31), rng.randrange(2 ** 62)]),
                          calls=[rng.choice([1, 2, 3, 7]), rng.choice([1, 4, 16])], kprobe=min(kprobe, n),
                          construct=rng.choice(["inside", "inside", "outside", "shared"]),
                          with_ctx=rng.random() < 0.5, second=rng.choice(["calls", "probe"]), settings=settings))
    return cases


def route_sizes(case, route):
    if route in ("reader", "catalog"):
        return pass_sizes(case["n"], case["cs"])
    if route == "calls":
        return list(case["calls"])
    return [case["kprobe"]]


def route_term(case, route):
    if route in ("reader", "catalog"):
        return "(APass %s %s)" % (fq.nat(case["n"]), fq.nat(case["cs"]))
    if route == "calls":
        return "(ACalls %s)" % fq.nlist(case["calls"])
    return "(AProbe %s)" % fq.nat(case["kprobe"])


def df_to_array(df):
    arr = np.empty(len(df), dtype=[(str(c), "f8") for c in df.columns])
    for c in df.columns:
        arr[str(c)] = np.asarray(df[c], dtype="f8")
    return arr


def run_route(ctx, case, setting, route, gen, tag):
    """the records of one route (list of arrays, in the order produced); the generator is ready to be used"""
    from yaw.catalog.readers import RandomReader
    n, cs = case["n"], case["cs"]
    if route == "reader":
        reader = RandomReader(gen, n, cs)
        it = reader
        if setting.get("progress"):
            from yaw.utils.logging import Indicator
            it = Indicator(reader)
        if case["with_ctx"]:
            with reader:
                return [np.array(c) for c in it]
        return [np.array(c) for c in it]
    if route == "catalog":
        w = case["window"]
        if case["patch"] == "centers":
            kw = dict(patch_centers=impl.AngularCoordinates(np.deg2rad(np.asarray([[(w[0] + w[1]) / 2.0, (w[2] + w[3]) / 2.0]], dtype="f8"))))
        else:
            kw = dict(patch_num=1, probe_size=case["probe"])
        d = impl.fresh_dir(ctx, "amb_%s" % tag)
        try:
            if setting.get("workers"):
                wk = setting["workers"]
                with simpool.patched(simpool.Schedule(wk["order"], seed=wk["seed"])):
                    cat = impl.Catalog.from_random(d, gen, n, chunksize=cs, max_workers=None,
                                                   progress=bool(setting.get("progress")), **kw)
            else:
                cat = impl.Catalog.from_random(d, gen, n, chunksize=cs, max_workers=1, progress=bool(setting.get("progress")), **kw)
            stored = impl.patch_records(cat)
        finally:
            shutil.rmtree(d, ignore_errors=True)
        return [stored[p] for p in sorted(stored)]
    if route == "calls":
        k1, k2 = case["calls"]
        return [np.array(gen(k1)), df_to_array(gen.generate_dataframe(k2, degrees=False))]
    if route == "probe":
        return [np.array(RandomReader(gen, n, cs).get_probe(case["kprobe"]))]
    raise ValueError(route)


def needs_sort(case, setting, route):
    return route == "catalog" and (case["patch"] != "centers" or bool(setting.get("workers")))


class CaseRunner:
    def __init__(self, ctx, base, Logged, case):
        self.ctx, self.base, self.Logged, self.case = ctx, base, Logged, case
        self.shared = {}
        self.scratch = os.path.join(ctx.workdir, "ambient")
        self.w, self.z = base.attr_tables(case["attrs"], case["m"])
        self.routes = ["reader", "catalog", case["second"]]

    def new_gen(self):
        gen = self.base.new_gen(self.Logged, dict(window=self.case["window"], attrs=self.case["attrs"], m=self.case["m"]),
                                self.case["seed"])
        gen.vlog.clear()
        return gen

    def reference(self, route, sort):
        names, rows = rows_of(ref_stream(self.case["window"], self.case["seed"], self.w, self.z, route_sizes(self.case, route)))
        return names, (sorted(rows) if sort else rows)

    def run_setting(self, si, setting, routes=None, construct=None):
        """-> route -> dict(names, rows, events) or dict(raised, msg, traceback)"""
        case = self.case
        construct = construct or case["construct"]
        routes = routes or self.routes
        out = {}
        pre = {}
        if construct == "outside":
            pre = {r: self.new_gen() for r in routes}
        elif construct == "shared":
            for r in routes:
                if r not in self.shared:
                    self.shared[r] = self.new_gen()
            pre = self.shared
        WATCHED_ENV.update((setting.get("env") or {}).keys())
        before = fingerprint()
        with Ambient(setting, self.scratch) as amb:
            for r in routes:
                try:
                    gen = pre[r] if r in pre else self.new_gen()
                    if construct == "shared":
                        gen.vlog.clear()
                        if r == "calls":
                            gen.reseed()     # a used object: direct calls continue the stream, start it again
                    # the cache directory is an input, not ambient state: the same for every setting of the case
                    chunks = run_route(self.ctx, case, setting, r, gen, "%d_%s" % (case["idx"], r))
                    events = list(gen.vlog)
                    names, rows = rows_of(chunks)
                    if needs_sort(case, setting, r):
                        rows = sorted(rows)
                    out[r] = dict(names=names, rows=rows, events=events)
                except Exception as e:
                    if construct == "shared":
                        self.shared.pop(r, None)
                    out[r] = dict(raised=type(e).__name__, msg=str(e)[:300], exc=e, traceback=traceback.format_exc()[-1500:])
            self.log_lines = amb.log_lines()
        after = fingerprint()
        if after != before:
            raise RuntimeError("the harness did not restore the ambient state after the setting: %s"
                               % sorted(k for k in before if before[k] != after[k]))
        return out


def acceptable_refusal(setting, exc):
    """an exception that the SETTING asks for (warnings turned into errors, numpy told to raise, a value the library
    cannot read in a variable it reads): counted, not a failure"""
    w = setting.get("warnings") or {}
    if w.get("action") == "error" and isinstance(exc, Warning):
        return "refused:warning-as-error:" + type(exc).__name__
    if (setting.get("np") or {}).get("err") == "raise" and isinstance(exc, FloatingPointError):
        return "refused:numpy-err-raise"
    for k, v in (setting.get("env") or {}).items():
        if v is not None and not re.fullmatch(r"[1-9][0-9]*", v) and isinstance(exc, (ValueError, KeyError, TypeError)):
            return "refused:env-value"
    return None


class Blamer:
    """reduces a setting under which a route differs to the single dimension that reproduces the difference"""

    def __init__(self):
        self.spent = 0
        self.cache = {}

    def blame(self, runner, setting, route, ref_rows_unsorted):
        keys = sorted(setting)
        if len(keys) == 1:
            return DIM_NAMES[keys[0]]
        for k in keys:
            ck = (k, json.dumps(setting[k], sort_keys=True, default=str))
            if ck not in self.cache:
                if self.spent >= BLAME_BUDGET:
                    continue
                self.spent += 1
                sub = {k: setting[k]}
                res = runner.run_setting(99, sub, routes=[route], construct="inside").get(route, {})
                ref = sorted(ref_rows_unsorted) if needs_sort(runner.case, sub, route) else ref_rows_unsorted
                self.cache[ck] = ("raised" in res) or hexed(res["rows"]) != hexed(ref)
            if self.cache[ck]:
                return DIM_NAMES[k]
        if self.spent >= BLAME_BUDGET:
            return "unattributed"
        # no single dimension reproduces it: an interaction; name the dimensions when they are few
        return "+".join(sorted(DIM_NAMES[k] for k in keys)) if len(keys) <= 3 else "combined"


AMB_FAILS = [
    (2, "c16-size", "the number of records differs from the requested number"),
    (4, "c16-outside-window", "a point lies outside the requested RA/Dec window"),
    (8, "c16-attributes-not-joint", "a (weight, redshift) pair is not one row of the supplied samples"),
    (32, "c16-not-reproducible", "the records differ from those the same seed gives under the neutral setting (and from the "
         "reference stream of the seed): the random catalog depends on the ambient state of the process"),
]


def encode(base, ctx, case, route, res, ref_names, ref_rows, neutral, lims, w, z):
    """Coq term of one route under one setting"""
    names, rows = res["names"], res["rows"]
    nout = len(rows)

    def split(nm, rws):
        nm = nm or []
        ras = [r[nm.index("ra")] for r in rws] if "ra" in nm else []
        decs = [r[nm.index("dec")] for r in rws] if "dec" in nm else []
        pairs = []
        if w is not None or z is not None:
            for r in rws:
                pairs.append((r[nm.index("weights")] if "weights" in nm else 0.0, r[nm.index("redshifts")] if "redshifts" in nm else 0.0))
        return ras, decs, pairs

    ras, decs, pairs = split(names, rows)
    rras, rdecs, rpairs = split(ref_names, ref_rows)
    cras, cdecs = base.clamp_near_ties(ctx, ras, decs, lims)
    crras, crdecs = base.clamp_near_ties(ctx, rras, rdecs, lims)
    bits_same = names == ref_names and hexed(rows) == hexed(ref_rows)
    if neutral is None or "rows" not in neutral:
        same_neutral = bits_same      # the neutral run of this route is reported on its own; the reference stands in
    else:
        same_neutral = names == neutral["names"] and hexed(rows) == hexed(neutral["rows"])
    m = case["m"]
    if w is None and z is None:
        wt, zt = "[]", "[]"
    else:
        wt = fq.qlist(w if w is not None else [0] * m)
        zt = fq.qlist(z if z is not None else [0] * m)
    qp = lambda ps: fq.lst([fq.pair(fq.q(a), fq.q(b)) for a, b in ps])   # noqa: E731
    term = "c16_ambient_case %s %s %s %s %s %s %s %s %s %s %s %s %s %s %s %s %s" % (
        route_term(case, route), base.events_term(res["events"]), fq.nat(nout),
        fq.q(lims[0]), fq.q(lims[1]), fq.q(lims[2]), fq.q(lims[3]), fq.qlist(cras), fq.qlist(cdecs),
        wt, zt, qp(pairs), fq.qlist(crras), fq.qlist(crdecs), qp(rpairs), fq.b(bits_same), fq.b(same_neutral))
    return term, bits_same, same_neutral


def run_ambient_cases(ctx, base, Logged, Plain):
    loggers, modules = library_loggers(), library_modules()
    envkeys = set(env_keys_static())
    # which variables does library code ask the environment for while a random catalog is made (pool path included)
    with EnvRecorder() as rec:
        try:
            d = impl.fresh_dir(ctx, "amb_envprobe")
            with simpool.patched(simpool.Schedule("identity", seed=0)):
                impl.Catalog.from_random(d, Plain(0.0, 10.0, -5.0, 5.0, seed=1), 7, chunksize=3, max_workers=None,
                                         patch_centers=impl.AngularCoordinates(np.deg2rad([[5.0, 0.0]])))
            shutil.rmtree(d, ignore_errors=True)
        except Exception as e:
            ctx.bump("ambient_envprobe_failed:" + type(e).__name__)
    envkeys |= rec.keys
    envkeys -= {"ANSICON"}      # read once at import time on win32 only
    ctx.extra["ambient_env_keys_read_by_library"] = sorted(envkeys)
    ctx.extra["ambient_library_loggers"] = loggers
    dims = dimension_values(loggers, modules, envkeys)
    grid = make_grid(dims)
    ctx.extra["ambient_grid_size"] = len(grid)
    cases = gen_cases(ctx, base, grid, dims, loggers, modules)
    blamer = Blamer()
    terms, metas = [], []
    for case in cases:
        runner = CaseRunner(ctx, base, Logged, case)
        lims = tuple(float(np.deg2rad(x)) for x in case["window"])
        neutral = None
        shown = dict((k, v) for k, v in case.items() if k != "settings")
        for si, setting in enumerate(case["settings"]):
            label = setting_label(setting)
            try:
                res = runner.run_setting(si, setting)
            except Exception as e:    # the setting itself could not be applied / restored: the harness
                ctx.count(key=("ambient", case["idx"], si), kind="ambient/harness-raised")
                ctx.fail("c16-raises:%s:ambient-setting" % type(e).__name__,
                         "applying the ambient setting %s raised %s: %s" % (label, type(e).__name__, e),
                         dict(case=shown, setting=setting, traceback=traceback.format_exc()[-1500:]), case=("ambient", case["idx"], si))
                continue
            if si == 0:
                neutral = res
            ctx.count(key=("ambient", repr(sorted(shown.items())), json.dumps(setting, sort_keys=True, default=str)),
                      nontrivial=bool(setting) and case["n"] > 1,
                      kind="ambient/%s/%s" % (case["construct"], "neutral" if not setting else "+".join(sorted(setting))))
            for k in setting:
                ctx.bump("ambient_dim:" + DIM_NAMES[k])
            if setting.get("log"):
                ctx.bump("ambient_log:%s:%s" % (setting["log"]["route"], setting["log"].get("level")))
                ctx.bump("ambient_log_lines_written", runner.log_lines)
            for route in runner.routes:
                r = res[route]
                nres = neutral.get(route) if neutral else None
                sort = needs_sort(case, setting, route)
                ref_names, ref_rows = runner.reference(route, sort)
                replay = dict(case=shown, setting=setting, setting_label=label, route=route)
                cid = ("ambient", case["idx"], si, route)
                if "raised" in r:
                    if nres is not None and "raised" in nres and si != 0:
                        continue          # the neutral run is reported once
                    if si == 0 and r["raised"] == "ValueError" and ("contains no data" in r["msg"] or "do not match" in r["msg"]):
                        ctx.bump("skipped_empty_centre")
                        continue
                    why = acceptable_refusal(setting, r["exc"])
                    if why is not None:
                        ctx.bump(why)
                        continue
                    dim = blamer.blame(runner, setting, route, runner.reference(route, False)[1]) if setting else "neutral"
                    ctx.fail("c16-raises:%s:ambient-%s" % (r["raised"], dim),
                             "route %s under the ambient setting %s raised %s: %s" % (route, label, r["raised"], r["msg"]),
                             dict(replay, traceback=r["traceback"]), case=cid)
                    continue
                if nres is not None and "raised" in nres:
                    nres = None
                if nres is not None and sort != needs_sort(case, {}, route):
                    nres = dict(nres, rows=sorted(nres["rows"]))
                term, bits_same, same_neutral = encode(base, ctx, case, route, r, ref_names, ref_rows,
                                                       nres if si else r, lims, runner.w, runner.z)
                dim = None
                if setting and not (bits_same and same_neutral):
                    dim = blamer.blame(runner, setting, route, runner.reference(route, False)[1])
                replay.update(events=r["events"], fields=r["names"], fields_expected=ref_names, records=len(r["rows"]),
                              rows=hexed(r["rows"])[:4], reference_rows=hexed(ref_rows)[:4],
                              neutral_rows=hexed(nres["rows"])[:4] if nres else None, blamed_dimension=dim)
                terms.append(term)
                metas.append((cid, replay, dim, bool(setting)))
                ctx.bump("ambient_route:" + route)
            if si == 1:
                ctx.sample(dict(ambient_case=shown, settings=[setting_label(s) for s in case["settings"]]), limit=6)
    codes = ctx.shards("Ambient_C16", base.HEADER, terms, shard=40)
    for (cid, replay, dim, deviates), c in zip(metas, codes):
        if not c:
            continue
        variant = ":ambient-%s" % (dim or "unattributed") if deviates else ":neutral-setting"
        failed = False
        for bit, sig, what in AMB_FAILS:
            if c & bit and (bit != 32 or deviates):
                ctx.fail(sig + variant, "route %s under the ambient setting %s: %s (code %d)"
                         % (replay["route"], replay["setting_label"], what, c), replay, case=cid)
                failed = True
        if c & 1 or (c & 16 and not failed):
            ctx.disagree("Ambient_C16", cid, dict(code=c, replay=replay))
    run_interpreters(ctx, base, grid, dims, loggers, modules)


# ---------------------------------------------------------------------------------------------
# interpreter-level ambient state: switches and variables that exist BEFORE the library is imported
# ---------------------------------------------------------------------------------------------
INTERPRETERS = [
    dict(label="plain", flags=[], env={}),
    dict(label="optimize", flags=["-O"], env={}),
    dict(label="dev-mode", flags=["-X", "dev"], env={}),
    dict(label="warnings-error", flags=["-W", "error::UserWarning", "-W", "error::RuntimeWarning"], env={}),
    dict(label="threads-before-import", flags=[], env={"YAW_NUM_THREADS": "4"}),
    # (-OO is not usable: the third-party treecorr formats its own docstrings at import time)
    dict(label="optimize-unbuffered", flags=["-O", "-u"], env={"PYTHONWARNINGS": "always"}),
    dict(label="no-threads-variable", flags=["-B"], env={"YAW_NUM_THREADS": None}),
]


def run_interpreters(ctx, base, grid, dims, loggers, modules):
    """the same kind of requests in own interpreters, each under an in-process setting of the grid as well; the driver
    prints the bit patterns, the reference stream is computed here"""
    rng = random.Random(ctx.rng.getrandbits(64))
    chosen = INTERPRETERS[:1] + rng.sample(INTERPRETERS[1:], ctx.n(2, len(INTERPRETERS) - 1))
    usable = [g for g in grid if "workers" not in g and "stdio" not in g]
    reqs = []
    for i in range(ctx.n(4, 12)):
        window, _ = base.WINDOWS[rng.randrange(len(base.WINDOWS))]
        attrs = rng.choice(["none", "w", "both", "both"])
        cs = rng.choice([2, 3, 5])
        setting = {} if i == 0 else (rng.choice(usable) if i % 2 else random_setting(rng, {k: v for k, v in dims.items() if k not in ("workers", "stdio")}, loggers, modules))
        reqs.append(dict(idx=i, window=list(window), attrs=attrs, m=(rng.choice([2, 5, 17]) if attrs != "none" else 0),
                         seed=rng.choice([0, 12345, rng.randrange(2 ** 31), rng.randrange(2 ** 62)]),
                         n=rng.choice([cs + 1, 2 * cs + 1, 3 * cs]), cs=cs, patch="centers", probe=None, with_ctx=bool(i % 2),
                         calls=[1, 1], kprobe=1, setting=setting))
    driver = os.path.join(os.path.dirname(os.path.abspath(__file__)), "c16_ambient_driver.py")
    procs = []
    for it in chosen:
        env = dict(os.environ)
        env["YAW_NUM_THREADS"] = "1"
        for k, v in it["env"].items():
            if v is None:
                env.pop(k, None)
            else:
                env[k] = v
        env["PYTHONPATH"] = os.pathsep.join([impl.REPO_SRC, os.path.dirname(os.path.dirname(os.path.abspath(__file__)))])
        env["C16_AMBIENT_SCRATCH"] = os.path.join(ctx.workdir, "amb_int_" + it["label"])
        p = subprocess.Popen([sys.executable] + it["flags"] + [driver], stdin=subprocess.PIPE, stdout=subprocess.PIPE,
                             stderr=subprocess.PIPE, text=True, env=env)
        procs.append((it, p))
    plain_bad = set()     # (request, route) that fail in the plain interpreter already: the in-process setting, not the switch
    for it, p in procs:
        try:
            out, err = p.communicate(json.dumps(reqs), timeout=900)
        except subprocess.TimeoutExpired:
            p.kill()
            out, err = "", "timeout"
        cid0 = ("interpreter", it["label"])
        line = [x for x in out.splitlines() if x.startswith("C16AMB ")]
        unusable = [x for x in out.splitlines() if x.startswith("C16AMB-UNUSABLE ")]
        if unusable:      # the library cannot be imported at all under this switch: nothing is generated
            ctx.bump("ambient_interpreter_unusable:" + it["label"])
            ctx.log("interpreter %s: library not importable (%s)" % (it["label"], unusable[-1][16:200]))
            continue
        if p.returncode != 0 or not line:
            ctx.count(key=cid0, kind="ambient/interpreter/raised")
            ctx.fail("c16-raises:interpreter-exit:ambient-interpreter",
                     "generating random catalogs in an interpreter started as %s failed (exit %s): %s"
                     % (it["label"], p.returncode, err[-600:]), dict(interpreter=it, stderr=err[-2000:]), case=cid0)
            continue
        results = json.loads(line[-1][len("C16AMB "):])
        for req, got in zip(reqs, results):
            w, z = base.attr_tables(req["attrs"], req["m"])
            ref_names, ref_rows = rows_of(ref_stream(req["window"], req["seed"], w, z, pass_sizes(req["n"], req["cs"])))
            label = setting_label(req["setting"])
            cid = ("interpreter", it["label"], req["idx"])
            ctx.count(key=("interpreter", it["label"], json.dumps(req, sort_keys=True, default=str)),
                      nontrivial=it["label"] != "plain", kind="ambient/interpreter/" + it["label"])
            for route in ("reader", "catalog"):
                g = got.get(route, {})
                replay = dict(interpreter=it, request=req, route=route, got=dict(g, rows=g.get("rows", [])[:4]),
                              reference_rows=hexed(ref_rows)[:4])
                if it["label"] != "plain" and (req["idx"], route) in plain_bad:
                    continue
                if it["label"] == "plain":
                    where = ("ambient-" + "+".join(sorted(DIM_NAMES[k] for k in req["setting"]))) if req["setting"] else "neutral-setting"
                    if "raised" in g or g.get("names") != ref_names or [tuple(r) for r in g.get("rows", [])] != hexed(ref_rows):
                        plain_bad.add((req["idx"], route))
                else:
                    where = "ambient-interpreter"
                if "raised" in g:
                    wa = (req["setting"].get("warnings") or {}).get("action") == "error" or any("error" in f for f in it["flags"])
                    if (g.get("warning") and wa) or (g.get("fpe") and (req["setting"].get("np") or {}).get("err") == "raise"):
                        ctx.bump("refused:interpreter:" + g["raised"])
                        continue
                    ctx.fail("c16-raises:%s:%s" % (g["raised"], where),
                             "route %s in an interpreter started as %s under the setting %s raised %s: %s"
                             % (route, it["label"], label, g["raised"], g.get("msg")), replay, case=cid + (route,))
                elif g.get("names") != ref_names or [tuple(r) for r in g.get("rows", [])] != hexed(ref_rows):
                    sig = "c16-size" if len(g.get("rows", [])) != req["n"] else "c16-not-reproducible"
                    ctx.fail(sig + ":" + where, "route %s in an interpreter started as %s under the setting %s: the "
                             "records are not those of the reference stream of the seed" % (route, it["label"], label),
                             replay, case=cid + (route,))
        ctx.bump("ambient_interpreter:" + it["label"])
