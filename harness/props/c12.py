"""C12 — patch metadata describe the patch, and patch i belongs to centre i.

Tie: real catalogs in all three patch-definition modes; per patch the stored metadata are
compared inside Coq with Model/Metadata.v on the implementation's own distance table; the
centre order and the re-assignment of every record to the reported centres are checked with
exact rational chord distances; mismatching catalog pairs are handed to the real
PatchLinkage.from_catalogs and the refusal is compared with the guard model.

Several patch-definition options at once (patch_centers / patch_name / patch_num in every
combination; documented precedence centres > name > num): catalogs are created through
from_dataframe and from_file (Parquet, HDF5, FITS), in one or many chunks, sequentially and on 3
simulated workers with any completion order, from inputs whose index column covers 0..N-1 but
disagrees with the nearest centre (shifted, permuted, random, a few records moved, sparse, merged).
Every input record carries a unique tag, so the patch that stores it is observed; inside Coq the
stored patch of every record is compared with Model/Metadata.v (determine + chunk_ids with argmin
on the exact rational squared chords to the *reported* centres) and with the statement itself
(own_centre_nearest: the reported centre of the storing patch is a nearest reported centre).

Every creation route x every way to define the centres (the clause "its reported centres reproduce its own partition"): catalogs
are created through from_random (BoxRandoms over several sky boxes incl. the poles, with / without weights and redshifts to draw from,
one or many chunks, probe smaller than or equal to the sample), from_dataframe and from_file (Parquet, HDF5, FITS), sequentially and on
3 simulated workers, with centres given as coordinates, given as a reference catalog (whose own centres are given ones or data means)
or MADE by k-means (patch_num only: the oracle may return any centres, but the catalog must report the ones it split the records by),
observed as created or reopened.  For every stored record the exact rational squared chords to the REPORTED centres are compared
inside Coq with Model/Metadata.v (c12_route_case: nearest_rows = stored patch, own_centre_nearest), and a second catalog is built from
the stored records with patch_centers=<the first catalog> (the catalog itself, reopened, or its get_centers()): it must report the
same centres and store every record in the same patch.

The guard with 2, 3 and 4 catalogs: scenes of catalogs over the same centres whose extents differ strongly
(compact randoms, wide samples) and whose records-per-patch tuples put them at every place of the checking
order (distinct levels, ties, a tuple that sorts first without having most records); one catalog (the
reference catalog itself, the first, a later or the last one checked) is displaced by a multiple of the
observed radius of the reference catalog - inside rtol, between rtol and the radius, beyond the radius, all
patches or a single one -, has its centres rotated, other patch ids (fewer, sparse, one more), or is built
from an index column; two catalogs displaced in opposite directions.  Every such set goes through the real
crosscorrelate (with ref_rand and / or unk_rand, any assignment of roles), autocorrelate (2 catalogs) and
PatchLinkage.from_catalogs (any call order); accepted / InconsistentPatchesError is compared inside Coq with
guard_many (Model/Metadata.v: ids of the first catalog, reference = first of the stable descending sort of the
records-per-patch tuples, EVERY other catalog against the reference catalog's own radii, rtol 1/2) and with
the statement (accepted => same ids and no centre farther from the reference centre than the radius).

Degenerate patches in that guard: scenes of 2..4 catalogs in which any subset of the patches of the reference catalog, of a partner or of
both holds a single object, several objects at one position (stored radius exactly 0, or a few 1e-16 when the centre is the mean of the
records) or objects 1e-9..1e-7 deg apart (tiny radius) - catalogs built from an index column, from given centres, from the reported
centres of another catalog of the scene (coordinates or the catalog itself), used as created or restored from the cache.  One catalog
(the reference or a partner) is left aligned (bit-identical centres), or displaced on the degenerate patches only, on the proper patches
only, on one patch or on all, slightly (1e-7..1e-3 deg), far (multiples of the centre spacing) or by a multiple of the reference radius.
autocorrelate / crosscorrelate / PatchLinkage.from_catalogs (any roles / call order) are judged inside Coq by c12_guardd_case
(Model/Metadata.v): guard_many in its division-free form distance <= rtol * radius on the stored radii - a zero radius makes any
displacement large, coinciding centres are accepted - plus the clause guard_zero_ok (accepted => every zero-radius patch of the reference
catalog has coinciding partner centres).  The distance table is cross-checked against the math module on the stored centres.
"""
import os
import shutil
import warnings
from fractions import Fraction

import numpy as np

from lib import floatq as fq
from lib import impl
from props.c01 import offset, cluster
from sim import pool as simpool

ALLOWED_AXIOMS = []
TRUSTED = [
    "distances record->centre are the implementation's own AngularCoordinates.distance values (accuracy: C14); "
    "nearest-centre re-assignment uses exact rational squared chords of the implementation's unit vectors",
    "treecorr k-means (patch_num mode) is an oracle: any centres are accepted (route cases: whatever it returned, the centres the "
    "catalog reports must be the ones the records were split by)",
    "route cases: the records of a from_random catalog are the ones found in its patches (BoxRandoms draws them inside the call); a record of "
    "the second catalog is identified with a stored record of the first by a unique dyadic redshift tag",
    "option cases: a stored record is identified with its input record by a unique dyadic redshift tag; "
    "input files are written with pandas/pyarrow, h5py and astropy (library behaviour)",
    "guard cases: 'the patch radius' of the statement is read as the radius of the reference catalog (the catalog with most "
    "entries: the records-per-patch tuple that sorts first, as the code selects it; a failure is reported only if the statement "
    "also fails for every other catalog that is maximal by tuple or by total number of records); the distances between the "
    "centres of two catalogs are the implementation's own AngularCoordinates.distance values (accuracy: C14)",
    "degenerate guard cases: the stored radii and centres are read through get_radii() / get_centers(); the distance table is the "
    "implementation's own and is cross-checked against the angular separation computed with the math module from the stored centres "
    "(1e-14 rad + 1e-9 relative); calls in which a distance lies within 2^-40 (relative) of rtol * radius are not compared (near_tie_skipped)",
]
ASSUMPTIONS = ["weights are dyadic, so the float sum of weights is exact"]
RULE = ("cases = (patch mode, centre order, sizes incl. single-object patches, weights on/off); distinct by generator parameters "
        "+ data seed; non-trivial when a patch has >= 2 records (the radius is a proper maximum) or the guard sees a mismatch; "
        "option cases = (given options, entry point/format, chunk size, workers + completion order, kind of index column, "
        "created or reopened catalog); non-trivial when more than one option is given and the column (if any) differs from the stored partition "
        "or another option had to be ignored; "
        "route cases = (creation route / file format, centres given as coordinates / as a catalog / made from patch_num, generator box + seed + size "
        "or records, chunk size, probe size, workers + completion order, created or reopened, what the second catalog is handed); non-trivial "
        "when at least two patches hold records and some patch holds more than one; "
        "guard cases = (scene: centres, number of catalogs 2..4, extent and records-per-patch profile) x (which catalog is displaced / altered, "
        "how, by how many reference radii, which patches) x (entry point, roles / call order); non-trivial unless all catalogs are aligned; "
        "degenerate guard cases = (scene: which patches of which catalogs hold one object / identical objects / objects 1e-8 deg apart, patch mode "
        "of every catalog, created or restored) x (which catalog is displaced, on the degenerate / proper / one / all patches, slightly / far / by "
        "a multiple of the radius) x (entry point, roles / call order); non-trivial when the reference catalog has a zero or tiny radius and a "
        "catalog is displaced, or the verdict hinges on a zero- or tiny-radius patch")
HEADER = "From Verif Require Import Prelude Metadata.\nOpen Scope Q_scope.\n"


def exact_nearest(u, cents3):
    d = [sum((Fraction(float(a)) - Fraction(float(b))) ** 2 for a, b in zip(u, c)) for c in cents3]
    order = sorted(range(len(d)), key=lambda i: d[i])
    if len(d) > 1 and d[order[1]] - d[order[0]] <= Fraction(1, 2 ** 40) * d[order[1]]:
        return None
    return order[0]


def build(ctx, name, pts, w, z, **kw):
    cols = {"ra": [p[0] for p in pts], "dec": [p[1] for p in pts]}
    args = dict(ra_name="ra", dec_name="dec", max_workers=1)
    if w is not None:
        cols["w"] = w; args["weight_name"] = "w"
    if z is not None:
        cols["z"] = z; args["redshift_name"] = "z"
    if "pid" in kw:
        cols["pid"] = kw.pop("pid"); args["patch_name"] = "pid"
    args.update(kw)
    return impl.Catalog.from_dataframe(impl.fresh_dir(ctx, name), impl.make_df(cols), **args)


def meta_terms(ctx, cat, cid, terms, metas, given=None, mode=""):
    keys = list(cat.keys())
    centers = cat.get_centers()
    radii = cat.get_radii().data
    nrec = cat.get_num_records()
    sumw = cat.get_sum_weights()
    for k, pid in enumerate(keys):
        patch = cat[pid]
        data = patch.load_data()
        coords = impl.AngularCoordinates(np.column_stack([data["ra"], data["dec"]]))
        dists = [float(x) for x in coords.distance(centers[k]).data]
        ws = [float(x) for x in data["weights"]] if "weights" in data.dtype.names else None
        terms.append("c12_meta_case %s %s %s %s %s" % (fq.qlist(dists), fq.opt(ws, fq.qlist), fq.nat(int(nrec[k])),
                                                      fq.q(float(sumw[k])), fq.q(float(radii[k]))))
        metas.append(((cid, pid), dict(mode=mode, patch=pid, n=len(dists), radius=float(radii[k]))))
        ctx.count(key=(cid, pid, tuple(dists)), nontrivial=len(dists) >= 2, kind="meta/%s" % mode)


TAG = 4096.0          # record i carries redshift (i + 1) / TAG: exact, unique, survives every reader


def exact_row(u, cents3):
    """exact squared chords of one unit vector to all centres; None when the two smallest are within 2^-40 (relative)"""
    d = [sum((Fraction(float(a)) - Fraction(float(b))) ** 2 for a, b in zip(u, c)) for c in cents3]
    if len(d) > 1:
        lo = sorted(d)
        if lo[1] - lo[0] <= Fraction(1, 2 ** 40) * lo[1]:
            return None
    return d


def make_column(rng, kind, near, ncent):
    """an input patch index column for records whose generating centre is near[i]"""
    n = len(near)
    if kind == "agree":
        return list(near)
    if kind == "shift":
        return [(k + 1) % ncent for k in near]
    if kind == "perm":
        perm = list(range(ncent))
        while perm == list(range(ncent)):
            rng.shuffle(perm)
        return [perm[k] for k in near]
    if kind == "random":
        col = [rng.randrange(ncent) for _ in range(n)]
        for pid, pos in enumerate(rng.sample(range(n), ncent)):      # every index 0..N-1 occurs
            col[pos] = pid
        return col
    if kind == "few":
        col = list(near)
        movable = [i for i in range(n) if near.count(near[i]) >= 2]
        if not movable:
            return [(k + 1) % ncent for k in near]
        for i in rng.sample(movable, min(len(movable), rng.choice([1, 2]))):
            if col.count(col[i]) >= 2:
                col[i] = (col[i] + 1) % ncent
        return col
    if kind == "sparse":                                             # not contiguous, exceeds N-1
        return [2 * k for k in near]
    if kind == "fewer":                                              # two centres share one index
        return [min(k, ncent - 2) for k in near]
    raise AssertionError(kind)


def write_input(ctx, rng, fmt, cols):
    ext = {"parquet": rng.choice(["pqt", "parquet"]), "hdf5": rng.choice(["hdf5", "h5"]), "fits": "fits"}[fmt]
    path = os.path.join(ctx.workdir, "opt_input." + ext)
    if os.path.exists(path):
        os.unlink(path)
    if fmt == "parquet":
        impl.make_df(cols).to_parquet(path, row_group_size=rng.choice([1, 2, 5, 1000]))
    elif fmt == "hdf5":
        import h5py
        with h5py.File(path, "w") as f:
            for k, v in cols.items():
                f.create_dataset(k, data=np.asarray(v))
    else:
        from astropy.table import Table
        Table({k: np.asarray(v) for k, v in cols.items()}).write(path, format="fits", overwrite=True)
    return path


OPTION_SETS = {            # name -> (centres given as, patch_name given, patch_num given)
    "centres+name": ("coords", True, False),
    "catalog+name": ("catalog", True, False),
    "centres+name+num": ("coords", True, True),
    "centres+num": ("coords", False, True),
    "name+num": (None, True, True),
    "centres": ("coords", False, False),
    "name": (None, True, False),
}
DISAGREEING = ["shift", "perm", "random", "few"]


def option_case(ctx, rng, idx, spec, sterms, smetas, terms, metas):
    """one catalog created with the options of `spec`; appends a c12_split_case term (+ metadata terms)"""
    options, entry, workers, column_kind = spec["options"], spec["entry"], spec["workers"], spec["column"]
    cent_as, has_name, has_num = OPTION_SETS[options]
    ncent = rng.choice([2, 3, 4, 5, 5, 12])
    ra0, dec0 = rng.choice([(30.0, 10.0), (359.5, -40.0), (120.0, 88.5), (250.0, -89.0), (0.2, 0.0)])
    spacing = rng.choice([0.5, 1.0, 3.0])
    cents = [offset(ra0, dec0, k * spacing, (k % 2) * spacing * 0.3) for k in range(ncent)]
    rng.shuffle(cents)                                                # centres in any order
    scatter = rng.choice([0.3, 0.3, 0.7])                             # 0.7: clusters overlap, near[] is not the nearest centre
    pts, near = [], []
    for k in range(ncent):
        size = rng.choice([1, 1, 2, 5, 9])
        here = cluster(rng, cents[k][0], cents[k][1], 1, spacing * 0.05) + cluster(rng, cents[k][0], cents[k][1], size - 1, spacing * scatter)
        pts += here; near += [k] * len(here)
    order = list(range(len(pts))); rng.shuffle(order)
    pts = [pts[i] for i in order]; near = [near[i] for i in order]
    n = len(pts)
    w = [rng.randrange(1, 33) / 8.0 for _ in pts] if rng.random() < 0.5 else None
    column = make_column(rng, column_kind, near, ncent) if has_name else None
    chunksize = rng.choice([None, None, 2, 3, 7, n, n + 5]) if workers == 1 else rng.choice([None, 3, 7, n])
    observe = rng.choice(["created", "created", "reopened"])
    num = rng.choice([2, ncent + 1]) if has_num else None
    cols = {"ra": [p[0] for p in pts], "dec": [p[1] for p in pts], "z": [(i + 1) / TAG for i in range(n)]}
    args = dict(ra_name="ra", dec_name="dec", redshift_name="z", max_workers=workers)
    if w is not None:
        cols["w"] = w; args["weight_name"] = "w"
    if has_name:
        cols["region"] = np.asarray(column, dtype=rng.choice(["i8", "i4", "i2"])); args["patch_name"] = "region"
    if has_num:
        args["patch_num"] = num; args["probe_size"] = n
    if chunksize is not None:
        args["chunksize"] = chunksize
    centers = impl.AngularCoordinates(np.deg2rad(np.asarray(cents)))
    sched = None
    replay = dict(options=options, entry=entry, workers=workers, chunksize=chunksize, column_kind=column_kind, observe=observe,
                  patch_num=num, cents=cents, pts=pts, weights=w, column=column)
    first = None
    try:
        if cent_as == "coords":
            args["patch_centers"] = centers
        elif cent_as == "catalog":
            first = impl.Catalog.from_dataframe(impl.fresh_dir(ctx, "optref"), impl.make_df({"ra": cols["ra"], "dec": cols["dec"]}),
                                                ra_name="ra", dec_name="dec", patch_centers=centers, max_workers=1)
            args["patch_centers"] = first
        given = centers if cent_as else None
        cache = impl.fresh_dir(ctx, "opt")
        if workers > 1:
            impl.set_threads(16)
            sched = simpool.Schedule(rng.choice(["reverse", "random", "identity"]), seed=rng.randrange(10 ** 6))
        try:
            def create():
                if entry == "dataframe":
                    return impl.Catalog.from_dataframe(cache, impl.make_df(cols), **args)
                return impl.Catalog.from_file(cache, write_input(ctx, rng, entry, cols), **args)
            if sched is not None:
                with simpool.patched(sched):
                    cat = create()
                    if observe == "reopened":
                        cat = impl.Catalog(cat.cache_directory, max_workers=workers)
            else:
                cat = create()
                if observe == "reopened":
                    cat = impl.Catalog(cat.cache_directory, max_workers=1)
        finally:
            impl.set_threads(1)
    except ValueError as e:
        # a refusal is not a statement about the partition (e.g. a centre that attracts no record)
        if "contains no data" in str(e) or "do not match" in str(e) or "probe_size" in str(e):
            ctx.bump("options-refused:%s:%s" % (options, str(e)[:28]))
            if first is not None:
                shutil.rmtree(str(first.cache_directory), ignore_errors=True)
            return
        raise
    if sched is not None:
        replay["orders"] = sched.log[:8]
    cid = ("opt", idx)
    meta_terms(ctx, cat, cid, terms, metas, mode="options/%s" % options)
    keys = [int(k) for k in cat.keys()]
    got = cat.get_centers()
    if given is not None:
        if keys != list(range(len(given))):
            ctx.fail("c12-ids-not-0..N-1", "catalog from %d given centres (+ %s) has patch ids %s" % (len(given), options, keys), replay, case=(cid, "ids"))
        elif not np.array_equal(got.data.view("u8"), given.data.view("u8")):
            ctx.fail("c12-centres-not-the-given-ones", "reported centres differ from the given ones (order or value)",
                     dict(replay, got=got.data.tolist()), case=(cid, "centres"))
    # ---- where did every input record go?  (tag -> patch), rows of exact squared chords to the reported centres
    c3 = got.to_3d()
    where, rowof = {}, {}
    broken = None
    for k, pid in enumerate(keys):
        data = cat[pid].load_data()
        u = impl.AngularCoordinates(np.column_stack([data["ra"], data["dec"]])).to_3d()
        for j in range(len(data)):
            t = float(data["redshifts"][j]) * TAG - 1.0
            i = int(t)
            if i != t or not (0 <= i < n) or i in where:
                broken = "patch %d holds a record with tag %r (unknown or seen twice)" % (pid, float(data["redshifts"][j]))
                continue
            where[i] = k if given is not None else pid
            rowof[i] = exact_row(u[j], c3) if given is not None else []
    if broken is None and len(where) != n:
        broken = "%d of %d input records are stored in no patch" % (n - len(where), n)
    kind = "options/%s/%s/%s/%s" % (options, entry, "seq" if workers == 1 else "par", column_kind if has_name else "-")
    if broken is not None:
        ctx.count(key=cid, nontrivial=False, kind=kind)
        ctx.disagree("c12-options-records-not-traceable", cid, dict(why=broken, replay=replay))
    else:
        use = [i for i in range(n) if rowof[i] is not None]
        if len(use) < n:
            ctx.bump("near_tie_skipped", n - len(use))
        rows = [rowof[i] for i in use]
        stored = [where[i] for i in use]
        colu = [int(column[i]) for i in use] if has_name else None
        several = sum([cent_as is not None, has_name, has_num]) >= 2
        # exact squared chords in units of 2^-K (all are dyadic); hexadecimal integer literals keep Coq's parsing cheap
        K = max([fr.denominator.bit_length() - 1 for r in rows for fr in r] + [0])
        zrows = []
        for r in rows:
            ints = [fr * (1 << K) for fr in r]
            assert all(x.denominator == 1 for x in ints)
            zrows.append("[" + "; ".join("0x%x" % x.numerator for x in ints) + "]")
        sterms.append("c12_split_case_z %s %s %s (%s)%%Z %s %s" % (fq.b(cent_as is not None), fq.b(has_name), fq.b(has_num),
                                                                 fq.lst(zrows), fq.opt(colu, fq.nlist), fq.nlist(stored)))
        smetas.append((cid, dict(replay=replay, rows=rows, stored=stored, column=colu, use=use, centres=cent_as is not None)))
        ctx.count(key=(cid, options, entry, workers, chunksize, column_kind, tuple(stored)),
                  nontrivial=several and (colu is None or colu != stored or has_num), kind=kind)
        ctx.sample(dict(options=options, entry=entry, workers=workers, chunksize=chunksize, column_kind=column_kind, observe=observe,
                        ncent=ncent, n=n, column=column, stored=stored), limit=3)
    shutil.rmtree(str(cat.cache_directory), ignore_errors=True)
    if first is not None:
        shutil.rmtree(str(first.cache_directory), ignore_errors=True)


def run_options(ctx, terms, metas):
    """all combinations of the patch-definition options; see the module docstring"""
    rng = ctx.rng
    sterms, smetas = [], []
    specs = []
    k = 0
    # every (several options) x (entry point) x (sequential / parallel) once, the column kind rotating
    for options in ["centres+name", "catalog+name", "centres+name+num"]:
        for entry in ["dataframe", "parquet", "hdf5", "fits"]:
            for workers in [1, 3]:
                specs.append(dict(options=options, entry=entry, workers=workers, column=DISAGREEING[k % len(DISAGREEING)]))
                k += 1
    for options in ["centres+num", "name+num", "centres", "name"]:       # incl. the single-option controls
        for entry, workers in [("dataframe", 1), ("parquet", 3), ("hdf5", 3)]:
            specs.append(dict(options=options, entry=entry, workers=workers, column=DISAGREEING[k % len(DISAGREEING)]))
            k += 1
    for _ in range(ctx.n(30, 400)):
        options = rng.choice(["centres+name"] * 4 + ["catalog+name"] * 2 + ["centres+name+num"] * 2 + ["centres+num", "name+num", "centres", "name"])
        specs.append(dict(options=options, entry=rng.choice(["dataframe", "dataframe", "parquet", "hdf5", "fits"]), workers=rng.choice([1, 1, 3]),
                          column=rng.choice(DISAGREEING * 3 + ["agree", "sparse", "fewer"])))
    for idx, spec in enumerate(specs):
        option_case(ctx, rng, idx, spec, sterms, smetas, terms, metas)
    ctx.log("option cases: %d specs run, %d terms" % (len(specs), len(sterms)))
    codes = ctx.shards("Cases_C12_split", HEADER, sterms, shard=8)
    ctx.log("option cases: evaluated in Coq")
    for (cid, m), c in zip(smetas, codes):
        if not c:
            continue
        rep = m["replay"]
        if c & 2:
            # the statement fails on this catalog: name the records (harness side, for the message only)
            bad = []
            for i, row, p in zip(m["use"], m["rows"], m["stored"]):
                if not (p < len(row)) or any(row[p] > d for d in row):
                    bad.append((i, p, min(range(len(row)), key=lambda j: row[j])))
            follows_column = m["column"] is not None and m["column"] == m["stored"]
            sig = "c12-index-column-overrides-given-centres" if follows_column else "c12-partition-not-reproduced"
            ctx.fail(sig, "created with %s via %s (%d worker(s), chunksize %s): %d of %d records are stored in a patch whose reported centre is not "
                          "their nearest reported centre%s; (record, stored in patch, nearest centre): %s"
                     % (rep["options"], rep["entry"], rep["workers"], rep["chunksize"], len(bad), len(m["rows"]),
                        " - the stored partition is the input's index column, which is documented as ignored when centres are given" if follows_column else "",
                        bad[:5]), rep, case=cid)
        if c & 4:
            ctx.disagree("Cases_C12_split/length", cid, dict(code=c, replay=rep))
        if (c & 1) and not (c & 2):
            # model and implementation differ where the statement is silent (which option wins without centres, an exact tie)
            ctx.disagree("Cases_C12_split", cid, dict(code=c, replay=rep, stored=m["stored"], column=m["column"]))


# ------------------------------------------------------------------ every creation route x centres given or made
BOXES = [(10.0, 12.0, -1.0, 1.0), (0.0, 3.0, -41.0, -38.0), (100.0, 160.0, 86.0, 89.5), (200.0, 230.0, -89.5, -87.5),
         (350.0, 359.9, -2.0, 2.0), (40.0, 41.0, 20.0, 20.5), (120.0, 150.0, -30.0, 30.0)]
REFUSALS = ("contains no data", "do not match", "probe_size")


def route_input(rng, route, mode, probe):
    """generator parameters (route 'random') or records (a data frame / file) + the patch-definition arguments;
    probe = 'part': the centres are made from a proper part of the input (they are not the data means of the patches), 'all': from all of it"""
    inp = dict(route=route, mode=mode)
    if route == "random":
        box = rng.choice(BOXES)
        n = rng.choice([30, 60, 120, 250]) if mode == "num" else rng.choice([8, 12, 30, 60, 120])
        inp.update(box=box, n=n, seed=rng.randrange(1, 10 ** 6), chunksize=rng.choice([None, None, 7, 16, n, n // 2 + 1]),
                   weights=rng.choice([None, [0.5, 1.0, 2.0, 0.25]]), redshifts=rng.choice([None, [0.2, 0.3, 0.7, 0.5]]))
        if mode == "num":
            num = rng.choice([k for k in (2, 3, 4, 5) if 10 * k < n])
            inp.update(patch_num=num, probe_size=n if probe == "all" else rng.choice([10 * num, 10 * num, max(10 * num, n // 2)]))
        else:
            ncent = rng.choice([2, 3, 4, 5])
            fx = [(k + rng.uniform(0.2, 0.8)) / ncent for k in range(ncent)]
            cents = [((box[0] + (box[1] - box[0]) * f) % 360.0, box[2] + (box[3] - box[2]) * rng.uniform(0.15, 0.85)) for f in fx]
            rng.shuffle(cents)                                            # centres in any order
            inp.update(cents=cents)
        return inp
    ncent = rng.choice([2, 3, 4, 5])
    ra0, dec0 = rng.choice([(30.0, 10.0), (359.5, -40.0), (120.0, 88.5), (250.0, -89.0), (0.2, 0.0)])
    spacing = rng.choice([0.5, 1.0, 3.0])
    cents = [offset(ra0, dec0, k * spacing, (k % 2) * spacing * 0.3) for k in range(ncent)]
    rng.shuffle(cents)
    # made centres: a field without gaps (the borders of the patches run through the data, so it matters which centres are reported)
    scatter = rng.choice([0.3, 0.3, 0.7]) if mode != "num" else rng.choice([0.5, 0.7, 1.0])
    pts = []
    for k in range(ncent):
        size = rng.choice([1, 2, 5, 9, 14]) if mode != "num" else rng.choice([9, 14, 20, 30])
        pts += cluster(rng, cents[k][0], cents[k][1], 1, spacing * 0.05) + cluster(rng, cents[k][0], cents[k][1], size - 1, spacing * scatter)
    rng.shuffle(pts)
    n = len(pts)
    inp.update(pts=pts, n=n, chunksize=rng.choice([None, None, 3, 7, n, n + 5]),
               weights=[rng.randrange(1, 33) / 8.0 for _ in pts] if rng.random() < 0.5 else None)
    if mode == "num":
        num = rng.choice([k for k in (2, 3, ncent) if 10 * k < n] or [2])
        inp.update(patch_num=num, probe_size=n if probe == "all" else rng.choice([max(10 * num, n // 2), max(10 * num, n // 3)]))
    else:
        inp.update(cents=cents)
    return inp


def route_case(ctx, rng, idx, spec, rterms, rmetas, terms, metas):
    """one catalog created through `route` with centres that are given (coordinates / a reference catalog) or made
    (patch_num), and the catalog built from its stored records with patch_centers=<that catalog>"""
    from yaw.randoms import BoxRandoms
    route, mode, workers = spec["route"], spec["mode"], spec["workers"]
    probe = (spec.get("probe") or rng.choice(["part", "part", "part", "all"])) if mode == "num" else None
    inp = route_input(rng, route, mode, probe)
    n = inp["n"]
    observe = rng.choice(["created", "created", "reopened"])
    refkind = rng.choice(["centres", "name"]) if mode == "catalog" else None
    handed = rng.choice(["catalog", "catalog", "reopened", "coords"])       # what the second catalog gets as patch_centers
    replay = dict(inp, workers=workers, observe=observe, refkind=refkind, second_gets=handed)
    args = dict(max_workers=workers)
    if inp["chunksize"] is not None:
        args["chunksize"] = inp["chunksize"]
    cid = ("route", idx)
    kind = "route/%s/%s/%s/%s" % (route, mode if probe is None else "num-probe-" + probe, "seq" if workers == 1 else "par", observe)
    ref = cat = second = None
    sched = None
    try:
        try:
            given = None
            if mode == "num":
                args.update(patch_num=inp["patch_num"], probe_size=inp["probe_size"])
            else:
                centers = impl.AngularCoordinates(np.deg2rad(np.asarray(inp["cents"])))
                if mode == "catalog":
                    # a reference catalog over the same region; 'name': its reported centres are the means of its records
                    rp, rcol = [], []
                    for k, c in enumerate(inp["cents"]):
                        here = cluster(rng, c[0], c[1], rng.choice([1, 3]), 0.05)
                        rp += here; rcol += [k] * len(here)
                    if refkind == "name":
                        ref = build(ctx, "routeref", rp, None, None, pid=rcol)
                    else:
                        ref = build(ctx, "routeref", rp, None, None, patch_centers=centers)
                    args["patch_centers"] = ref
                    given = ref.get_centers()
                else:
                    args["patch_centers"] = centers
                    given = centers
            cache = impl.fresh_dir(ctx, "route")
            if workers > 1:
                impl.set_threads(16)
                sched = simpool.Schedule(rng.choice(["reverse", "random", "identity"]), seed=rng.randrange(10 ** 6))
            try:
                def create():
                    if route == "random":
                        gen = BoxRandoms(*inp["box"], seed=inp["seed"],
                                         weights=None if inp["weights"] is None else np.asarray(inp["weights"]),
                                         redshifts=None if inp["redshifts"] is None else np.asarray(inp["redshifts"]))
                        return impl.Catalog.from_random(cache, gen, n, **args)
                    cols = {"ra": [p[0] for p in inp["pts"]], "dec": [p[1] for p in inp["pts"]]}
                    fargs = dict(args, ra_name="ra", dec_name="dec")
                    if inp["weights"] is not None:
                        cols["w"] = inp["weights"]; fargs["weight_name"] = "w"
                    if route == "dataframe":
                        return impl.Catalog.from_dataframe(cache, impl.make_df(cols), **fargs)
                    return impl.Catalog.from_file(cache, write_input(ctx, rng, route, cols), **fargs)
                if sched is not None:
                    with simpool.patched(sched):
                        cat = create()
                        if observe == "reopened":
                            cat = impl.Catalog(cat.cache_directory, max_workers=workers)
                else:
                    cat = create()
                    if observe == "reopened":
                        cat = impl.Catalog(cat.cache_directory, max_workers=1)
            finally:
                impl.set_threads(1)
        except ValueError as e:
            # a refusal is not a statement about the partition (a centre that attracts no record, a probe larger than the input)
            if any(x in str(e) for x in REFUSALS):
                ctx.bump("route-refused:%s/%s:%s" % (route, mode, str(e)[:28]))
                return
            raise
        if sched is not None:
            replay["orders"] = sched.log[:8]
        meta_terms(ctx, cat, cid, terms, metas, mode="route/%s/%s" % (route, mode))
        keys = [int(k) for k in cat.keys()]
        got = cat.get_centers()
        replay.update(reported_centres=got.data.tolist(), ids=keys, num_records=[int(x) for x in cat.get_num_records()])
        if given is not None:
            if keys != list(range(len(given))):
                ctx.fail("c12-ids-not-0..N-1", "catalog from %d given centres via %s has patch ids %s" % (len(given), route, keys), replay, case=(cid, "ids"))
                return
            if not np.array_equal(got.data.view("u8"), given.data.view("u8")):
                ctx.fail("c12-centres-not-the-given-ones", "reported centres differ from the given ones (order or value)", replay, case=(cid, "centres"))
                return
        elif keys != list(range(inp["patch_num"])):
            ctx.count(key=cid, nontrivial=False, kind=kind)
            ctx.disagree("c12-route-made-centres-ids", cid, dict(why="patch_num=%d gives patch ids %s" % (inp["patch_num"], keys), replay=replay))
            return
        # ---- the stored records: row of exact squared chords to the REPORTED centres, index of the storing patch
        c3 = got.to_3d()
        ras, decs, rows, stored = [], [], [], []
        for k, pid in enumerate(keys):
            data = cat[pid].load_data()
            u = impl.AngularCoordinates(np.column_stack([data["ra"], data["dec"]])).to_3d()
            for j in range(len(data)):
                ras.append(float(data["ra"][j])); decs.append(float(data["dec"][j]))
                rows.append(exact_row(u[j], c3)); stored.append(k)
        m = len(stored)
        if m != n or m >= TAG:
            ctx.count(key=cid, nontrivial=False, kind=kind)
            ctx.disagree("c12-route-records-lost", cid, dict(why="%d records requested, %d stored" % (n, m), replay=replay))
            return
        # ---- the same records with patch_centers=<this catalog>
        refused2 = None
        stored2 = list(stored)
        try:
            pc = {"catalog": cat, "reopened": impl.Catalog(cat.cache_directory, max_workers=1), "coords": got}[handed]
            second = impl.Catalog.from_dataframe(impl.fresh_dir(ctx, "route2"), impl.make_df({"ra": ras, "dec": decs, "z": [(i + 1) / TAG for i in range(m)]}),
                                                 ra_name="ra", dec_name="dec", redshift_name="z", degrees=False, patch_centers=pc, max_workers=1,
                                                 **({} if rng.random() < 0.5 else {"chunksize": rng.choice([5, 11, m])}))
        except ValueError as e:
            if not any(x in str(e) for x in REFUSALS):
                raise
            refused2 = str(e)
        if second is not None:
            keys2 = [int(k) for k in second.keys()]
            got2 = second.get_centers()
            if keys2 != keys:
                ctx.fail("c12-ids-not-0..N-1", "catalog with patch_centers=<catalog with %d patches> has patch ids %s" % (len(keys), keys2), replay, case=(cid, "ids2"))
                return
            if not np.array_equal(got2.data.view("u8"), got.data.view("u8")):
                ctx.fail("c12-centres-not-the-given-ones", "catalog with patch_centers=<catalog> reports other centres than that catalog", replay, case=(cid, "centres2"))
                return
            seen = {}
            for k2, pid in enumerate(keys2):
                for zt in second[pid].load_data()["redshifts"]:
                    t = float(zt) * TAG - 1.0
                    if int(t) == t and 0 <= int(t) < m and int(t) not in seen:
                        seen[int(t)] = k2
            if len(seen) != m:
                ctx.count(key=cid, nontrivial=False, kind=kind)
                ctx.disagree("c12-route-records-not-traceable", cid, dict(why="%d of %d records found in the second catalog" % (len(seen), m), replay=replay))
                return
            stored2 = [seen[i] for i in range(m)]
        use = [i for i in range(m) if rows[i] is not None]
        if len(use) < m:
            ctx.bump("near_tie_skipped", m - len(use))
        urows = [rows[i] for i in use]
        K = max([fr.denominator.bit_length() - 1 for r in urows for fr in r] + [0])
        zrows = []
        for r in urows:
            ints = [fr * (1 << K) for fr in r]
            assert all(x.denominator == 1 for x in ints)
            zrows.append("[" + "; ".join("0x%x" % x.numerator for x in ints) + "]")
        st, st2 = [stored[i] for i in use], [stored2[i] for i in use]
        rterms.append("c12_route_case_z (%s)%%Z %s %s" % (fq.lst(zrows), fq.nlist(st), fq.nlist(st2)))
        rmetas.append((cid, dict(replay=replay, rows=urows, stored=st, stored2=st2, refused2=refused2, route=route, mode=mode)))
        ctx.count(key=(cid, route, mode, workers, inp["chunksize"], tuple(stored)), nontrivial=len(set(stored)) >= 2 and m > len(keys), kind=kind)
        ctx.sample(dict(route=route, mode=mode, workers=workers, observe=observe, n=n, chunksize=inp["chunksize"], patch_num=inp.get("patch_num"),
                        probe_size=inp.get("probe_size"), num_records=replay["num_records"], second_gets=handed), limit=3)
    finally:
        for c in (cat, second, ref):
            if c is not None:
                shutil.rmtree(str(c.cache_directory), ignore_errors=True)


def run_routes(ctx, terms, metas):
    """the clause 'its reported centres reproduce its own partition' for every creation route x way to define the centres"""
    rng = ctx.rng
    rterms, rmetas = [], []
    specs = []
    for mode in ["num", "centres", "catalog"]:                              # from_random has no patch_name
        for workers in [1, 3]:
            specs.append(dict(route="random", mode=mode, workers=workers, probe="part"))
    specs += [dict(route="random", mode="num", workers=1, probe="part"), dict(route="random", mode="num", workers=3, probe="all")]
    for route, workers in [("dataframe", 1), ("parquet", 3), ("hdf5", 1), ("fits", 3), ("dataframe", 3), ("parquet", 1)]:
        specs.append(dict(route=route, mode="num", workers=workers, probe="part"))
    specs.append(dict(route="hdf5", mode="num", workers=3, probe="all"))
    specs += [dict(route="dataframe", mode="catalog", workers=3), dict(route="parquet", mode="centres", workers=1),
              dict(route="fits", mode="catalog", workers=1)]
    for _ in range(ctx.n(5, 150)):
        route = rng.choice(["random"] * 4 + ["dataframe", "dataframe", "parquet", "hdf5", "fits"])
        specs.append(dict(route=route, mode=rng.choice(["num", "num", "centres", "catalog"]), workers=rng.choice([1, 1, 3])))
    for idx, spec in enumerate(specs):
        route_case(ctx, rng, idx, spec, rterms, rmetas, terms, metas)
    ctx.log("route cases: %d specs run, %d terms" % (len(specs), len(rterms)))
    codes = ctx.shards("Cases_C12_route", HEADER, rterms, shard=6)
    ctx.log("route cases: evaluated in Coq")
    for (cid, m), c in zip(rmetas, codes):
        rep = m["replay"]
        if not c:
            if m["refused2"] is not None:
                ctx.disagree("c12-route-rebuild-refused", cid, dict(why=m["refused2"], replay=rep))
            continue
        if c & 16:
            ctx.disagree("Cases_C12_route/length", cid, dict(code=c, replay=rep))
            continue
        how = "%s, centres %s" % ("from_random" if m["route"] == "random" else "from_dataframe" if m["route"] == "dataframe" else "from_file (%s)" % m["route"],
                                  {"num": "made (patch_num=%s, probe_size=%s)" % (rep.get("patch_num"), rep.get("probe_size")),
                                   "centres": "given as coordinates", "catalog": "given as a catalog"}[m["mode"]])
        if c & 2:
            # the statement fails on the first catalog: name the records (harness side, for the message only)
            bad = [(i, p, min(range(len(row)), key=lambda j: row[j])) for i, (row, p) in enumerate(zip(m["rows"], m["stored"]))
                   if not (p < len(row)) or any(row[p] > d for d in row)]
            moved = sum(1 for a, b in zip(m["stored"], m["stored2"]) if a != b)
            sig = "c12-partition-not-reproduced-made-centres" if m["mode"] == "num" else "c12-partition-not-reproduced"
            ctx.fail(sig, "%s (%d worker(s), chunksize %s, %s): %d of %d stored records lie in a patch whose reported centre is not their nearest "
                          "reported centre; (record, stored in patch, nearest reported centre): %s; the catalog built from the same records with "
                          "patch_centers=<this catalog> %s"
                     % (how, rep["workers"], rep["chunksize"], rep["observe"], len(bad), len(m["rows"]), bad[:5],
                        ("was refused: %s" % m["refused2"]) if m["refused2"] is not None else "stores %d records in other patches" % moved), rep, case=cid)
        if c & 4:
            bad = [(i, p) for i, (row, p) in enumerate(zip(m["rows"], m["stored2"])) if not (p < len(row)) or any(row[p] > d for d in row)]
            ctx.fail("c12-partition-not-reproduced", "from_dataframe with patch_centers=<catalog made by %s>: %d of %d records are stored in a patch whose reported "
                                                     "centre is not their nearest reported centre: %s" % (how, len(bad), len(m["rows"]), bad[:5]), rep, case=cid)
        if not (c & 6):
            # model and implementation differ although every record sits with a nearest reported centre (cannot be a tie: those are skipped)
            ctx.disagree("Cases_C12_route", cid, dict(code=c, replay=rep, stored=m["stored"], stored2=m["stored2"]))


# ------------------------------------------------------------------ the guard with 2..4 catalogs
EXTENT = {"compact": 0.04, "medium": 0.12, "wide": 0.3}      # half-size of the box of records around a centre / centre spacing
INSIDE = [0.25, 0.49, 0.4999]                                 # displacement in units of the reference catalog's patch radius
BETWEEN = [0.5001, 0.51, 0.75, 0.99]
OUTSIDE = [1.01, 1.5, 3.0, 6.0]
SPECIAL = ["one-patch", "perm", "ids-fewer", "byname", "ids-sparse", "one-patch-between", "ids-extra"]
ZCYCLE = [0.2, 0.3, 0.7]


def gm_build(ctx, name, cents, recs, mode="centers", ids=None):
    """catalog whose patch p has the records recs[p] = [(dx, dy) deg] placed around cents[p]"""
    pts, col = [], []
    for p, c in enumerate(cents):
        for dx, dy in recs[p]:
            pts.append(offset(c[0], c[1], dx, dy)); col.append(p if ids is None else ids[p])
    z = [ZCYCLE[i % 3] for i in range(len(pts))]
    if mode == "centers":
        cat = build(ctx, name, pts, None, z, patch_centers=impl.AngularCoordinates(np.deg2rad(np.asarray(cents))))
    else:
        cat = build(ctx, name, pts, None, z, pid=col)
    return cat, pts


def gm_observe(cat):
    return dict(ids=[int(k) for k in cat.keys()], nrec=[int(n) for n in cat.get_num_records()],
                radii=[float(x) for x in cat.get_radii().data], centers=cat.get_centers())


def gm_scene(rng, k, profile, counts_profile):
    ncent = rng.choice([2, 3, 4, 5])
    ra0, dec0 = rng.choice([(30.0, 10.0), (359.5, -40.0), (120.0, 88.5), (250.0, -89.0), (0.2, 0.0)])
    spacing = rng.choice([1.0, 3.0])
    cents = [offset(ra0, dec0, j * spacing, (j % 2) * spacing * 0.3) for j in range(ncent)]
    rng.shuffle(cents)
    # records per patch: who is the reference, in which order are the others looked at
    if counts_profile == "levels":
        levels = [12, 8, 5, 3][:k]
        rng.shuffle(levels)
        counts = [[lv] * ncent for lv in levels]
    elif counts_profile == "ties":                            # the first catalog of the call is the reference
        lv = rng.choice([1, 2, 5])                            # 1: single-object patches, radius 0
        counts = [[lv] * ncent for _ in range(k)]
    else:                                                     # "lex-vs-total": the tuple that sorts first has not most records
        counts = [[3] + [12] * (ncent - 1), [6] + [4] * (ncent - 1)] + [[2] * ncent for _ in range(k - 2)]
        rng.shuffle(counts)
    ref = max(range(k), key=lambda i: (counts[i], -i))
    if profile == "compact-ref":                              # compact reference (randoms), extended samples
        ext = ["compact" if i == ref else rng.choice(["wide", "wide", "medium"]) for i in range(k)]
        if k >= 3:
            ext[rng.choice([i for i in range(k) if i != ref])] = "wide"
    elif profile == "wide-ref":
        ext = ["wide" if i == ref else rng.choice(["compact", "compact", "medium"]) for i in range(k)]
    elif profile == "same":
        e = rng.choice(list(EXTENT))
        ext = [e] * k
    else:
        ext = [rng.choice(list(EXTENT)) for _ in range(k)]
    recs = [[[(rng.uniform(-1, 1) * EXTENT[ext[i]] * spacing, rng.uniform(-1, 1) * EXTENT[ext[i]] * spacing) for _ in range(counts[i][p])]
             for p in range(ncent)] for i in range(k)]
    return dict(k=k, ncent=ncent, spacing=spacing, cents=cents, counts=counts, extents=ext, recs=recs, ref=ref,
                profile=profile, counts_profile=counts_profile)


def gm_variants(rng, sc):
    """(who, kind, factor): catalog `who` of the scene is displaced / altered"""
    out = [(None, "aligned", 0.0)]
    k = sc["k"]
    spec = list(SPECIAL); rng.shuffle(spec)
    for who in range(k):
        out.append((who, "inside", rng.choice(INSIDE)))
        out.append((who, "between", rng.choice(BETWEEN)))
        out.append((who, "outside", rng.choice(OUTSIDE)))
        out.append((who, spec[who % len(spec)], rng.choice(OUTSIDE)))
    if k >= 3:
        out.append((None, "opposite", 0.4))
    return out


def gm_displaced(rng, sc, who, kind, f, ref_radii_deg):
    """the given centres of every catalog of the scene under one variant"""
    k, ncent, cents = sc["k"], sc["ncent"], sc["cents"]
    given = [list(cents) for _ in range(k)]
    def move(which, factor, patches, brg=None):
        for p in patches:
            b = rng.uniform(0.0, 2.0 * np.pi) if brg is None else brg
            d = factor * ref_radii_deg[p]
            for i in which:
                given[i][p] = offset(cents[p][0], cents[p][1], d * np.sin(b), d * np.cos(b))
    if kind in ("inside", "between", "outside"):
        # displacing the reference catalog = displacing all the others the same way
        move([who], f, range(ncent))
    elif kind == "one-patch":
        move([who], f, [rng.randrange(ncent)])
    elif kind == "one-patch-between":
        move([who], rng.choice(BETWEEN), [rng.randrange(ncent)])
    elif kind == "perm":
        given[who] = [cents[(p + 1) % ncent] for p in range(ncent)]
    elif kind == "opposite":
        a, b = rng.sample([i for i in range(k) if i != sc["ref"]], 2)
        brg = rng.uniform(0.0, 2.0 * np.pi)
        move([a], f, range(ncent), brg)
        move([b], -f, range(ncent), brg)
    return given


def gm_call(entry, cfg, cats):
    import yaw
    from yaw.correlation.measurements import PatchLinkage
    if entry == "linkage":
        PatchLinkage.from_catalogs(cfg, *cats)
    elif entry == "auto":
        yaw.autocorrelate(cfg, cats[0], cats[1], max_workers=1)
    elif entry == "cross/ref_rand":
        yaw.crosscorrelate(cfg, cats[0], cats[1], ref_rand=cats[2], max_workers=1)
    elif entry == "cross/unk_rand":
        yaw.crosscorrelate(cfg, cats[0], cats[1], unk_rand=cats[2], max_workers=1)
    elif entry == "cross/both":
        yaw.crosscorrelate(cfg, cats[0], cats[1], ref_rand=cats[2], unk_rand=cats[3], max_workers=1)
    else:
        raise AssertionError(entry)


def run_guard_many(ctx, cfg):
    """see the module docstring; returns (terms, metas)"""
    from yaw.catalog.catalog import InconsistentPatchesError
    rng = ctx.rng
    terms, metas = [], []
    plans = [(k, profile, "levels") for k in (2, 3, 4) for profile in ("compact-ref", "wide-ref", "same")]
    plans += [(3, "compact-ref", "ties"), (4, "random", "ties"), (3, "random", "lex-vs-total"), (4, "compact-ref", "lex-vs-total")]
    for _ in range(ctx.n(0, 60)):
        plans.append((rng.choice([2, 3, 3, 4, 4]), rng.choice(["compact-ref", "wide-ref", "same", "random"]),
                      rng.choice(["levels", "levels", "ties", "lex-vs-total"])))
    for sidx, (k, profile, counts_profile) in enumerate(plans):
        sc = gm_scene(rng, k, profile, counts_profile)
        ncent = sc["ncent"]
        base, ref_radii_deg = None, None
        try:
            base = [gm_build(ctx, "gm_a%d" % i, sc["cents"], sc["recs"][i]) for i in range(k)]
        except ValueError as e:
            # creation refused (a centre that attracts no record): no catalogs, no statement about the guard
            if "contains no data" in str(e) or "do not match" in str(e):
                ctx.bump("guardn-scene-skipped"); continue
            raise
        ref_radii_deg = [float(x) for x in np.rad2deg(base[sc["ref"]][0].get_radii().data)]
        for vidx, (who, kind, f) in enumerate(gm_variants(rng, sc)):
            given = gm_displaced(rng, sc, who, kind, f, ref_radii_deg)
            cats, pts = [], []
            try:
                for i in range(k):
                    if given[i] == sc["cents"] and not (i == who and kind.startswith(("ids", "byname"))):
                        cat, p = base[i]
                    elif i == who and kind == "ids-fewer":
                        cat, p = gm_build(ctx, "gm_v%d" % i, sc["cents"][:-1], sc["recs"][i][:-1])
                    elif i == who and kind == "ids-extra":
                        far = offset(sc["cents"][0][0], sc["cents"][0][1], 0.0, -2.0 * sc["spacing"])
                        cat, p = gm_build(ctx, "gm_v%d" % i, sc["cents"] + [far], sc["recs"][i] + [sc["recs"][i][0]])
                    elif i == who and kind == "ids-sparse":
                        cat, p = gm_build(ctx, "gm_v%d" % i, sc["cents"], sc["recs"][i], mode="name", ids=[2 * j for j in range(ncent)])
                    elif i == who and kind == "byname":
                        cat, p = gm_build(ctx, "gm_v%d" % i, sc["cents"], sc["recs"][i], mode="name")
                    else:
                        cat, p = gm_build(ctx, "gm_v%d" % i, given[i], sc["recs"][i])
                    cats.append(cat); pts.append(p)
            except ValueError as e:
                if "contains no data" in str(e) or "do not match" in str(e):
                    ctx.bump("guardn-variant-skipped:%s" % kind)
                    for c in cats:
                        if all(c is not b[0] for b in base):
                            shutil.rmtree(str(c.cache_directory), ignore_errors=True)
                    continue
                raise
            obs = [gm_observe(c) for c in cats]
            entries = ["linkage", {2: "auto", 3: rng.choice(["cross/ref_rand", "cross/unk_rand"]), 4: "cross/both"}[k]]
            for entry in entries:
                order = list(range(k)); rng.shuffle(order)      # roles / call order: any assignment
                called = [cats[i] for i in order]
                o = [obs[i] for i in order]
                try:
                    gm_call(entry, cfg, called)
                    accepted = True
                except InconsistentPatchesError:
                    accepted = False
                dt = [[[] if (i == j or len(o[i]["ids"]) != len(o[j]["ids"]))
                       else [float(x) for x in o[i]["centers"].distance(o[j]["centers"]).data] for j in range(k)] for i in range(k)]
                gc = ["{| g_ids := %s; g_nrec := %s; g_radii := %s |}" % (fq.nlist(c["ids"]), fq.nlist(c["nrec"]), fq.qlist(c["radii"])) for c in o]
                terms.append("c12_guardn_case %s %s %s" % (fq.lst(gc), fq.lst([fq.lst([fq.qlist(d) for d in row]) for row in dt]), fq.b(accepted)))
                # labels and message material only (the verdict is the Coq code): the checking order of the call
                chk = sorted(range(k), key=lambda i: tuple(o[i]["nrec"]), reverse=True)
                place = "-" if who is None else ("ref", "1st", "2nd", "3rd")[chk.index(order.index(who))]
                cid = ("guardn", sidx, vidx, entry)
                metas.append((cid, dict(entry=entry, k=k, kind=kind, factor=f, displaced=who, place=place, call_order=order, accepted=accepted,
                                        profile=profile, counts_profile=counts_profile, extents=[sc["extents"][i] for i in order],
                                        ids=[c["ids"] for c in o], nrec=[c["nrec"] for c in o], radii=[c["radii"] for c in o], dists=dt,
                                        checking_order=chk, given_centres=[given[i] for i in order], points=[pts[i] for i in order])))
                ctx.count(key=(sidx, vidx, entry, tuple(order), tuple(map(tuple, (c["nrec"] for c in o)))), nontrivial=kind != "aligned",
                          kind="guardn/k%d/%s/%s@%s/%s/%s" % (k, entry.split("/")[0], kind, place, profile, "accepted" if accepted else "refused"))
                ctx.sample(dict(entry=entry, k=k, kind=kind, factor=f, place=place, extents=[sc["extents"][i] for i in order],
                                nrec=[c["nrec"] for c in o], accepted=accepted), limit=3)
            for i in range(k):
                if cats[i] is not base[i][0]:
                    shutil.rmtree(str(cats[i].cache_directory), ignore_errors=True)
        for cat, _ in base:
            shutil.rmtree(str(cat.cache_directory), ignore_errors=True)
    ctx.log("guard cases with 2..4 catalogs: %d scenes, %d terms" % (len(plans), len(terms)))
    return terms, metas


def judge_guard_many(ctx, metas, codes):
    for (cid, m), c in zip(metas, codes):
        if not c:
            continue
        rep = dict(m)
        if c & 8:
            ctx.disagree("Cases_C12_guardn/shape", cid, dict(code=c, meta=rep))
            continue
        if c & 4:
            # the statement fails: name the catalogs (harness side, for the message and the signature only)
            k, chk = m["k"], m["checking_order"]
            if any(ids != m["ids"][0] for ids in m["ids"]):
                sig, what = "c12-guard-accepts-different-ids", "patch ids %s" % m["ids"]
            else:
                r = chk[0]
                off = [(pos, j, max((d / rad if rad > 0 else float("inf")) for d, rad in zip(m["dists"][r][j], m["radii"][r]) if d > rad))
                       for pos, j in enumerate(chk) if pos > 0 and any(d > rad for d, rad in zip(m["dists"][r][j], m["radii"][r]))]
                later = bool(off) and off[0][0] > 1
                sig = "c12-guard-accepts-misaligned" + ("-later-catalog" if later else "")
                what = ("catalog(s) (place in the checking order, position in the call, centre offset / reference radius) %s; "
                        "reference = catalog %d of the call with records per patch %s, extents in call order %s"
                        % ([(p, j, round(x, 3)) for p, j, x in off], r, m["nrec"][r], m["extents"]))
            ctx.fail(sig, "%s with %d catalogs ran without InconsistentPatchesError although the patch ids differ or centres lie farther from the "
                          "centres of the reference catalog than its patch radius: %s" % (m["entry"], k, what), rep, case=cid)
        elif c & 2:
            ctx.disagree("c12-guard-reference-choice", cid, dict(code=c, meta=rep))
        elif c & 1:
            ctx.disagree("Cases_C12_guardn", cid, dict(code=c, meta=rep))


# ------------------------------------------------------------------ degenerate patches in the guard
# A patch that holds one object, or several objects at one position, has the stored radius 0 (or a radius of a few
# 1e-16 when the centre is the mean of its records); a patch of two objects 1e-8 deg apart has a tiny one.  The rule
# "refuse centres farther apart than rtol times the radius" makes ANY displacement of the partner's centre large there.
GD_SLIGHT = [1e-7, 1e-5, 1e-3]                 # displacement [deg]: small against every proper patch, large against radius 0
GD_FAR = [0.5, 1.0, 3.0]                       # displacement in units of the centre spacing
GD_FRAC = [0.25, 0.4999, 0.5001, 0.75, 1.5]    # displacement in units of the reference catalog's radius (proper patches)
GD_DEGENERATE = ["single", "same", "tiny"]
GD_TINY_RAD = 1e-9                             # label only: radii below this (rad) are called tiny


def gd_offsets(rng, shape, n, ext_deg):
    """records of one patch as (dx, dy) [deg] around its anchor, point symmetric: the mean direction is the anchor"""
    if shape == "single":
        return [(0.0, 0.0)]
    if shape == "same":
        return [(0.0, 0.0)] * max(2, n)
    if shape == "tiny":
        e = rng.choice([1e-9, 1e-8, 1e-7])
        out = []
        for _ in range(rng.choice([1, 1, 2])):
            a = (rng.uniform(-1, 1) * e, rng.uniform(-1, 1) * e)
            out += [a, (-a[0], -a[1])]
        return out + ([(0.0, 0.0)] if rng.random() < 0.3 else [])
    out = []
    for _ in range(max(1, n // 2)):
        a = (rng.uniform(-1, 1) * ext_deg, rng.uniform(-1, 1) * ext_deg)
        out += [a, (-a[0], -a[1])]
    return out + ([(0.0, 0.0)] if n % 2 else [])


def gd_plan(rng, want):
    """a scene: k catalogs over the same anchors; any subset of the patches of some catalogs is degenerate.
    want = which catalog should hold degenerate patches: the planned reference, a partner, both"""
    for _ in range(200):
        k = rng.choice([2, 2, 2, 3, 4])
        ncent = rng.choice([2, 3, 4, 5])
        ra0, dec0 = rng.choice([(30.0, 10.0), (359.5, -40.0), (120.0, 88.5), (250.0, -89.0), (0.2, 0.0)])
        spacing = rng.choice([1.0, 3.0])
        cents = [offset(ra0, dec0, j * spacing, (j % 2) * spacing * 0.3) for j in range(ncent)]
        rng.shuffle(cents)
        levels = [12, 8, 6, 4][:k]
        rng.shuffle(levels)
        if rng.random() < 0.25:
            levels = [levels[0]] * k                                  # ties: the first catalog of the call is the reference
        holders = [rng.random() < 0.6 for _ in range(k)]
        if not any(holders):
            holders[rng.randrange(k)] = True
        shapes, offs = [], []
        for i in range(k):
            sub = set(range(ncent)) if rng.random() < 0.25 else set(rng.sample(range(ncent), rng.randrange(1, ncent + 1)))
            sh = [(rng.choice(GD_DEGENERATE) if (holders[i] and p in sub) else "normal") for p in range(ncent)]
            ext = rng.choice(list(EXTENT.values())) * spacing
            shapes.append(sh)
            offs.append([gd_offsets(rng, sh[p], rng.choice([2, 3, levels[i] + 5]) if sh[p] == "same" else levels[i], ext)
                         for p in range(ncent)])
        counts = [[len(o) for o in offs[i]] for i in range(k)]
        ref = max(range(k), key=lambda i: (counts[i], -i))
        ref_deg = any(x != "normal" for x in shapes[ref])
        oth_deg = any(x != "normal" for i in range(k) if i != ref for x in shapes[i])
        got = "both" if (ref_deg and oth_deg) else ("ref" if ref_deg else "partner")
        if got != want:
            continue
        modes = [rng.choice(["name", "centers", "centers", "like"]) for _ in range(k)]
        names = [i for i in range(k) if modes[i] == "name"]
        src = names[0] if names else None
        modes = [("centers" if (m == "like" and src is None) else m) for m in modes]
        return dict(k=k, ncent=ncent, spacing=spacing, cents=cents, shapes=shapes, offs=offs, counts=counts, planned_ref=ref,
                    modes=modes, like_source=src, restored=[rng.random() < 0.4 for _ in range(k)], where=want,
                    like_by_catalog=rng.random() < 0.5)
    raise AssertionError("no scene plan for %s" % want)


def gd_build(ctx, name, anchors, offs, mode, given=None, restored=False):
    """catalog whose patch p holds the records offs[p] placed around anchors[p] [deg]; mode name: index column, the centre is the
    mean of the records; otherwise given centres (the anchors unless `given`: coordinates or a catalog)"""
    pts, col = [], []
    for p, a in enumerate(anchors):
        for dx, dy in offs[p]:
            pts.append(offset(a[0], a[1], dx, dy)); col.append(p)
    z = [ZCYCLE[i % 3] for i in range(len(pts))]
    if mode == "name":
        cat = build(ctx, name, pts, None, z, pid=col)
    else:
        cat = build(ctx, name, pts, None, z,
                    patch_centers=given if given is not None else impl.AngularCoordinates(np.deg2rad(np.asarray(anchors))))
    if restored:
        cat = impl.Catalog(cat.cache_directory)
    return cat, pts


def gd_separation(c1, c2):
    """angular separation [rad] of two (ra, dec) [rad] with the math module only"""
    import math
    v = [(math.cos(r) * math.cos(d), math.sin(r) * math.cos(d), math.sin(d)) for r, d in (c1, c2)]
    chord = math.sqrt(sum((a - b) ** 2 for a, b in zip(*v)))
    return 2.0 * math.asin(min(1.0, chord / 2.0))


def run_guard_degenerate(ctx, cfg):
    """see GD_* above; returns (terms, metas)"""
    from yaw.catalog.catalog import InconsistentPatchesError
    rng = ctx.rng
    terms, metas = [], []
    wants = ["ref", "ref", "both", "partner", "ref", "both"]
    wants = [wants[i % len(wants)] for i in range(ctx.n(24, 160))]
    skip = ("contains no data", "do not match")
    for sidx, want in enumerate(wants):
        sc = gd_plan(rng, want)
        k, ncent, cents, src = sc["k"], sc["ncent"], sc["cents"], sc["like_source"]

        def make(i, tag, anchors_i, base):
            """catalog i of the scene with its records around anchors_i; a `like` catalog is GIVEN the reported centres of the
            undisplaced catalog src wherever its anchor is not displaced"""
            if sc["modes"][i] != "like":
                return gd_build(ctx, "%s%d" % (tag, i), anchors_i, sc["offs"][i], sc["modes"][i], restored=sc["restored"][i])
            rep = base[src][0].get_centers()
            rows = np.array(rep.data, dtype="f8").reshape(-1, 2).copy()
            anc = []
            for p in range(ncent):
                if anchors_i[p] == cents[p]:
                    anc.append((float(np.rad2deg(rows[p, 0])), float(np.rad2deg(rows[p, 1]))))
                else:
                    anc.append(anchors_i[p]); rows[p] = np.deg2rad(np.asarray(anchors_i[p]))
            same = all(anchors_i[p] == cents[p] for p in range(ncent))
            given = base[src][0] if (same and sc["like_by_catalog"]) else (rep if same else impl.AngularCoordinates(rows))
            return gd_build(ctx, "%s%d" % (tag, i), anc, sc["offs"][i], "centers", given=given, restored=sc["restored"][i])

        base = [None] * k
        try:
            for i in sorted(range(k), key=lambda i: sc["modes"][i] == "like"):       # the source of a `like` catalog first
                base[i] = make(i, "gd_a", cents, base)
        except ValueError as e:
            if any(x in str(e) for x in skip):
                ctx.bump("guardd-scene-skipped")
                for b in base:
                    if b is not None:
                        shutil.rmtree(str(b[0].cache_directory), ignore_errors=True)
                continue
            raise
        bobs = [gm_observe(b[0]) for b in base]
        bref = sorted(range(k), key=lambda i: tuple(bobs[i]["nrec"]), reverse=True)[0]
        ref_radii = bobs[bref]["radii"]
        degp = [p for p in range(ncent) if ref_radii[p] < GD_TINY_RAD]
        prop = [p for p in range(ncent) if ref_radii[p] >= GD_TINY_RAD]
        # who is displaced, on which patches, by how much
        variants = [(None, "aligned", "-")]
        whos = [bref] + rng.sample([i for i in range(k) if i != bref], 1)
        for who in whos:
            variants += [(who, "deg-only", "slight"), (who, "deg-only", "far"), (who, "proper-only", "frac"),
                         (who,) + rng.choice([("one", "slight"), ("all", "frac"), ("all", "slight"), ("one", "far"), ("proper-only", "slight"),
                                              ("deg-only", "frac")])]
        for vidx, (who, which, amount) in enumerate(variants):
            anchors = [list(cents) for _ in range(k)]
            if who is not None:
                T = {"deg-only": degp, "proper-only": prop, "one": [rng.randrange(ncent)], "all": list(range(ncent))}[which]
                if which in ("deg-only", "proper-only") and T and rng.random() < 0.5:
                    T = rng.sample(T, rng.randrange(1, len(T) + 1))
                if not T:
                    ctx.bump("guardd-variant-void:%s" % which); continue
                for p in T:
                    if amount == "far":
                        d = rng.choice(GD_FAR) * sc["spacing"]
                    elif amount == "frac" and ref_radii[p] >= GD_TINY_RAD:
                        d = rng.choice(GD_FRAC) * float(np.rad2deg(ref_radii[p]))
                    elif amount == "frac" and ref_radii[p] > 0.0:
                        d = rng.choice([0.25, 0.75, 1.5, 40.0]) * float(np.rad2deg(ref_radii[p]))
                    else:
                        d = rng.choice(GD_SLIGHT)
                    b = rng.uniform(0.0, 2.0 * np.pi)
                    anchors[who][p] = offset(cents[p][0], cents[p][1], d * np.sin(b), d * np.cos(b))
            cats, pts = [], []
            try:
                for i in range(k):
                    cat, pp = base[i] if anchors[i] == cents else make(i, "gd_v", anchors[i], base)
                    cats.append(cat); pts.append(pp)
            except ValueError as e:
                if any(x in str(e) for x in skip):
                    ctx.bump("guardd-variant-skipped:%s/%s" % (which, amount))
                    for c in cats:
                        if all(c is not b[0] for b in base):
                            shutil.rmtree(str(c.cache_directory), ignore_errors=True)
                    continue
                raise
            obs = [bobs[i] if cats[i] is base[i][0] else gm_observe(cats[i]) for i in range(k)]
            for entry in ["linkage", {2: "auto", 3: rng.choice(["cross/ref_rand", "cross/unk_rand"]), 4: "cross/both"}[k]]:
                order = list(range(k)); rng.shuffle(order)
                called = [cats[i] for i in order]
                o = [obs[i] for i in order]
                dt = [[[] if (i == j or len(o[i]["ids"]) != len(o[j]["ids"]))
                       else [float(x) for x in o[i]["centers"].distance(o[j]["centers"]).data] for j in range(k)] for i in range(k)]
                chk = sorted(range(k), key=lambda i: tuple(o[i]["nrec"]), reverse=True)
                r = chk[0]
                rad = o[r]["radii"]
                # rounding: a displacement within 2^-40 of rtol * radius is not compared (the float quotient may round onto rtol)
                if any(rr > 0.0 and abs(Fraction(d) - Fraction(rr) / 2) <= Fraction(rr) / 2 ** 40
                       for j in range(k) if j != r for d, rr in zip(dt[r][j], rad)):
                    ctx.bump("near_tie_skipped"); continue
                # the float quotient of the pinned code warns on x / 0 and 0 / 0 (numpy RuntimeWarning): counted, not printed
                with warnings.catch_warnings(record=True) as wlog:
                    warnings.simplefilter("always")
                    try:
                        gm_call(entry, cfg, called)
                        accepted = True
                    except InconsistentPatchesError:
                        accepted = False
                for wname in sorted({w.category.__name__ for w in wlog}):
                    ctx.bump("guardd-library-warning:%s" % wname)
                gc = ["{| g_ids := %s; g_nrec := %s; g_radii := %s |}" % (fq.nlist(c["ids"]), fq.nlist(c["nrec"]), fq.qlist(c["radii"])) for c in o]
                terms.append("c12_guardd_case %s %s %s" % (fq.lst(gc), fq.lst([fq.lst([fq.qlist(d) for d in row]) for row in dt]), fq.b(accepted)))
                # labels and message material only (the verdict is the Coq code)
                zero = [p for p in range(len(rad)) if rad[p] == 0.0]
                tiny = [p for p in range(len(rad)) if 0.0 < rad[p] < GD_TINY_RAD]
                same_ids = all(c["ids"] == o[0]["ids"] for c in o)
                off_zero = same_ids and any(dt[r][j][p] > 0.0 for j in range(k) if j != r for p in zero)
                off_tiny = same_ids and any(dt[r][j][p] > 0.5 * rad[p] for j in range(k) if j != r for p in tiny)
                off_prop = same_ids and any(dt[r][j][p] > 0.5 * rad[p] for j in range(k) if j != r for p in range(len(rad)) if rad[p] >= GD_TINY_RAD)
                hinge = "zero-radius" if (off_zero and not off_tiny and not off_prop) else ("tiny-radius" if (off_tiny and not off_zero and not off_prop) else
                        ("proper" if (off_prop and not off_zero and not off_tiny) else ("mixed" if (off_zero or off_tiny or off_prop) else "none")))
                refdeg = "zero" if zero else ("tiny" if tiny else "proper")
                # the distance table against the math module (the table is the implementation's own)
                sep_bad = []
                if same_ids:
                    cc = [np.asarray(c["centers"].data, dtype="f8").reshape(-1, 2) for c in o]
                    for j in range(k):
                        for p in range(len(rad)):
                            if j != r:
                                mine = gd_separation(tuple(cc[r][p]), tuple(cc[j][p]))
                                if abs(mine - dt[r][j][p]) > 1e-14 + 1e-9 * mine:
                                    sep_bad.append((j, p, mine, dt[r][j][p]))
                cid = ("guardd", sidx, vidx, entry)
                meta = dict(entry=entry, k=k, who=who, which=which, amount=amount, call_order=order, accepted=accepted, where=sc["where"],
                            modes=[sc["modes"][i] for i in order], restored=[sc["restored"][i] for i in order],
                            shapes=[sc["shapes"][i] for i in order], ids=[c["ids"] for c in o], nrec=[c["nrec"] for c in o],
                            radii=[c["radii"] for c in o], dists=dt, checking_order=chk, hinge=hinge, reference_radii=refdeg,
                            centres=[[[float(x).hex() for x in row] for row in np.asarray(c["centers"].data).reshape(-1, 2)] for c in o],
                            points=[pts[i] for i in order])
                metas.append((cid, meta))
                if sep_bad:
                    ctx.fail("c12-centre-distance-table-wrong", "the distances between corresponding centres that the catalogs' coordinates report "
                             "differ from the angular separation of the stored centres: (catalog, patch, separation, reported) %s" % sep_bad[:3], meta, case=cid)
                ctx.count(key=("guardd", sidx, vidx, entry, tuple(order), tuple(map(tuple, (c["nrec"] for c in o))), tuple(rad)),
                          nontrivial=hinge in ("zero-radius", "tiny-radius", "mixed") or (refdeg != "proper" and which != "aligned"),
                          kind="guardd/k%d/%s/ref-%s/%s-%s/hinge-%s/%s" % (k, entry.split("/")[0], refdeg, which, amount, hinge,
                                                                       "accepted" if accepted else "refused"))
                ctx.bump("guardd-hinge:%s" % hinge)
                ctx.bump("guardd-reference:%s/%s/%s" % (refdeg, sc["modes"][order[r]], "restored" if sc["restored"][order[r]] else "created"))
                ctx.sample(dict(entry=entry, k=k, which=which, amount=amount, reference_radii=rad, hinge=hinge, accepted=accepted), limit=6)
            for i in range(k):
                if cats[i] is not base[i][0]:
                    shutil.rmtree(str(cats[i].cache_directory), ignore_errors=True)
        for cat, _ in base:
            shutil.rmtree(str(cat.cache_directory), ignore_errors=True)
    ctx.log("guard cases with degenerate patches: %d scenes, %d terms" % (len(wants), len(terms)))
    return terms, metas


def judge_guard_degenerate(ctx, metas, codes):
    for (cid, m), c in zip(metas, codes):
        if not c:
            continue
        rep = dict(m)
        r = m["checking_order"][0]
        how = "%s/%s" % (m["modes"][r], "restored" if m["restored"][r] else "created")
        if c & 8:
            ctx.disagree("Cases_C12_guardd/shape", cid, dict(code=c, meta=rep))
        elif c & 16:
            bad = [(j, p, m["dists"][r][j][p]) for j in range(m["k"]) if j != r for p, rad in enumerate(m["radii"][r])
                   if rad == 0.0 and m["dists"][r][j][p] > 0.0]
            ctx.fail("c12-guard-accepts-displaced-zero-radius-patch:%s" % how,
                     "%s with %d catalogs ran without InconsistentPatchesError although a patch of the reference catalog (catalog %d of the call, %s, "
                     "records per patch %s, radii %s) has the stored radius 0 and the corresponding centre of another catalog is displaced: "
                     "(catalog, patch, distance [rad]) %s - a zero radius makes every displacement larger than rtol * radius"
                     % (m["entry"], m["k"], r, how, m["nrec"][r], m["radii"][r], bad[:4]), rep, case=cid)
        elif c & 4:
            if any(ids != m["ids"][0] for ids in m["ids"]):
                ctx.fail("c12-guard-accepts-different-ids", "%s accepted catalogs with patch ids %s" % (m["entry"], m["ids"]), rep, case=cid)
            else:
                bad = [(j, p, d, rad) for j in range(m["k"]) if j != r for p, (d, rad) in enumerate(zip(m["dists"][r][j], m["radii"][r])) if d > rad]
                tiny = bool(bad) and all(rad < GD_TINY_RAD for _, _, _, rad in bad)
                ctx.fail("c12-guard-accepts-misaligned" + ("-tiny-radius-patch:%s" % how if tiny else ""),
                         "%s with %d catalogs ran without InconsistentPatchesError although centres lie farther from the centres of the reference "
                         "catalog than its patch radius: (catalog, patch, distance, radius) %s" % (m["entry"], m["k"], bad[:4]), rep, case=cid)
        elif c & 2:
            ctx.disagree("c12-guard-reference-choice", cid, dict(code=c, meta=rep))
        elif c & 1:
            if not m["accepted"] and m["hinge"] == "none" and m["reference_radii"] != "proper":
                ctx.fail("c12-guard-refuses-aligned-degenerate-patch:%s" % how,
                         "%s raised InconsistentPatchesError although every centre lies within rtol * radius of the reference centre (coinciding "
                         "centres on the zero-radius patches): reference radii %s, distances %s"
                         % (m["entry"], m["radii"][r], [m["dists"][r][j] for j in range(m["k"]) if j != r]), rep, case=cid)
            else:
                ctx.disagree("Cases_C12_guardd", cid, dict(code=c, meta=rep))


def run_inputs_reused(ctx):
    """The catalog owns what it reports: after creation the caller may overwrite or reuse the arrays it handed over (the
    centre array, the table columns); the centres, radii, counts and weight sums the catalog reports - the live object as
    well as the reopened one - stay what they were, and so does the partition they describe."""
    rng = ctx.rng
    for rnd in range(ctx.n(4, 24)):
        ncent = rng.choice([2, 3, 4])
        cents = [offset(50.0 + 40.0 * rnd, -20.0 + 7.0 * rnd, k * 1.5, (k % 2) * 0.4) for k in range(ncent)]
        pts = [p for k in range(ncent) for p in cluster(rng, cents[k][0], cents[k][1], rng.choice([2, 5, 9]), 0.4)]
        rng.shuffle(pts)
        cols = {"ra": np.array([p[0] for p in pts]), "dec": np.array([p[1] for p in pts]),
                "w": np.array([rng.randrange(1, 17) / 4.0 for _ in pts])}
        arr = np.deg2rad(np.asarray(cents, dtype="f8")).copy()
        how = rng.choice(["coordinates", "coordinates", "rows", "catalog"])
        if how == "coordinates":
            given = impl.AngularCoordinates(arr)
        elif how == "rows":
            given = impl.AngularCoordinates.from_coords([impl.AngularCoordinates(arr[i]) for i in range(ncent)]) \
                if hasattr(impl.AngularCoordinates, "from_coords") else impl.AngularCoordinates(arr)
        else:
            given = impl.AngularCoordinates(arr)
        workers = rng.choice([1, 1, 3])
        try:
            if workers == 1:
                cat = impl.Catalog.from_dataframe(impl.fresh_dir(ctx, "reuse"), impl.make_df(cols), ra_name="ra", dec_name="dec",
                                                  weight_name="w", patch_centers=given, chunksize=rng.choice([None, 4, 7]), max_workers=1)
            else:
                with simpool.patched(simpool.Schedule("random", seed=rng.randrange(10 ** 6))):
                    impl.set_threads(workers)
                    cat = impl.Catalog.from_dataframe(impl.fresh_dir(ctx, "reuse"), impl.make_df(cols), ra_name="ra", dec_name="dec",
                                                      weight_name="w", patch_centers=given, chunksize=rng.choice([4, 7]), max_workers=workers)
                impl.set_threads(1)
        except ValueError as e:
            if "contains no data" in str(e) or "do not match" in str(e):
                ctx.bump("reuse_skipped_empty_patch")
                continue
            raise

        def view(c):
            return (c.get_centers().data.tobytes(), c.get_radii().data.tobytes(), tuple(c.get_num_records()),
                    tuple(float(x).hex() for x in c.get_sum_weights()),
                    tuple((k, p.meta.center.data.tobytes(), p.meta.radius.data.tobytes()) for k, p in c.items()))
        before = view(cat)
        want_centres = arr.copy()
        # the caller goes on using its arrays
        arr += 0.5
        arr[:, 1] *= -1.0
        for v in cols.values():
            v[:] = 0.0
        after = view(cat)
        re = view(impl.Catalog(cat.cache_directory, max_workers=1))
        ctx.count(key=("reuse", rnd, how, workers), nontrivial=True, kind="inputs-reused/%s/w%d" % (how, workers))
        rp = dict(centres=[[float(x).hex() for x in c] for c in want_centres.tolist()], how=how, workers=workers, n=len(pts))
        if after != before:
            ctx.fail("c12-reported-metadata-follows-callers-array",
                     "after the caller overwrote the arrays it had handed to the creation, the live catalog reports other centres / radii / "
                     "counts than right after creation (the reported centres no longer describe the stored partition)", rp, case=("reuse", rnd))
        elif cat.get_centers().data.tobytes() != want_centres.tobytes():
            ctx.fail("c12-centres-not-the-given-ones", "the catalog does not report the given centres bit for bit", rp, case=("reuse", rnd))
        if re != before:
            ctx.fail("c12-reopened-metadata-differs", "the catalog reopened from its cache reports other centres / radii / counts than the "
                     "live object right after creation", rp, case=("reuse-reopen", rnd))
        shutil.rmtree(str(cat.cache_directory), ignore_errors=True)


def run(ctx):
    import yaw
    from yaw.catalog.catalog import InconsistentPatchesError
    from yaw.correlation.measurements import PatchLinkage
    rng = ctx.rng
    impl.set_threads(1)
    terms, metas = [], []
    gterms, gmetas = [], []
    cfg = yaw.Configuration.create(rmin=1.0, rmax=10.0, unit="arcmin", edges=[0.1, 0.5, 1.0], max_workers=1)
    N = ctx.n(14, 160)
    for cid in range(N):
        ncent = rng.choice([2, 3, 4, 5, 5, 12])     # 12: patch_10 / patch_11 sort before patch_2 as strings
        ra0, dec0 = rng.choice([(30.0, 10.0), (359.5, -40.0), (120.0, 88.5), (250.0, -89.0), (0.2, 0.0)])
        spacing = rng.choice([0.5, 1.0, 3.0])
        cents = [offset(ra0, dec0, k * spacing, (k % 2) * spacing * 0.3) for k in range(ncent)]
        perm = list(range(ncent))
        rng.shuffle(perm)
        cents = [cents[i] for i in perm]          # centres in any order
        sizes = [rng.choice([1, 1, 2, 5, 9]) for _ in range(ncent)]
        pts, near = [], []
        for k in range(ncent):
            for p in cluster(rng, cents[k][0], cents[k][1], sizes[k], spacing * 0.3):
                pts.append(p); near.append(k)
        order = list(range(len(pts))); rng.shuffle(order)
        pts = [pts[i] for i in order]; near = [near[i] for i in order]
        w = [rng.randrange(1, 33) / 8.0 for _ in pts] if rng.random() < 0.6 else None
        z = [rng.choice([0.2, 0.3, 0.7]) for _ in pts]
        mode = rng.choice(["centers", "centers", "name", "create", "catalog"]) if len(pts) >= 12 else rng.choice(["centers", "name", "catalog"])
        wprofile = "positive" if w is not None else "none"
        if w is not None and mode in ("centers", "catalog") and rng.random() < 0.5:
            # with given centres any finite weights are legal: zeros, a fully masked patch, signed weights that cancel
            wprofile = rng.choice(["some-zero", "patch-all-zero", "signed-cancelling", "all-zero"])
            masked = rng.randrange(ncent)
            if wprofile == "some-zero":
                w = [0.0 if rng.random() < 0.4 else x for x in w]
            elif wprofile == "patch-all-zero":
                w = [0.0 if near[i] == masked else x for i, x in enumerate(w)]
            elif wprofile == "all-zero":
                w = [0.0 for _ in w]
            else:
                w = [x if i % 2 == 0 else -x for i, x in enumerate(w)]
                for k in range(ncent):       # make every patch of even size cancel exactly
                    idx = [i for i in range(len(pts)) if near[i] == k]
                    if len(idx) >= 2 and len(idx) % 2 == 0:
                        for a, b in zip(idx[0::2], idx[1::2]):
                            w[b] = -w[a]
        ctx.bump("weights:%s" % wprofile)
        centers = impl.AngularCoordinates(np.deg2rad(np.asarray(cents)))
        try:
            if mode == "centers":
                cat = build(ctx, "c", pts, w, z, patch_centers=centers)
                given = centers
            elif mode == "catalog":
                first = build(ctx, "c0", pts, w, z, patch_centers=centers)
                pts2 = [p for k in range(ncent) for p in cluster(rng, cents[k][0], cents[k][1], rng.choice([1, 3]), spacing * 0.25)]
                cat = build(ctx, "c", pts2, None, None, patch_centers=first)
                given = first.get_centers()
            elif mode == "name":
                cat = build(ctx, "c", pts, w, z, pid=[k * rng.choice([1, 2]) for k in near] if rng.random() < 0.5 else near)
                given = None
            else:
                cat = build(ctx, "c", pts, w, z, patch_num=2, probe_size=len(pts))
                given = cat.get_centers()
        except ValueError as e:
            if "contains no data" in str(e) or "probe_size" in str(e):
                ctx.bump("skipped:%s" % str(e)[:30])
                continue
            raise
        meta_terms(ctx, cat, cid, terms, metas, mode=mode)
        # the second public view of the same catalog: restored from its cache directory
        meta_terms(ctx, impl.Catalog(cat.cache_directory), (cid, "reopened"), terms, metas, mode=mode + "/reopened")
        if cid % 2 == 0:
            # the arrays the accessors hand out belong to the caller: working in place on them (normalising weights, shifting
            # redshifts, sorting) must not reach the cache - stored records and the metadata describing them stay as they were
            before = {int(k): v.tobytes() for k, v in impl.patch_records(cat).items()}
            for patch in cat.values():
                for get in (lambda q: q.load_data(), lambda q: q.weights, lambda q: q.redshifts, lambda q: q.coords.data):
                    try:
                        arr = get(patch)
                    except Exception:  # noqa: BLE001
                        continue
                    if isinstance(arr, np.ndarray) and arr.size:
                        try:
                            if arr.dtype.names:
                                for nm in arr.dtype.names:
                                    arr[nm] = arr[nm][::-1] * 3.0 + 1.0
                            else:
                                arr[...] = arr[::-1] * 3.0 + 1.0
                            if hasattr(arr, "flush"):
                                arr.flush()
                        except (ValueError, TypeError):      # read-only: fine
                            ctx.bump("returned-array-read-only")
            again = impl.Catalog(cat.cache_directory)
            after = {int(k): v.tobytes() for k, v in impl.patch_records(again).items()}
            ctx.count(key=(cid, "caller-wrote"), nontrivial=True, kind="meta/%s/after-caller-wrote-into-returned-arrays" % mode)
            if after != before:
                ctx.fail("c12-caller-writes-reach-the-cache", "working in place on arrays returned by the patch accessors changed the records "
                         "stored in the cache; the stored metadata no longer describe them", dict(mode=mode, patches=sorted(before)), case=(cid, "caller-wrote"))
            meta_terms(ctx, again, (cid, "caller-wrote"), terms, metas, mode=mode + "/after-caller-wrote")
        keys = list(cat.keys())
        if given is not None:
            got = cat.get_centers()
            if keys != list(range(len(given))):
                ctx.fail("c12-ids-not-0..N-1", "catalog from %d given centres has patch ids %s" % (len(given), keys),
                         dict(mode=mode, cents=cents, pts=pts), case=(cid, "ids"))
            elif not np.array_equal(got.data.view("u8"), given.data.view("u8")):
                ctx.fail("c12-centres-not-the-given-ones", "reported centres differ from the given ones (order or value)",
                         dict(mode=mode, cents=cents, got=got.data.tolist()), case=(cid, "centres"))
            # re-assignment of every record to the reported centres reproduces the partition
            c3 = got.to_3d()
            wrong = []
            for k, pid in enumerate(keys):
                data = cat[pid].load_data()
                u = impl.AngularCoordinates(np.column_stack([data["ra"], data["dec"]])).to_3d()
                for r in u:
                    e = exact_nearest(r, c3)
                    if e is None:
                        ctx.bump("near_tie_skipped")
                    elif e != k:
                        wrong.append((pid, e))
            if wrong:
                ctx.fail("c12-partition-not-reproduced", "records are not nearest to the reported centre of their patch: %s" % wrong[:4],
                         dict(mode=mode, cents=cents, pts=pts), case=(cid, "reassign"))
        ctx.sample(dict(mode=mode, ncent=ncent, sizes=sizes, keys=keys), limit=3)
        # ---- guard: pair this catalog with a variant ----
        variant = rng.choice(["same", "permuted", "shifted", "ids", "near"])
        if mode in ("centers",) and ncent >= 2:
            try:
                if variant == "same":
                    other = build(ctx, "o", pts, None, z, patch_centers=centers)
                elif variant == "permuted":
                    rot = [cents[(k + 1) % ncent] for k in range(ncent)]
                    pts2 = [p for k in range(ncent) for p in cluster(rng, rot[k][0], rot[k][1], 3, spacing * 0.2)]
                    other = build(ctx, "o", pts2, None, [0.3] * len(pts2), patch_centers=impl.AngularCoordinates(np.deg2rad(np.asarray(rot))))
                elif variant == "shifted":
                    sh = [offset(c[0], c[1], spacing * 2.0, spacing * 1.5) for c in cents]
                    pts2 = [p for k in range(ncent) for p in cluster(rng, sh[k][0], sh[k][1], 3, spacing * 0.2)]
                    other = build(ctx, "o", pts2, None, [0.3] * len(pts2), patch_centers=impl.AngularCoordinates(np.deg2rad(np.asarray(sh))))
                elif variant == "near":
                    sh = [offset(c[0], c[1], spacing * 0.01, 0.0) for c in cents]
                    pts2 = [p for k in range(ncent) for p in cluster(rng, sh[k][0], sh[k][1], 3, spacing * 0.2)]
                    other = build(ctx, "o", pts2, None, [0.3] * len(pts2), patch_centers=impl.AngularCoordinates(np.deg2rad(np.asarray(sh))))
                else:
                    pts2 = [p for k in range(ncent - 1) for p in cluster(rng, cents[k][0], cents[k][1], 3, spacing * 0.2)]
                    other = build(ctx, "o", pts2, None, [0.3] * len(pts2),
                                  pid=[k for k in range(ncent - 1) for _ in range(3)])
            except ValueError as e:
                if "contains no data" in str(e):
                    continue
                raise
            ref, oth = sorted([cat, other], key=lambda c: c.get_num_records(), reverse=True)
            try:
                PatchLinkage.from_catalogs(cfg, cat, other)
                accepted = True
            except InconsistentPatchesError:
                accepted = False
            ids1, ids2 = list(ref.keys()), list(oth.keys())
            if ids1 == ids2:
                dists = [float(x) for x in ref.get_centers().distance(oth.get_centers()).data]
            else:
                dists = []
            radii = [float(x) for x in ref.get_radii().data]
            gterms.append("c12_guard_case %s %s %s %s %s" % (fq.nlist(ids1), fq.nlist(ids2), fq.qlist(dists), fq.qlist(radii), fq.b(accepted)))
            gmetas.append(((cid, "guard"), dict(variant=variant, ids1=ids1, ids2=ids2, dists=dists, radii=radii, accepted=accepted)))
            ctx.count(key=(cid, "guard", variant), nontrivial=variant != "same", kind="guard/%s/%s" % (variant, "accepted" if accepted else "refused"))
            shutil.rmtree(str(other.cache_directory), ignore_errors=True)
        shutil.rmtree(str(cat.cache_directory), ignore_errors=True)
    # ---- parallel loading: patch i must keep its own records, centre and metadata for every completion order
    impl.set_threads(16)
    for rep in range(ctx.n(4, 24)):
        ncent = rng.choice([3, 4, 5])
        cents = [offset(200.0, -30.0, k * 1.5, 0.0) for k in range(ncent)]
        centers = impl.AngularCoordinates(np.deg2rad(np.asarray(cents)))
        sizes = [1 + 3 * k for k in range(ncent)]                      # every patch has another size
        pts = [p for k in range(ncent) for p in cluster(rng, cents[k][0], cents[k][1], sizes[k], 0.3)]
        w = [rng.randrange(1, 17) / 4.0 for _ in pts]
        seq = build(ctx, "pseq", pts, w, None, patch_centers=centers)
        want = [(int(k), int(n), float(sw).hex()) for k, n, sw in zip(seq.keys(), seq.get_num_records(), seq.get_sum_weights())]
        want_c = seq.get_centers().data.view("u8").tolist()
        mode = rng.choice(["reverse", "random"])
        sch = simpool.Schedule(mode, seed=rng.randrange(10 ** 6))
        with simpool.patched(sch):
            par = impl.Catalog.from_dataframe(impl.fresh_dir(ctx, "ppar"), impl.make_df({"ra": [p[0] for p in pts], "dec": [p[1] for p in pts], "w": w}),
                                              ra_name="ra", dec_name="dec", weight_name="w", patch_centers=centers, max_workers=3)
            re = impl.Catalog(par.cache_directory, max_workers=3)
        for tag, cat in (("create", par), ("reopen", re)):
            got = [(int(k), int(n), float(sw).hex()) for k, n, sw in zip(cat.keys(), cat.get_num_records(), cat.get_sum_weights())]
            ctx.count(key=("parallel", rep, tag, tuple(map(tuple, sch.log[:4]))), nontrivial=True, kind="parallel-load/%s" % tag)
            if got != want or cat.get_centers().data.view("u8").tolist() != want_c:
                ctx.fail("c12-parallel-load-mixes-patches", "with 3 workers and completion order %s the patches carry other metadata / centres than sequentially: %s vs %s"
                         % (sch.log[:3], got, want), dict(cents=cents, sizes=sizes, orders=sch.log[:6], stage=tag), case=("parallel", rep, tag))
            for k, pid in enumerate(cat.keys()):
                if len(cat[pid].load_data()) != cat.get_num_records()[k]:
                    ctx.fail("c12-num-records", "stored number of records differs from the patch data (parallel load)",
                             dict(patch=int(pid), stage=tag), case=("parallel-n", rep, tag, int(pid)))
        for c in (seq, par):
            shutil.rmtree(str(c.cache_directory), ignore_errors=True)
    impl.set_threads(1)
    # ---- targeted probe: a centre that attracts no object (C12: patches 0..N-1 in order) ----
    cents = [offset(50.0, 20.0, k * 2.0, 0.0) for k in range(3)]
    pts = cluster(rng, cents[0][0], cents[0][1], 4, 0.3) + cluster(rng, cents[2][0], cents[2][1], 4, 0.3)
    centers = impl.AngularCoordinates(np.deg2rad(np.asarray(cents)))
    ctx.count(key=("empty-centre",), kind="probe/empty-centre")
    try:
        cat = build(ctx, "e", pts, None, None, patch_centers=centers)
        keys = list(cat.keys())
        got = cat.get_centers().data
        aligned = keys == [0, 1, 2]
        if not aligned:
            ctx.fail("c12-empty-centre-misaligned",
                     "3 given centres, the middle one attracts no object: creation returns patches %s with centres %s "
                     "(centre of patch 2 is the given centre 1)" % (keys, got.tolist()),
                     dict(cents=cents, pts=pts, keys=keys), case=("probe", "empty-centre"))
        shutil.rmtree(str(cat.cache_directory), ignore_errors=True)
    except ValueError:
        pass  # refusing is what the property asks for
    ctx.log("single-option cases done")
    # ---- the guard of measurements with 2, 3 and 4 catalogs ----
    nterms, nmetas = run_guard_many(ctx, cfg)
    # ---- the same guard on degenerate patches (stored radius 0 or tiny) ----
    dterms, dmetas = run_guard_degenerate(ctx, cfg)
    # ---- several patch-definition options at once (precedence centres > name > num) ----
    run_options(ctx, terms, metas)
    # ---- every creation route x centres given or made: the reported centres are the ones the partition used ----
    run_routes(ctx, terms, metas)
    # ---- the caller reuses the arrays it handed over ----
    run_inputs_reused(ctx)
    codes = ctx.shards("Cases_C12_meta", HEADER, terms, shard=200)
    for (cid, meta), c in zip(metas, codes):
        if not c:
            continue
        if c & 2:
            ctx.fail("c12-record-outside-radius", "a record lies farther from the stored centre than the stored radius", meta, case=cid)
        if c & 4:
            ctx.fail("c12-num-records", "stored number of records differs from the patch data", meta, case=cid)
        if c & 1:
            if not (c & 6):
                ctx.fail("c12-metadata-mismatch", "stored sum of weights / radius differ from those of the records (code %d)" % c, meta, case=cid)
    codes = ctx.shards("Cases_C12_guard", HEADER, gterms, shard=200)
    for (cid, meta), c in zip(gmetas, codes):
        if not c:
            continue
        if c & 2:
            ctx.fail("c12-guard-accepts-misaligned", "measurement accepted catalogs whose patch ids differ or whose centres are farther apart than the patch radius", meta, case=cid)
        if c & 1:
            ctx.disagree("Cases_C12_guard", cid, dict(code=c, meta=meta))
    codes = ctx.shards("Cases_C12_guardn", HEADER, nterms, shard=60)
    judge_guard_many(ctx, nmetas, codes)
    codes = ctx.shards("Cases_C12_guardd", HEADER, dterms, shard=60)
    judge_guard_degenerate(ctx, dmetas, codes)
