"""Shared helpers of the C03 / C04 checks (jackknife samples, estimators, n(z) formula):
generators of small dyadic pair-count / weight arrays, builders of the real yaw containers,
encoders into Coq terms of Model/Jackknife.v + Model/Estimators.v, and the symbolic-trace
translator (numpy object arrays of symbols pushed through the real functions, the resulting
expression trees printed as Coq Q terms with lemmas `trace == spec` closed by `ring`)."""
import math
import os
import shutil
import warnings
from concurrent.futures import ThreadPoolExecutor
from fractions import Fraction

import numpy as np

from lib import coqrun
from lib import floatq as fq
from lib import impl  # noqa: F401  (asserts that yaw comes from the tree under test)

from yaw.binning import Binning
from yaw.config import BinningConfig
from yaw.correlation import corrfunc as yaw_corrfunc
from yaw.correlation.corrdata import CorrData
from yaw.correlation.corrfunc import CorrFunc
from yaw.correlation.paircounts import NormalisedCounts, PatchedCounts, PatchedSumWeights
from yaw.redshifts import HistData, RedshiftData

HEADER = "From Verif Require Import Prelude Jackknife Estimators.\nOpen Scope Q_scope.\n"
KINDS = ("dr", "rd", "rr")
SUBSETS = [tuple(k for k, bit in zip(KINDS, (1, 2, 4)) if m & bit) for m in range(1, 8)]


# ----------------------------------------------------------------------------- encoders
def finite(x):
    return math.isfinite(float(x))


def oq(x):
    """optional rational: None stands for a non-finite float of the implementation"""
    return "(Some %s)" % fq.q(x) if finite(x) else "None"


def oqlist(xs):
    return fq.lst(xs, oq)


def oqmat(m):
    return fq.lst(m, oqlist)


def qmat3(a):
    return fq.lst(a, fq.qmat)


def all_finite(a):
    return bool(np.all(np.isfinite(np.asarray(a, dtype=float))))


def pc_term(p):
    """p = dict(auto, counts (B,N,N), w1 (B,N), w2 (B,N)) -> Coq record of type pc"""
    return "(Build_pc %s %s %s %s)" % (fq.b(p["auto"]), qmat3(p["counts"]), fq.qmat(p["w1"]), fq.qmat(p["w2"]))


def opt_pc(p):
    return "None" if p is None else "(Some %s)" % pc_term(p)


# ----------------------------------------------------------------------------- generators
def gen_binning(rng, B):
    start = rng.choice([0.0, 0.125, 0.25])
    edges = [start]
    for _ in range(B):
        edges.append(edges[-1] + rng.choice([0.125, 0.25, 0.5, 0.375]))
    return edges


def gen_counts(rng, B, N, mode, auto):
    """(B,N,N) array of small dyadic numbers; float64 sums of these are exact."""
    a = np.zeros((B, N, N))
    for b in range(B):
        for i in range(N):
            for j in range(N):
                if mode == "binary":
                    v = rng.randrange(2)
                elif mode == "sparse":
                    v = rng.randrange(1, 40) if rng.random() < 0.3 else 0
                elif mode == "dyadic":
                    v = rng.randrange(0, 256) / 8.0
                else:  # dense integers
                    v = rng.randrange(1, 60)
                a[b, i, j] = v
    if auto and rng.random() < 0.5:       # the shape real autocorrelation counts have
        for b in range(B):
            a[b] = np.triu(a[b])
    return a


def gen_weights(rng, B, N, mode):
    w = np.zeros((B, N))
    for b in range(B):
        for i in range(N):
            if mode == "sparse" and rng.random() < 0.35:
                w[b, i] = 0.0
            elif mode == "dyadic":
                w[b, i] = rng.randrange(1, 64) / 4.0
            else:
                w[b, i] = rng.randrange(1, 12)
    return w


def gen_pc(rng, B, N, auto, mode):
    w1 = gen_weights(rng, B, N, mode)
    w2 = w1.copy() if (auto and rng.random() < 0.85) else gen_weights(rng, B, N, mode)
    return dict(auto=auto, counts=gen_counts(rng, B, N, mode, auto), w1=w1, w2=w2)


def gen_corrfunc(rng, B, N, auto, mode, subset):
    d = dict(dd=gen_pc(rng, B, N, auto, mode))
    for k in KINDS:
        d[k] = gen_pc(rng, B, N, auto, mode if k != "rr" or rng.random() < 0.3 else "dense") if k in subset else None
    return d


def pick_shape(rng, small=False):
    B = rng.choice([1, 1, 2, 2, 3, 4])
    N = rng.choice([2, 2, 3, 3, 4] if small else [2, 3, 3, 4, 5, 6, 7])
    return B, N


# ----------------------------------------------------------------------------- real containers
def build_counts(edges, p):
    b = Binning(edges, closed="right")
    return PatchedCounts(b, np.array(p["counts"], dtype=float), auto=p["auto"])


def build_weights(edges, p):
    b = Binning(edges, closed="right")
    return PatchedSumWeights(b, np.array(p["w1"], dtype=float), np.array(p["w2"], dtype=float), auto=p["auto"])


def build_nc(edges, p):
    return NormalisedCounts(build_counts(edges, p), build_weights(edges, p))


def build_corrfunc(edges, d):
    return CorrFunc(build_nc(edges, d["dd"]), **{k: build_nc(edges, d[k]) for k in KINDS if d[k] is not None})


def quiet(f, *a, **kw):
    """run f with numpy's divide/invalid warnings silenced (0/0 and x/0 are legitimate inputs)"""
    with warnings.catch_warnings():
        warnings.simplefilter("ignore")
        with np.errstate(all="ignore"):
            return f(*a, **kw)


# ----------------------------------------------------------------------------- catalogs for histograms
def gen_hist_catalog(rng, N, B, weighted=True, distinct=False):
    """rows of a data frame with N patches (ids 0..N-1) whose redshifts lie strictly inside the
    bins (or outside the binning), and the per-patch histograms obs[p][b] they define."""
    edges = gen_binning(rng, B)
    rows = []
    obs = [[Fraction(0)] * B for _ in range(N)]
    for p in range(N):
        nobj = rng.randrange(1, 6)
        for m in range(nobj):
            if distinct:
                b = (p + m) % B if m else p % B
            else:
                b = rng.randrange(-1, B + 1) if m else rng.randrange(B)   # first object inside the binning
            if b < 0:
                z = edges[0] - 0.0625
            elif b >= B:
                z = edges[-1] + 0.0625
            else:
                z = edges[b] + (edges[b + 1] - edges[b]) * rng.choice([0.25, 0.5, 0.75])
            w = (rng.randrange(1, 32) / 4.0) if weighted else 1.0
            if distinct:
                w = float(2 ** p) * (m + 1)
            rows.append((10.0 + 20.0 * p + 0.125 * m, 5.0 - 0.25 * m, z, p, w))
            if 0 <= b < B:
                obs[p][b] += Fraction(w)
    return edges, rows, obs


def hist_from_catalog(ctx, tag, edges, rows, weighted, closed="right", workers=1, sched_seed=0):
    """workers > 1: the histogram is computed on the simulated pool (harness/sim/pool.py) with that many workers and a
    seeded completion order - sample k is the histogram without patch k however the work is handed out"""
    import pandas as pd
    df = pd.DataFrame(rows, columns=["ra", "dec", "z", "pid", "w"])
    cache = impl.fresh_dir(ctx, "cat_%s" % tag)
    kw = dict(ra_name="ra", dec_name="dec", redshift_name="z", patch_name="pid", max_workers=1)
    if weighted:
        kw["weight_name"] = "w"
    try:
        cat = impl.Catalog.from_dataframe(cache, df, **kw)
        if workers <= 1:
            return HistData.from_catalog(cat, BinningConfig.create(edges=edges, closed=closed), max_workers=1)
        from sim import pool as simpool
        impl.set_threads(workers)
        try:
            with simpool.patched(simpool.Schedule("random", seed=sched_seed)):
                return HistData.from_catalog(cat, BinningConfig.create(edges=edges, closed=closed), max_workers=workers)
        finally:
            impl.set_threads(1)
    finally:
        shutil.rmtree(cache, ignore_errors=True)


# ----------------------------------------------------------------------------- symbolic traces
class Sym:
    """a node of an expression tree; numpy object arrays of these pass through einsum, triu,
    tile, arithmetic, nansum and sqrt of the real code"""
    __slots__ = ("op", "args")

    def __init__(self, op, *args):
        self.op = op
        self.args = args

    @staticmethod
    def lift(x):
        if isinstance(x, Sym):
            return x
        if isinstance(x, (int, float, np.integer, np.floating)) and not isinstance(x, (bool, np.bool_)):
            return Sym("const", x)
        return None

    def _bin(self, op, other, swap=False):
        other = Sym.lift(other)
        if other is None:
            return NotImplemented
        return Sym(op, other, self) if swap else Sym(op, self, other)

    def __add__(self, o): return self._bin("+", o)
    def __radd__(self, o): return self._bin("+", o, True)
    def __sub__(self, o): return self._bin("-", o)
    def __rsub__(self, o): return self._bin("-", o, True)
    def __mul__(self, o): return self._bin("*", o)
    def __rmul__(self, o): return self._bin("*", o, True)
    def __truediv__(self, o): return self._bin("/", o)
    def __rtruediv__(self, o): return self._bin("/", o, True)
    def __neg__(self): return Sym("-", Sym("const", 0), self)
    def sqrt(self): return Sym("sqrt", self)      # np.sqrt on object arrays calls .sqrt()


class TraceError(Exception):
    """a trace was produced but does not have the expected shape (a broken obligation)"""


class TraceUnavailable(Exception):
    """the real function could not be run on symbolic arrays at all (recorded, not alarmed)"""


def real(f, *a, **kw):
    """run a piece of the real code on symbolic inputs"""
    try:
        return f(*a, **kw)
    except Exception as e:  # noqa: BLE001
        raise TraceUnavailable("%s: %s" % (type(e).__name__, str(e)[:200]))


def var(name):
    return Sym("var", name)


def sym_array(shape, prefix, names):
    a = np.empty(shape, dtype=object)
    for idx in np.ndindex(*shape):
        n = prefix + "_".join(map(str, idx))
        names.append(n)
        a[idx] = var(n)
    return a


def coq_of(s):
    """Coq Q term of an expression tree without division / sqrt"""
    s = Sym.lift(s)
    if s is None:
        raise TraceError("not a symbolic value")
    if s.op == "var":
        return s.args[0]
    if s.op == "const":
        x = s.args[0]
        if isinstance(x, (float, np.floating)) and not math.isfinite(float(x)):
            raise TraceError("non-finite constant")
        return fq.q(x)
    if s.op in "+-*":
        return "(%s %s %s)" % (coq_of(s.args[0]), s.op, coq_of(s.args[1]))
    raise TraceError("unexpected operation '%s' inside a polynomial part" % s.op)


def split_quot(s):
    s = Sym.lift(s)
    if s is None or s.op != "/":
        raise TraceError("expected a quotient at top level")
    return s.args[0], s.args[1]


TACTIC = "Proof. cbv -[Qplus Qmult Qminus Qopp Qeq Qdiv Qinv]; ring. Qed."


class TraceFile:
    def __init__(self, name, names):
        self.name = name
        self.names = list(dict.fromkeys(names))
        self.lemmas = []

    def lemma(self, label, trace_term, spec_term):
        self.lemmas.append("Lemma t_%s : %s == %s.\n%s" % (label, trace_term, spec_term, TACTIC))

    def text(self):
        return (HEADER + "Section Trace.\nContext (%s : Q).\n" % " ".join(self.names)
                + "\n".join(self.lemmas) + "\nEnd Trace.\n")


def cmat(prefix, b, N):
    return "[" + "; ".join("[" + "; ".join("%s%d_%d_%d" % (prefix, b, i, j) for j in range(N)) + "]" for i in range(N)) + "]"


def cvec(prefix, b, N):
    return "[" + "; ".join("%s%d_%d" % (prefix, b, i) for i in range(N)) + "]"


def _new_counts(binning, counts, auto):
    pc = PatchedCounts.__new__(PatchedCounts)      # no astype(float64)
    pc.binning, pc.auto, pc.counts = binning, auto, counts
    return pc


def _new_weights(binning, w1, w2, auto):
    sw = PatchedSumWeights.__new__(PatchedSumWeights)
    sw.binning, sw.auto, sw.sum_weights1, sw.sum_weights2 = binning, auto, w1, w2
    return sw


def trace_sps(N, B):
    """BinwisePatchwiseArray.sample_patch_sum on a counts array == loo"""
    names = []
    binning = Binning([0.25 * i for i in range(B + 1)])
    res = real(_new_counts(binning, sym_array((B, N, N), "c", names), False).sample_patch_sum)
    tf = TraceFile("sps_N%d_B%d" % (N, B), names)
    for b in range(B):
        tf.lemma("data_b%d" % b, coq_of(res.data[b]), "total %s" % cmat("c", b, N))
        for k in range(N):
            tf.lemma("sample_k%d_b%d" % (k, b), coq_of(res.samples[k, b]), "loo %s %d%%nat" % (cmat("c", b, N), k))
    return tf


def trace_weights(N, B, auto):
    """PatchedSumWeights.get_array and its sample_patch_sum == documented normalisation"""
    names = []
    binning = Binning([0.25 * i for i in range(B + 1)])
    sw = _new_weights(binning, sym_array((B, N), "u", names), sym_array((B, N), "v", names), auto)
    arr = real(sw.get_array)
    res = real(sw.sample_patch_sum)
    tf = TraceFile("weights_%s_N%d_B%d" % ("auto" if auto else "cross", N, B), names)
    a = fq.b(auto)
    for b in range(B):
        u, v = cvec("u", b, N), cvec("v", b, N)
        for i in range(N):
            for j in range(N):
                tf.lemma("array_b%d_%d_%d" % (b, i, j), coq_of(arr[b, i, j]),
                         "nth %d%%nat (nth %d%%nat (weights_array %s %s %s) []) 0" % (j, i, a, u, v))
        tf.lemma("data_b%d" % b, coq_of(res.data[b]), "norm_denominator %s %s %s" % (a, u, v))
        for k in range(N):
            tf.lemma("sample_k%d_b%d" % (k, b), coq_of(res.samples[k, b]),
                     "norm_denominator %s (remove_nth %d%%nat %s) (remove_nth %d%%nat %s)" % (a, k, u, k, v))
    return tf


def trace_nc(N, B, auto):
    """NormalisedCounts.sample_patch_sum: numerator and denominator separately"""
    names = []
    binning = Binning([0.25 * i for i in range(B + 1)])
    pc = _new_counts(binning, sym_array((B, N, N), "c", names), auto)
    sw = _new_weights(binning, sym_array((B, N), "u", names), sym_array((B, N), "v", names), auto)
    res = real(lambda: NormalisedCounts(pc, sw).sample_patch_sum())
    tf = TraceFile("nc_%s_N%d_B%d" % ("auto" if auto else "cross", N, B), names)
    a = fq.b(auto)
    for b in range(B):
        u, v = cvec("u", b, N), cvec("v", b, N)
        num, den = split_quot(res.data[b])
        tf.lemma("data_num_b%d" % b, coq_of(num), "total %s" % cmat("c", b, N))
        tf.lemma("data_den_b%d" % b, coq_of(den), "norm_denominator %s %s %s" % (a, u, v))
        for k in range(N):
            num, den = split_quot(res.samples[k, b])
            tf.lemma("sample_num_k%d_b%d" % (k, b), coq_of(num), "total (del %d%%nat %s)" % (k, cmat("c", b, N)))
            tf.lemma("sample_den_k%d_b%d" % (k, b), coq_of(den),
                     "norm_denominator %s (remove_nth %d%%nat %s) (remove_nth %d%%nat %s)" % (a, k, u, k, v))
    return tf


def trace_estimators(B):
    """landy_szalay / davis_peebles on atomic normalised counts: numerator and denominator"""
    names = []
    dd, dr, rd, rr = (sym_array((B,), p, names) for p in ("dd", "dr", "rd", "rr"))
    tf = TraceFile("estimators_B%d" % B, names)
    cases = [("ls_full", yaw_corrfunc.landy_szalay, dict(dd=dd, dr=dr, rd=rd, rr=rr), "dd%d - dr%d - rd%d + rr%d", "rr%d"),
             ("ls_rd_default", yaw_corrfunc.landy_szalay, dict(dd=dd, dr=dr, rr=rr), "dd%d - dr%d - dr%d + rr%d", "rr%d"),
             ("dp_dr", yaw_corrfunc.davis_peebles, dict(dd=dd, dr=dr), "dd%d - dr%d", "dr%d"),
             ("dp_rd", yaw_corrfunc.davis_peebles, dict(dd=dd, rd=rd), "dd%d - rd%d", "rd%d"),
             ("dp_both", yaw_corrfunc.davis_peebles, dict(dd=dd, dr=dr, rd=rd), "dd%d - rd%d", "rd%d")]
    for label, f, kw, num_s, den_s in cases:
        out = real(f, **kw)
        for b in range(B):
            num, den = split_quot(out[b])
            tf.lemma("%s_num_b%d" % (label, b), coq_of(num), num_s % ((b,) * num_s.count("%d")))
            tf.lemma("%s_den_b%d" % (label, b), coq_of(den), den_s % b)
    return tf


def _new_corrdata(cls, binning, data, samples):
    c = cls.__new__(cls)
    c.binning, c.data, c.samples = binning, data, samples
    return c


def trace_nz(N, B, use_ref, use_unk):
    """RedshiftData.from_corrdata: w_sp / sqrt(dz^2 w_ss w_pp), value and samples"""
    names = []
    edges = [0.0, 0.5, 1.5, 1.75][: B + 1]
    binning = Binning(edges)
    dz = [edges[i + 1] - edges[i] for i in range(B)]

    def cd(p):
        return _new_corrdata(CorrData, binning, sym_array((B,), p + "d", names), sym_array((N, B), p + "s", names))
    out = real(RedshiftData.from_corrdata, cd("sp"), cd("ss") if use_ref else None, cd("pp") if use_unk else None)
    tf = TraceFile("nz_N%d_B%d_%s%s" % (N, B, "r" if use_ref else "", "u" if use_unk else ""), names)

    def one(label, t, sp, ss, pp, b):
        num, den = split_quot(t)
        tf.lemma(label + "_num", coq_of(num), sp)
        rad = "nz_radicand %s %s %s" % (fq.q(dz[b]), ss, pp)
        den = Sym.lift(den)
        if den.op == "sqrt":
            tf.lemma(label + "_radicand", coq_of(den.args[0]), rad)
        else:      # both autocorrelations absent: the root is a float constant
            tf.lemma(label + "_radicand", "(%s * %s)" % (coq_of(den), coq_of(den)), rad)
    for b in range(B):
        one("data_b%d" % b, out.data[b], "spd%d" % b, "ssd%d" % b if use_ref else "1", "ppd%d" % b if use_unk else "1", b)
        for k in range(N):
            one("sample_k%d_b%d" % (k, b), out.samples[k, b], "sps%d_%d" % (k, b),
                "sss%d_%d" % (k, b) if use_ref else "1", "pps%d_%d" % (k, b) if use_unk else "1", b)
    return tf


def trace_normalised(N, B, hist):
    """HistData.normalised / RedshiftData.normalised: sum_b dz_b * numerator_b == denominator,
    so the integral of the result is denominator / denominator"""
    names = []
    edges = [0.0, 0.25, 0.5, 1.0, 2.0][: B + 1] if B != 3 else [0.0, 0.5, 1.0, 1.5]
    binning = Binning(edges)
    dz = [edges[i + 1] - edges[i] for i in range(B)]
    cls = HistData if hist else RedshiftData
    out = real(_new_corrdata(cls, binning, sym_array((B,), "x", names), sym_array((N, B), "s", names)).normalised)
    tf = TraceFile("%s_normalised_N%d_B%d" % ("hist" if hist else "nz", N, B), names)
    nums, dens = zip(*(split_quot(out.data[b]) for b in range(B)))
    integral = " + ".join("%s * %s" % (fq.q(dz[b]), coq_of(nums[b])) for b in range(B))
    for b in range(B):
        tf.lemma("integral_is_den_b%d" % b, integral, coq_of(dens[b]))
        if hist:   # the density the documentation promises: x_b / (dz_b * sum x); cross-multiplied
            tf.lemma("density_b%d" % b, "%s * (%s * (%s))" % (coq_of(nums[b]), fq.q(dz[b]), " + ".join("x%d" % i for i in range(B))),
                     "x%d * %s" % (b, coq_of(dens[b])))
        else:
            tf.lemma("num_b%d" % b, coq_of(nums[b]), "x%d" % b)
        for k in range(N):
            num, den = split_quot(out.samples[k, b])
            tf.lemma("sample_den_k%d_b%d" % (k, b), coq_of(den), coq_of(dens[b]))       # same factor as the data
            tf.lemma("sample_num_k%d_b%d" % (k, b), "%s * x%d" % (coq_of(num), b), "s%d_%d * %s" % (k, b, coq_of(nums[b])))
    return tf


def run_traces(ctx, jobs):
    """jobs: list of (label, thunk returning a TraceFile).  Each lemma file is one obligation.
    A trace that cannot be produced at all (the code no longer accepts object arrays) is
    recorded, not alarmed."""
    d = os.path.join(ctx.workdir, "traces")
    os.makedirs(d, exist_ok=True)
    files, unavailable = [], []
    for label, thunk in jobs:
        try:
            with warnings.catch_warnings():
                warnings.simplefilter("ignore")
                tf = thunk()
            path = os.path.join(d, "Trace_%s.v" % tf.name)
            with open(path, "w") as f:
                f.write(tf.text())
            files.append((tf.name, path, len(tf.lemmas)))
        except TraceUnavailable as e:
            unavailable.append("%s: %s" % (label, e))
        except Exception as e:  # noqa: BLE001  (the trace exists but is not of the documented shape)
            ctx.obligation("trace:%s" % label, False, "trace of unexpected shape: %s: %s" % (type(e).__name__, e))
            ctx.log("trace of %s has an unexpected shape: %s: %s" % (label, type(e).__name__, e))
    with ThreadPoolExecutor(max_workers=16) as ex:
        results = list(ex.map(lambda t: coqrun.coqc_file(t[1], 600), files))
    nlem = 0
    for (name, path, n), (rc, out) in zip(files, results):
        ok = rc == 0
        ctx.obligation("trace:%s (%d lemmas)" % (name, n), ok, out)
        nlem += n if ok else 0
        if not ok:
            ctx.log("trace lemma file %s no longer compiles:\n%s" % (name, out[-800:]))
    if unavailable:
        ctx.extra["trace_status"] = "trace-unavailable: " + " | ".join(unavailable)
        ctx.log("trace unavailable for: " + " | ".join(unavailable))
    else:
        ctx.extra["trace_status"] = "traced %d functions/configurations, %d lemmas re-proved by ring" % (len(files), nlem)
    ctx.bump("trace_files", len(files))
    ctx.bump("trace_lemmas", nlem)
    return files, unavailable


# ----------------------------------------------------------------------------- cases
def tolist(x):
    return np.asarray(x, dtype=float).tolist()


def pc_plain(p):
    """JSON-able copy of a pair-count description"""
    return None if p is None else dict(auto=bool(p["auto"]), counts=tolist(p["counts"]), w1=tolist(p["w1"]), w2=tolist(p["w2"]))


def corr_plain(edges, N, d):
    return dict(edges=list(edges), N=N, kinds={k: pc_plain(d[k]) for k in ("dd",) + KINDS})


def corr_args(spec):
    k = spec["kinds"]
    return "%s %s %s %s %s" % (fq.nat(spec["N"]), pc_term(k["dd"]), opt_pc(k["dr"]), opt_pc(k["rd"]), opt_pc(k["rr"]))


def subset_of(spec):
    return tuple(k for k in KINDS if spec["kinds"][k] is not None)


class Batch:
    """collects Coq terms of type nat together with the interpretation of their status code"""

    def __init__(self, ctx, name, shard=40):
        self.ctx, self.name, self.shard = ctx, name, shard
        self.items = []

    def add(self, term, handler, replay):
        self.items.append((term, handler, replay))
        return len(self.items) - 1

    def run(self):
        if not self.items:
            return
        codes = self.ctx.shards(self.name, HEADER, [t for t, _, _ in self.items], shard=self.shard)
        for idx, ((term, handler, replay), c) in enumerate(zip(self.items, codes)):
            if c is None:
                continue      # shard failed to compile: already a broken obligation
            if c != 0:
                handler(c, "%s#%d" % (self.name, idx), replay)


def nz_term(dz, cross, ref, unk, nz):
    """c04_nz_case on the implementation's own CorrData values"""
    def od(c):
        return "None" if c is None else "(Some %s)" % oqlist(c.data)

    def os_(c):
        return "None" if c is None else "(Some %s)" % oqmat(c.samples)
    return "c04_nz_case %s %s %s %s %s %s %s %s %s" % (
        fq.qlist(dz), oqlist(cross.data), od(ref), od(unk), oqlist(nz.data),
        oqmat(cross.samples), os_(ref), os_(unk), oqmat(nz.samples))


def gen_nz_spec(rng, small=False):
    B, N = pick_shape(rng, small)
    edges = gen_binning(rng, B)
    mode = rng.choice(["dense", "dense", "dyadic", "sparse"])
    defined = [s for s in SUBSETS if "dr" in s or ("rr" not in s)]
    cross = corr_plain(edges, N, gen_corrfunc(rng, B, N, False, mode, rng.choice(defined)))
    ref = corr_plain(edges, N, gen_corrfunc(rng, B, N, True, mode, rng.choice(defined))) if rng.random() < 0.7 else None
    unk = corr_plain(edges, N, gen_corrfunc(rng, B, N, True, mode, rng.choice(defined))) if rng.random() < 0.5 else None
    return dict(cross=cross, ref=ref, unk=unk)


def run_nz(spec):
    """-> (dz, cross CorrData, ref, unk, RedshiftData)"""
    def cf(s):
        return None if s is None else build_corrfunc(s["edges"], s["kinds"])
    cross, ref, unk = cf(spec["cross"]), cf(spec["ref"]), cf(spec["unk"])
    nz = quiet(RedshiftData.from_corrfuncs, cross, ref, unk)
    cd = [None if c is None else quiet(c.sample) for c in (cross, ref, unk)]
    return list(cross.binning.dz), cd[0], cd[1], cd[2], nz


def cov_term(sd, rng_probes):
    """c03_cov_case on a SampledData with finite samples"""
    cov = quiet(lambda: sd.covariance)
    err = quiet(lambda: sd.error)
    if not (all_finite(cov) and all_finite(err)):
        return None
    return "c03_cov_case %s %s %s %s" % (fq.qmat(sd.samples), fq.qmat(cov), fq.qlist(err), fq.qmat(rng_probes))


def probes_for(rng, B):
    out = [[(-1) ** i for i in range(B)]]
    for _ in range(2):
        out.append([rng.randrange(-3, 4) for _ in range(B)])
    return out


# ----------------------------------------------------------------------------- call histories (C04)
# A history is a JSON-able list of public calls made on live containers between their construction
# and the call the property speaks about (CorrFunc.sample, RedshiftData.from_corrfuncs, .normalised).
# Observers are the public methods documented to return a value / a new object; the position of an
# observer in CF_OBS is the `o` of Model/Estimators.v:H_obs (0 = NormalisedCounts.get_array).
# `then` says what the caller does with a derived object (a slice, a sum, a copy, a re-read file).
# The only public method that stores into a container is PatchedCounts.set_patch_pair ("set").
import copy as _copy      # noqa: E402
import pickle as _pickle  # noqa: E402

ALLK = ("dd",) + KINDS
PKIND = dict(dd="K_dd", dr="K_dr", rd="K_rd", rr="K_rr")
CF_OBS = ["nc.get_array", "counts.get_array", "weights.get_array", "nc.sample_patch_sum", "counts.sample_patch_sum",
          "weights.sample_patch_sum", "nc.bins", "nc.patches", "cf.bins", "cf.patches", "cf.iter_bins", "cf.to_dict",
          "cf.to_file", "cf.eq", "cf.is_compatible", "cf.repr", "cf.sample", "nz.from_corrfuncs", "cf.add", "cf.mul",
          "nc.add", "nc.mul", "nc.sum", "cf.pickle", "cf.deepcopy"]
CF_DERIVING = {"nc.bins", "nc.patches", "cf.bins", "cf.patches", "cf.iter_bins", "cf.to_dict", "cf.to_file", "cf.add",
               "cf.mul", "nc.add", "nc.mul", "nc.sum", "cf.pickle", "cf.deepcopy"}
THENS = (None, "get_array", "sample")
SD_OBS = ["sd.error", "sd.covariance", "sd.correlation", "sd.repr", "sd.eq", "sd.is_compatible", "sd.bins", "sd.iter_bins",
          "sd.add", "sd.sub", "sd.to_files", "sd.normalised", "sd.pickle", "sd.getstate", "sd.deepcopy", "sd.binning"]
SD_DERIVING = {"sd.bins", "sd.iter_bins", "sd.add", "sd.sub", "sd.to_files", "sd.normalised", "sd.pickle", "sd.deepcopy"}
SD_THENS = (None, "normalised", "error")


def op_label(op):
    return op["op"] + ("+" + op["then"] if op.get("then") else "")


def _item(op):
    it = op["item"]
    return int(it) if isinstance(it, int) else slice(it[0], it[1])


def gen_item(rng, n):
    """an index or a non-empty slice into an axis of length n"""
    if n == 1 or rng.random() < 0.4:
        return rng.randrange(n)
    a = rng.randrange(n)
    return [a, rng.randrange(a + 1, n + 1)]


def _use(obj, then):
    """what the caller does with a derived pair-count container"""
    if then is None or obj is None:
        return
    if isinstance(obj, CorrFunc):
        if then == "get_array":
            for nc in obj.to_dict().values():
                nc.get_array()
        else:
            obj.sample()
    elif then == "get_array":
        obj.get_array()
    else:
        obj.sample_patch_sum()


def cf_call(env, op):
    """perform one call of a history on env['cf'] (env['twin']: an equal, separately built CorrFunc)"""
    cf, twin = env["cf"], env["twin"]
    name, k, then = op["op"], op.get("k", "dd"), op.get("then")
    nc, tnc = getattr(cf, k), getattr(twin, k)
    if name == "set":
        nc.counts.set_patch_pair(op["i"], op["j"], np.array(op["v"], dtype=float))
    elif name == "nc.get_array":
        nc.get_array()
    elif name == "counts.get_array":
        nc.counts.get_array()
    elif name == "weights.get_array":
        nc.sum_weights.get_array()
    elif name == "nc.sample_patch_sum":
        nc.sample_patch_sum()
    elif name == "counts.sample_patch_sum":
        nc.counts.sample_patch_sum()
    elif name == "weights.sample_patch_sum":
        nc.sum_weights.sample_patch_sum()
    elif name == "nc.bins":
        _use(nc.bins[_item(op)], then)
    elif name == "nc.patches":
        _use(nc.patches[_item(op)], then)
    elif name == "cf.bins":
        _use(cf.bins[_item(op)], then)
    elif name == "cf.patches":
        _use(cf.patches[_item(op)], then)
    elif name == "cf.iter_bins":
        for sub in cf.bins:
            _use(sub, then)
    elif name == "cf.to_dict":
        for c in cf.to_dict().values():
            _use(c, then)
    elif name == "cf.to_file":
        env["nfile"] = env.get("nfile", 0) + 1
        path = os.path.join(env["dir"], "h%d.hdf" % env["nfile"])
        try:
            cf.to_file(path)
            _use(CorrFunc.from_file(path), then)
        finally:
            if os.path.exists(path):
                os.remove(path)
    elif name == "cf.eq":
        _ = (cf == twin, cf != twin, nc == tnc, nc.counts == tnc.counts, nc.sum_weights == tnc.sum_weights, cf == 1)
    elif name == "cf.is_compatible":
        _ = (cf.is_compatible(twin), cf.is_compatible(twin, require=True), nc.is_compatible(tnc),
             nc.counts.is_compatible(tnc.counts, require=True), nc.sum_weights.is_compatible(tnc.sum_weights), cf.is_compatible(nc))
    elif name == "cf.repr":
        _ = (repr(cf), repr(nc), repr(nc.counts), repr(nc.sum_weights), cf.num_patches, cf.num_bins, cf.auto, nc.auto,
             cf.binning.edges, cf.binning.mids, cf.binning.dz, nc.binning, nc.num_patches, nc.num_bins)
    elif name == "cf.sample":
        cf.sample()
    elif name == "nz.from_corrfuncs":
        RedshiftData.from_corrfuncs(cf)
    elif name == "cf.add":
        _use(cf + twin, then)
    elif name == "cf.mul":
        _use(cf * op["c"], then)
    elif name == "nc.add":
        _use(nc + tnc, then)
    elif name == "nc.mul":
        _use(nc * op["c"], then)
    elif name == "nc.sum":
        _use(sum([nc, tnc]), then)
    elif name == "cf.pickle":
        _use(_pickle.loads(_pickle.dumps(cf)), then)
    elif name == "cf.deepcopy":
        _use(_copy.deepcopy(cf), then)
    else:
        raise KeyError(name)


def gen_cf_op(rng, spec, name=None, then=None, allow_set=False):
    kinds = [k for k in ALLK if spec["kinds"][k] is not None]
    B, N = len(spec["edges"]) - 1, spec["N"]
    if name is None:
        name = "set" if (allow_set and rng.random() < 0.25) else rng.choice(CF_OBS)
        then = rng.choice(THENS) if name in CF_DERIVING else None
    op = dict(op=name, k=rng.choice(kinds))
    if name == "set":
        op.update(i=rng.randrange(N), j=rng.randrange(N), v=[float(rng.choice([0, 1, 2, 5, 17, 40.5, 0.25])) for _ in range(B)])
        return op
    if name in ("nc.bins", "cf.bins"):
        op["item"] = gen_item(rng, B)
    if name in ("nc.patches", "cf.patches"):
        op["item"] = gen_item(rng, N)
    if name in ("cf.mul", "nc.mul"):
        op["c"] = rng.choice([2.0, 0.5, 3, 1.0])
    if name in CF_DERIVING:
        op["then"] = then
    return op


def gen_cf_history(rng, spec, allow_set=False, lo=1, hi=6):
    return [gen_cf_op(rng, spec, allow_set=allow_set) for _ in range(rng.randint(lo, hi))]


def cf_single_op_histories(rng, spec):
    """every observer once (with every use of its derived object): the deterministic sweep"""
    out = []
    for name in CF_OBS:
        for then in (THENS if name in CF_DERIVING else (None,)):
            out.append([gen_cf_op(rng, spec, name=name, then=then)])
    return out


def kinds_arrays(kinds):
    return {k: None if p is None else dict(auto=bool(p["auto"]), counts=np.array(p["counts"], dtype=float),
                                           w1=np.array(p["w1"], dtype=float), w2=np.array(p["w2"], dtype=float))
            for k, p in kinds.items()}


def _bits(a):
    a = np.ascontiguousarray(np.asarray(a))
    return (str(a.dtype), a.shape, a.tobytes())


def cf_stored(cf):
    """what the containers of a CorrFunc store, bit for bit (no copies are handed to the caller)"""
    out = []
    for k in ALLK:
        nc = getattr(cf, k)
        if nc is None:
            out.append(None)
            continue
        out.append((bool(nc.counts.auto), bool(nc.sum_weights.auto), _bits(nc.counts.counts), _bits(nc.sum_weights.sum_weights1),
                    _bits(nc.sum_weights.sum_weights2), _bits(nc.counts.binning.edges), _bits(nc.sum_weights.binning.edges),
                    str(nc.counts.binning.closed)))
    return tuple(out)


def cf_expected(edges, arrs):
    e = _bits(np.asarray(edges, dtype=float))
    closed = str(Binning(edges, closed="right").closed)
    return tuple(None if p is None else (p["auto"], p["auto"], _bits(p["counts"]), _bits(p["w1"]), _bits(p["w2"]), e, e, closed)
                 for p in (arrs[k] for k in ALLK))


def cf_state_plain(cf):
    """the stored arrays of a CorrFunc as a `kinds` description (None if some number is not finite)"""
    out = {}
    for k in ALLK:
        nc = getattr(cf, k)
        if nc is None:
            out[k] = None
            continue
        p = dict(auto=bool(nc.auto), counts=tolist(nc.counts.counts), w1=tolist(nc.sum_weights.sum_weights1),
                 w2=tolist(nc.sum_weights.sum_weights2))
        if not (all_finite(p["counts"]) and all_finite(p["w1"]) and all_finite(p["w2"])):
            return None
        out[k] = p
    return out


class CfHistory:
    """Runs calls on env['cf'].  After every call the stored arrays of env['cf'] and env['twin'] are
    compared bit for bit with the arrays the calls so far define (constructor arguments + the
    set_patch_pair calls).  note(event, idx, op, detail) is told about 'changed' and 'twin-changed'
    (first time only) and 'raised'."""

    def __init__(self, env, edges, kinds, note):
        self.env, self.edges, self.note = env, edges, note
        self.cur = kinds_arrays(kinds)
        self.twin_expected = cf_expected(edges, self.cur)
        self.done, self.reported = [], set()

    def call(self, idx, op, f=None):
        """f: performs the call when it involves more than this CorrFunc (default: cf_call)"""
        try:
            quiet(f, self.env, op) if f is not None else quiet(cf_call, self.env, op)
            ok = True
        except Exception as e:  # noqa: BLE001  a refusal is not a violation
            ok = False
            self.note("raised", idx, op, "%s: %s" % (type(e).__name__, e))
        if op["op"] == "set":
            if not ok:
                return            # refused: not part of the history the model sees
            self.cur[op["k"]]["counts"][:, op["i"], op["j"]] = np.array(op["v"], dtype=float)
        self.done.append(op)
        self.check(idx, op)

    def check(self, idx, op):
        if "cf" not in self.reported and cf_stored(self.env["cf"]) != cf_expected(self.edges, self.cur):
            self.reported.add("cf")
            self.note("changed", idx, op, None)
        if "twin" not in self.reported and cf_stored(self.env["twin"]) != self.twin_expected:
            self.reported.add("twin")
            self.note("twin-changed", idx, op, None)

    def final(self):
        """the constructor arguments with the set_patch_pair calls applied, as plain lists"""
        return {k: None if p is None else dict(auto=p["auto"], counts=p["counts"].tolist(), w1=p["w1"].tolist(), w2=p["w2"].tolist())
                for k, p in self.cur.items()}


def run_cf_history(env, edges, kinds, hist, note):
    """-> (CfHistory after the calls of hist)"""
    r = CfHistory(env, edges, kinds, note)
    for idx, op in enumerate(hist):
        r.call(idx, op)
    return r


def cfs_term(kinds):
    return "(Build_cfs %s %s %s %s)" % (pc_term(kinds["dd"]), opt_pc(kinds["dr"]), opt_pc(kinds["rd"]), opt_pc(kinds["rr"]))


def call_term(op):
    if op["op"] == "set":
        return "(H_set %s %s %s %s)" % (PKIND[op["k"]], fq.nat(op["i"]), fq.nat(op["j"]), fq.qlist(op["v"]))
    return "(H_obs %s %s)" % (fq.nat(CF_OBS.index(op["op"])), PKIND[op.get("k", "dd")])


def hist_case_term(N, kinds0, done, after, impl):
    return "c04_hist_case %s %s %s %s %s" % (fq.nat(N), cfs_term(kinds0), fq.lst(done, call_term),
                                             "None" if after is None else "(Some %s)" % cfs_term(after), impl)


def same_bits(a, b):
    return _bits(np.asarray(a, dtype=float)) == _bits(np.asarray(b, dtype=float))


# ---- histories on CorrData / HistData / RedshiftData
def _use_sd(obj, then):
    if then is None or obj is None:
        return
    if then == "normalised":
        obj.normalised()
    else:
        _ = obj.error


def sd_call(env, op):
    sd, twin = env["sd"], env["twin"]
    name, then = op["op"], op.get("then")
    if name == "sd.error":
        _ = sd.error
    elif name == "sd.covariance":
        _ = sd.covariance
    elif name == "sd.correlation":
        _ = sd.correlation
    elif name == "sd.repr":
        _ = (repr(sd), sd.num_samples, sd.num_bins, sd.binning)
    elif name == "sd.eq":
        _ = (sd == twin, sd != twin, sd == 1)
    elif name == "sd.is_compatible":
        _ = (sd.is_compatible(twin), sd.is_compatible(twin, require=True), sd.is_compatible(3))
    elif name == "sd.bins":
        _use_sd(sd.bins[_item(op)], then)
    elif name == "sd.iter_bins":
        for sub in sd.bins:
            _use_sd(sub, then)
    elif name == "sd.add":
        _use_sd(sd + twin, then)
    elif name == "sd.sub":
        _use_sd(sd - twin, then)
    elif name == "sd.to_files":
        env["nfile"] = env.get("nfile", 0) + 1
        prefix = os.path.join(env["dir"], "s%d" % env["nfile"])
        try:
            sd.to_files(prefix)
            _use_sd(type(sd).from_files(prefix), then)
        finally:
            for ext in (".dat", ".smp", ".cov"):
                if os.path.exists(prefix + ext):
                    os.remove(prefix + ext)
    elif name == "sd.normalised":
        _use_sd(sd.normalised(), then)
    elif name == "sd.pickle":
        _use_sd(_pickle.loads(_pickle.dumps(sd)), then)
    elif name == "sd.getstate":
        _ = sd.__getstate__()
    elif name == "sd.deepcopy":
        _use_sd(_copy.deepcopy(sd), then)
    elif name == "sd.binning":
        b = sd.binning
        _ = (b.edges, b.mids, b.dz, b.left, b.right, b.closed, len(b), repr(b), b == twin.binning, b.copy())
    else:
        raise KeyError(name)


def gen_sd_op(rng, B, name=None, then=None):
    if name is None:
        name = rng.choice(SD_OBS)
        then = rng.choice(SD_THENS) if name in SD_DERIVING else None
    op = dict(op=name)
    if name == "sd.bins":
        op["item"] = gen_item(rng, B)
    if name in SD_DERIVING:
        op["then"] = then
    return op


def sd_single_op_histories(rng, B):
    return [[gen_sd_op(rng, B, name=name, then=then)] for name in SD_OBS
            for then in (SD_THENS if name in SD_DERIVING else (None,))]


def sd_stored(sd):
    return (_bits(sd.data), _bits(sd.samples), _bits(sd.binning.edges), str(sd.binning.closed))


def run_sd_history(env, hist, note):
    """as run_cf_history, for a container holding (binning, data, samples); no public call stores into it.
    Returns check(idx, op), to be called again after the call the property speaks about."""
    before, twin_before = sd_stored(env["sd"]), sd_stored(env["twin"])
    reported = set()

    def check(idx, op):
        if "sd" not in reported and sd_stored(env["sd"]) != before:
            reported.add("sd")
            note("changed", idx, op, None)
        if "twin" not in reported and sd_stored(env["twin"]) != twin_before:
            reported.add("twin")
            note("twin-changed", idx, op, None)
    for idx, op in enumerate(hist):
        try:
            quiet(sd_call, env, op)
        except Exception as e:  # noqa: BLE001
            note("raised", idx, op, "%s: %s" % (type(e).__name__, e))
        check(idx, op)
    return check
