"""C13 - catalogs with LARGE patches: size together with row order.

The other families of C13 use catalogs of a few dozen rows, so nothing the code might do differently for large inputs is
ever reached: taking the patch metadata (centre, radius - which decide the patch linkage and thereby which pairs are
counted) from a part of the rows ("the extent converges quickly": every k-th row, the first rows, one chunk), treating
rows at chunk boundaries differently, building trees from a subset.  Here one catalog of a measurement (ref, unk or rand,
drawn) has one or two patches of 2*10^5 .. 10^6 rows.

Layout (lengths in units of p = the largest counted angle; L = lam * p >= p is the angle a linkage has to allow for;
the counted range is (p/8, p]): 2-3 patch centres on a great circle through a drawn point of the sky (anywhere / next to a
pole / on the RA = 0 meridian) in a drawn direction.  A large patch is a tight core (disc of radius 0.02-0.04 p: no pair
inside it is ever counted) of N rows plus ONE row far out towards the neighbouring patch (a second, nearer one sometimes);
the other catalogs put their rows of that patch on a ring (0.2-0.33 p: every core row is counted with every ring row, far
from the limits) and, in the neighbouring patch, 1-3 rows reaching out towards the far row, at a counted separation from
it.  The centres are just so far apart (s = 0.35 p + u + L + delta) that the two patches have to be visited ONLY because
of the one far row: radius of the large patch without it <= 0.35 p.  Where that row sits in the table is drawn (first,
last, odd / even index, at a chunk boundary of the ingest, in the middle, anywhere), as are the chunk size of the ingest,
the order of the other rows (mixed / grouped by patch), whether the large catalog has a weight column, and whether the
patches are made from given centres or from a patch-id column (then the stored centre is the weighted mean of the rows).

Checked, every oracle computed here from the positions handed over (float64 numpy, unit vectors from the degrees given):
 (a) the metadata of EVERY patch of EVERY catalog created against their definitions (Model/InvarianceSize.v c13_meta_case):
     radius = largest separation of ANY row from the stored centre (2^-30 relative) and covers every row, number of rows,
     sum of weights (exact), centre = the given one / the weighted mean of ALL rows;
 (b) counts, amplitudes, jackknife samples, covariance and n(z) of twins: rows permuted at random, reversed, shifted by
     one (every row changes the parity of its index), sorted by a coordinate (the far row first or last), the far row
     moved to another drawn position, each with another chunk size; rigid rotation; patches relabelled;
 (c) additivity: the large catalog split at random (uneven too), into even / odd rows, into first / second half - the
     parts are smaller than the whole, each measured with the metadata of its own patches;
 (d) every cell of the count tables (and the per-patch weight sums) of the base run AND of every twin against a brute-force
     count over all pairs (small x large: all of them; exact, the weights are dyadic), and the patch pairs that hold counted
     pairs against the patch pairs the linkage of the implementation visits (c13_links_case).
Near ties: a scenario in which some pair lies within 10^-7 (relative, squared chord) of a scale limit is not used; a
rotation moves squared chords by < 10^-9 relative at these separations.
"""
import math

import numpy as np

from lib import floatq as fq
from lib import impl

CATS = ("ref", "unk", "rand")
PARTNERS = {"unk": ("ref", "rand"), "ref": ("unk",), "rand": ("unk",)}     # the catalogs a catalog is counted with (cross-correlation)
COMPACT = 0.35        # radius [p] every patch stays within, apart from the rows placed far out on purpose
RING = (0.2, 0.33)
BLOCK = 65536
GAP = 1e-7
EDGES = ([0.2, 0.4, 0.6], [0.2, 0.4, 0.6], [0.2, 0.6], [0.2, 0.3, 0.45, 0.6])
HEADER = "From Verif Require Import Prelude Invariance InvarianceSize.\nOpen Scope Q_scope.\n"
POSITIONS = ("first", "last", "odd", "even", "chunk-1", "chunk", "chunk+1", "middle", "random", "random")


# ---------------------------------------------------------------- geometry (own formulas, independent of the library)
def unit(ra_deg, dec_deg):
    ra, dec = np.deg2rad(np.asarray(ra_deg, dtype="f8")), np.deg2rad(np.asarray(dec_deg, dtype="f8"))
    cd = np.cos(dec)
    return np.stack([cd * np.cos(ra), cd * np.sin(ra), np.sin(dec)], axis=-1)


def unit_rad(ra, dec):
    cd = np.cos(dec)
    return np.stack([cd * np.cos(ra), cd * np.sin(ra), np.sin(dec)], axis=-1)


def angle(v, c):
    """great-circle angle [rad] of every row of v from the unit vector c"""
    ch = np.sqrt(np.sum((v - c) ** 2, axis=-1))
    return 2.0 * np.arcsin(np.minimum(1.0, ch / 2.0))


def make_frame(rng, where):
    """orthonormal (e0 = a point of the sky, e1 = the direction the chain of patches runs in, e2)"""
    if where == "pole":
        sign = rng.choice([1.0, -1.0])
        dec, ra = sign * (90.0 - rng.uniform(0.0, 0.4)), rng.uniform(0.0, 360.0)
    elif where == "ra0":
        dec, ra = rng.uniform(-60.0, 60.0), rng.uniform(-0.05, 0.05) % 360.0
    else:
        dec, ra = math.degrees(math.asin(rng.uniform(-1.0, 1.0))), rng.uniform(0.0, 360.0)
    e0 = unit(ra, dec)
    t = np.array([rng.gauss(0, 1) for _ in range(3)])
    t -= (t @ e0) * e0
    e1 = t / np.linalg.norm(t)
    e2 = np.cross(e0, e1)
    return np.stack([e0, e1, e2])


def radec(frame, a, b):
    """rows at angle a along the chain and b across it (radian) -> (ra, dec) in degrees"""
    e0, e1, e2 = frame
    ca, sa, cb, sb = np.cos(a), np.sin(a), np.cos(b), np.sin(b)
    v = (cb * ca)[..., None] * e0 + (cb * sa)[..., None] * e1 + sb[..., None] * e2
    ra = np.rad2deg(np.arctan2(v[..., 1], v[..., 0])) % 360.0
    dec = np.rad2deg(np.arcsin(np.clip(v[..., 2], -1.0, 1.0)))
    return ra, dec


class Cat:
    """rows of one catalog in the coordinates of the chain: a (along), b (across) [rad], weights or None, redshifts or None,
    the patch of every row, tag (0 core / ring, 2 placed far out on purpose)"""
    def __init__(self, a, b, w, z, owner, tag):
        self.a, self.b, self.w, self.z, self.owner, self.tag = a, b, w, z, owner, tag

    def __len__(self):
        return len(self.a)

    def take(self, idx):
        f = lambda x: None if x is None else x[idx]
        return Cat(self.a[idx], self.b[idx], f(self.w), f(self.z), self.owner[idx], self.tag[idx])


# ---------------------------------------------------------------- scenarios
def draw_gap(rng, lam):
    """a pair of neighbouring centres that is linked only through one far row: -> (s, t, us) in units of p, or None"""
    for _ in range(200):
        u, delta, sep = rng.uniform(0.6, 1.1), rng.uniform(0.05, 0.3), rng.uniform(0.25, 0.85)
        t = COMPACT + lam + delta - sep
        s = COMPACT + u + lam + delta
        if t >= 0.55 and t <= s / 2.0 - 0.06 and u <= s / 2.0 - 0.06:
            return s, t, u, sep
    return None


def scenario(ctx, rng, nrng, p, lam, zchoices, first_bin_z):
    """-> dict describing the scenario (parameters: the replay record) and the catalogs"""
    npatch = rng.choice([2, 2, 3])
    big = rng.choice(["unk", "unk", "rand", "ref"])
    mode = rng.choice(["centres", "centres", "centres", "ids"])
    gaps, links = [], []          # links: (patch with the far row, neighbouring patch, t, u)
    for k in range(npatch - 1):
        far_apart = k > 0 and rng.random() < 0.3
        if far_apart:
            gaps.append(lam + rng.uniform(3.5, 4.0))
            continue
        g = draw_gap(rng, lam)
        if g is None:
            return None
        s, t, u, sep = g
        gaps.append(s)
        links.append((k, k + 1, t, u, sep) if rng.random() < 0.5 else (k + 1, k, t, u, sep))
    if ctx.quick() and len(links) > 1 and links[0][0] != links[1][0]:
        links = links[:1]                      # quick tier: one large patch
        # (the second pair of centres keeps its distance: linked or not through whatever rows there are)
    acen = np.concatenate([[0.0], np.cumsum(gaps)]) * p
    bigp = sorted({l[0] for l in links})
    # rows of a large patch: log-uniform in 2*10^5 .. 10^6 (thorough; two large patches: .. 5*10^5 each), quick tier mostly .. 4.2*10^5
    lo = 2.0e5
    hi = (8.0e5 if rng.random() < 0.2 else 4.2e5) if ctx.quick() else (1.0e6 if len(bigp) == 1 else 5.0e5)
    nbig = {k: int(math.exp(rng.uniform(math.log(lo), math.log(hi)))) for k in bigp}
    nsmall = {c: rng.randint(40, 60) if mode == "ids" else rng.randint(15, 40) for c in CATS}
    weighted = {c: (rng.random() < 0.75) if c == big else (rng.random() < 0.85) for c in CATS}
    cats = {}
    for c in CATS:
        A, B, O, T, Z = [], [], [], [], []
        for k in range(npatch):
            if c == big and k in nbig:
                n = nbig[k]
                rho = rng.uniform(0.02, 0.04) * p
                da, db = rng.uniform(-0.02, 0.02) * p, rng.uniform(-0.02, 0.02) * p
                r, ph = rho * np.sqrt(nrng.uniform(size=n)), nrng.uniform(0.0, 2.0 * np.pi, size=n)
                A.append(acen[k] + da + r * np.cos(ph)); B.append(db + r * np.sin(ph))
                T.append(np.zeros(n, dtype="i1"))
            else:
                n = nsmall[c]
                r, ph = nrng.uniform(RING[0], RING[1], size=n) * p, nrng.uniform(0.0, 2.0 * np.pi, size=n)
                A.append(acen[k] + r * np.cos(ph)); B.append(r * np.sin(ph))
                T.append(np.zeros(n, dtype="i1"))
            O.append(np.full(n, k, dtype="i8"))
            Z.append(nrng.choice(zchoices, size=n))
            for (i, j, t, u, sep) in links:
                sgn = 1.0 if j > i else -1.0
                extra = []
                if c == big and k == i:
                    extra.append(t)
                    if rng.random() < 0.25:
                        extra.append(t * rng.uniform(0.6, 0.8))
                elif c in PARTNERS[big] and k == j:
                    m = rng.choice([1, 1, 2, 3]) if mode != "ids" else 1
                    extra = [-(u - 0.03 * q) for q in range(m)]
                if extra:
                    ea = np.array([acen[k] + sgn * x * p for x in extra])
                    A.append(ea); B.append(np.array([rng.uniform(-0.02, 0.02) * p for _ in extra]))
                    O.append(np.full(len(extra), k, dtype="i8")); T.append(np.full(len(extra), 2, dtype="i1"))
                    Z.append(nrng.choice(first_bin_z, size=len(extra)))     # where p is counted
        a, b, o, tg, z = (np.concatenate(x) for x in (A, B, O, T, Z))
        w = nrng.integers(1, 9, size=len(a)) / 2.0 if weighted[c] else None
        cats[c] = Cat(a, b, w, z if c != "unk" else None, o, tg)
    par = dict(npatch=npatch, large_catalog=big, patches_from=mode, rows_of_large_patches={str(k): n for k, n in nbig.items()},
               rows_per_patch_of_the_others=nsmall, weight_column=weighted, centre_gaps_in_p=[round(g, 4) for g in gaps],
               pairs_of_patches_linked_through_one_far_row=[dict(far_row_in=i, towards=j, far_row_at_p=round(t, 4), partner_rows_reach_p=round(u, 4),
                                                                separation_p=round(sep, 4)) for i, j, t, u, sep in links])
    return dict(par=par, cats=cats, acen=acen, npatch=npatch, big=big, mode=mode, links=links)


def place(rng, n, k, chunk, kind):
    """an index in [0, n) of the drawn kind, for the k-th placed row"""
    cs = chunk if chunk and chunk < n else max(2, n // 3)
    nb = max(1, (n - 1) // cs)
    at = {"first": k, "last": n - 1 - k, "odd": 2 * rng.randrange(n // 2) + 1, "even": 2 * rng.randrange(n // 2),
          "chunk-1": cs * rng.randint(1, nb) - 1, "chunk": cs * rng.randint(1, nb), "chunk+1": cs * rng.randint(1, nb) + 1,
          "middle": n // 2 + k, "random": rng.randrange(n)}[kind]
    return min(n - 1, max(0, at))


def row_order(rng, nrng, cat, chunk, layout, kinds):
    """a permutation of the rows: the ordinary rows mixed or grouped by patch, the placed rows at positions of the drawn kinds"""
    n = len(cat)
    plain = np.flatnonzero(cat.tag == 0)
    placed = list(np.flatnonzero(cat.tag != 0))
    plain = plain[nrng.permutation(len(plain))]
    if layout == "grouped":
        plain = plain[np.argsort(cat.owner[plain], kind="stable")]
    order = np.empty(n, dtype="i8")
    slots = {}
    for k, row in enumerate(placed):
        at = place(rng, n, k, chunk, kinds[k % len(kinds)])
        while at in slots:
            at = (at + 1) % n
        slots[at] = row
    free = np.ones(n, dtype=bool)
    for at, row in slots.items():
        order[at] = row
        free[at] = False
    order[free] = plain
    return order


def chunk_choice(rng, n):
    return rng.choice([None, 65536, 100000, 131072, n // 2 + 1, n // 3 + 1, n - 1, 250000, 50000]) if n > 1000 else \
        rng.choice([None, None, max(1, n // 2 + 1), max(1, n // 3 + 1), 7])


# ---------------------------------------------------------------- the implementation
def fresh(ctx, name):
    """a cache directory of this family (plain names: the spelling of cache paths is a dimension of the other families)"""
    import os
    import shutil
    d = os.path.join(ctx.workdir, "large", name)
    shutil.rmtree(d, ignore_errors=True)
    os.makedirs(os.path.dirname(d), exist_ok=True)
    return d


def build(ctx, name, cat, frame, cents_deg, mode, labels, order, chunk):
    """-> (catalog, what was handed over: unit vectors, weights, redshifts, patch id of every row, in the order given)"""
    import pandas as pd
    g = cat.take(order)
    ra, dec = radec(frame, g.a, g.b)
    cols = dict(ra=ra, dec=dec)
    kw = dict(ra_name="ra", dec_name="dec", max_workers=1)
    if g.w is not None:
        cols["w"] = g.w; kw["weight_name"] = "w"
    if g.z is not None:
        cols["z"] = g.z; kw["redshift_name"] = "z"
    pid = labels[g.owner]
    if mode == "centres":
        inv = np.argsort(labels)             # position j of the centre list holds the patch with label j
        kw["patch_centers"] = impl.AngularCoordinates(np.deg2rad(np.asarray(cents_deg)[inv]))
    else:
        cols["patch"] = pid; kw["patch_name"] = "patch"
    if chunk:
        kw["chunksize"] = int(chunk)
    c = impl.Catalog.from_dataframe(fresh(ctx, name), pd.DataFrame(cols), **kw)
    given = dict(v=unit(ra, dec), w=g.w if g.w is not None else np.ones(len(g)), z=g.z, pid=pid, tag=g.tag, weighted=g.w is not None)
    return c, given


def meta_terms(cat, given, cents_vec_by_pid):
    """per patch: the Coq term holding the stored metadata against their definitions -> [(pid, term, record)]"""
    out = []
    for pid, patch in sorted(cat.items(), key=lambda kv: int(kv[0])):
        pid = int(pid)
        rows = given["pid"] == pid
        v, w = given["v"][rows], given["w"][rows]
        m = patch.meta
        cen = np.asarray(m.center.data, dtype="f8").reshape(-1)
        cs = unit_rad(cen[0], cen[1])
        radius = float(np.asarray(m.radius.data).reshape(-1)[0])
        sep = angle(v, cs)
        seps = [float(sep[k:k + BLOCK].max()) for k in range(0, len(sep), BLOCK)]
        tagged = np.flatnonzero(given["tag"][rows] != 0)
        seps += [float(sep[k]) for k in tagged[:12]]
        if cents_vec_by_pid is not None:
            cdef, cmax, cwhat = cents_vec_by_pid[pid], 2.0 ** -40, "the given centre"
        else:
            mean = np.sum(v.astype(np.longdouble) * w.astype(np.longdouble)[:, None], axis=0) / np.sum(w.astype(np.longdouble))
            mean = np.asarray(mean / np.sqrt(np.sum(mean * mean)), dtype="f8")
            cdef, cmax, cwhat = mean, 2.0 ** -20 * max(seps), "the weighted mean of all rows"
        dcen = float(angle(cs[None, :], cdef)[0])
        nrec, sumw = int(m.num_records), float(m.sum_weights)
        ndef, swdef = int(rows.sum()), float(np.sum(w)) if given["weighted"] else float(rows.sum())
        term = "c13_meta_case %s %s %s %s %s %s %s %s" % (fq.q(radius), fq.qlist(seps), fq.q(nrec), fq.q(ndef), fq.q(sumw), fq.q(swdef),
                                                         fq.q(dcen), fq.q(cmax))
        rec = dict(patch=pid, rows=ndef, stored_radius=radius.hex(), largest_separation_of_any_row=float(max(seps)).hex(),
                   stored_rows=nrec, stored_sum_weights=sumw, sum_weights=swdef, centre_off_by_rad=dcen, centre_is=cwhat)
        out.append((pid, term, rec))
    return out


def limits(cfg, edges):
    """squared chords of the scale limits per redshift bin: (lo2, hi2)"""
    lo2, hi2 = [], []
    for za, zb in zip(edges[:-1], edges[1:]):
        amin, amax = cfg.scales.scales.get_angle_radian((za + zb) / 2.0, cosmology=cfg.cosmology)
        lo2.append((2.0 * math.sin(float(np.atleast_1d(amin)[0]) / 2.0)) ** 2)
        hi2.append((2.0 * math.sin(float(np.atleast_1d(amax)[0]) / 2.0)) ** 2)
    return np.array(lo2), np.array(hi2)


def bins_of(z, edges):
    """redshift bin (lo, hi] of every row, -1 outside"""
    e = np.asarray(edges)
    b = np.searchsorted(e, z, side="left") - 1
    b[(z <= e[0]) | (z > e[-1])] = -1
    return b


def groups_of(G):
    """the rows of a catalog in groups that can be excluded as a whole: per patch the ordinary rows (with the direction of their
    mean and the largest separation from it), every row placed on purpose by itself"""
    out = []
    for k in np.unique(G["pid"]):
        idx = np.flatnonzero((G["pid"] == k) & (G["tag"] == 0))
        if len(idx):
            m = G["v"][idx].mean(axis=0); m /= np.linalg.norm(m)
            out.append((idx, m, float(angle(G["v"][idx], m).max())))
    for i in np.flatnonzero(G["tag"] != 0):
        out.append((np.array([i]), G["v"][i], 0.0))
    return out


def brute(A, B, lo2, hi2, edges, npatch):
    """sum of w_a * w_b over the pairs with lo < separation <= hi of the redshift bin of a, per (bin, patch of a, patch of b);
    A carries the redshifts.  All pairs: loops over the rows of the smaller catalog; a group of rows of the larger one is left
    out for a row only when the triangle inequality puts all of it beyond the largest / below the smallest limit by 0.1 %.
    -> (table, smallest relative distance of a squared chord from a limit)"""
    nb = len(lo2)
    out = np.zeros((nb, npatch, npatch))
    gap = np.inf
    a_small = len(A["v"]) <= len(B["v"])
    S, G = (A, B) if a_small else (B, A)
    ba = bins_of(A["z"], edges)
    amax = 2.0 * math.asin(math.sqrt(float(hi2.max())) / 2.0) * 1.001
    amin = 2.0 * math.asin(math.sqrt(float(lo2.min())) / 2.0) * 0.999
    grp = []
    for idx, m, r in groups_of(G):
        if not a_small:
            idx = idx[ba[idx] >= 0]
            if not len(idx):
                continue
        g = dict(v=G["v"][idx], w=G["w"][idx], pid=G["pid"][idx], m=m, r=r)
        if not a_small:
            g["b"] = ba[idx]; g["l2"] = lo2[g["b"]]; g["h2"] = hi2[g["b"]]; g["key"] = g["b"] * npatch + g["pid"]
        grp.append(g)
    for k in range(len(S["v"])):
        if a_small and ba[k] < 0:
            continue
        sv, sw, sp = S["v"][k], S["w"][k], S["pid"][k]
        for g in grp:
            dc = float(angle(g["m"][None, :], sv)[0])
            if dc - g["r"] > amax or dc + g["r"] < amin:
                continue
            d2 = np.sum((g["v"] - sv) ** 2, axis=1)
            if a_small:
                l2, h2 = lo2[ba[k]], hi2[ba[k]]
            else:
                l2, h2 = g["l2"], g["h2"]
            sel = (d2 > l2) & (d2 <= h2)
            if sel.any():
                if a_small:
                    out[ba[k], sp, :] += sw * np.bincount(g["pid"][sel], weights=g["w"][sel], minlength=npatch)
                else:
                    out[:, :, sp] += sw * np.bincount(g["key"][sel], weights=g["w"][sel], minlength=nb * npatch).reshape(nb, npatch)
            gap = min(gap, float(np.min(np.abs(d2 / l2 - 1.0))), float(np.min(np.abs(d2 / h2 - 1.0))))
    return out, gap


def weight_sums(G, edges, npatch, binned):
    nb = len(edges) - 1
    out = np.zeros((nb, npatch))
    if binned:
        b = bins_of(G["z"], edges)
        ok = b >= 0
        np.add.at(out, (b[ok], G["pid"][ok]), G["w"][ok])
    else:
        out[:] = np.bincount(G["pid"], weights=G["w"], minlength=npatch)[None, :]
    return out


def expected(given, lo2, hi2, edges, npatch):
    """the tables of a cross-correlation ref x unk with randoms for ref, by brute force"""
    dd, g1 = brute(given["ref"], given["unk"], lo2, hi2, edges, npatch)
    rd, g2 = brute(given["rand"], given["unk"], lo2, hi2, edges, npatch)
    sw = dict(dd=(weight_sums(given["ref"], edges, npatch, True), weight_sums(given["unk"], edges, npatch, False)),
              rd=(weight_sums(given["rand"], edges, npatch, True), weight_sums(given["unk"], edges, npatch, False)))
    return dict(dd=dd, rd=rd, sw=sw), min(g1, g2)


def flat_expected(exp, lab=None):
    """in the order of [flat_counts]; lab: new label of every patch (relabelled twin)"""
    out = []
    for tab in ("dd", "rd"):
        c, (s1, s2) = exp[tab], exp["sw"][tab]
        if lab is not None:
            inv = np.argsort(lab)
            c, s1, s2 = c[:, inv][:, :, inv], s1[:, inv], s2[:, inv]
        out.extend(float(x) for x in c.ravel()); out.extend(float(x) for x in s1.ravel()); out.extend(float(x) for x in s2.ravel())
    return out


def flat_counts(cf):
    out = []
    for tab in ("dd", "rd"):
        nc = getattr(cf, tab)
        out.extend(float(x) for x in nc.counts.counts.ravel())
        out.extend(float(x) for x in nc.sum_weights.sum_weights1.ravel())
        out.extend(float(x) for x in nc.sum_weights.sum_weights2.ravel())
    return out


def flat_sampled(cf, perm=None):
    from yaw.redshifts import RedshiftData
    out = []
    for cd in (cf.sample(), RedshiftData.from_corrfuncs(cf)):
        smp = cd.samples if perm is None else cd.samples[perm]
        for arr in (cd.data, smp, cd.covariance):
            out.extend(float(x) for x in np.asarray(arr).ravel())
    return out


def pattern(xs):
    return [0 if math.isfinite(x) else 1 if math.isnan(x) else 2 if x > 0 else 3 for x in xs]


def numbers(xs):
    return [x if math.isfinite(x) else 0.0 for x in xs]


def cmp_term(mode, b, t):
    args = "%s %s %s %s" % (fq.nlist(pattern(b)), fq.nlist(pattern(t)), fq.qlist(numbers(b)), fq.qlist(numbers(t)))
    return {"exact": "c13_case_np true ", "scaled": "c13_case_scaled_np "}[mode] + args


META_BITS = ((1, "c13-patch-radius-not-max-over-all-rows", "the stored radius of a patch is not the largest separation of any of its rows from the stored centre"),
             (2, "c13-patch-radius-does-not-cover-all-rows", "a row of the patch lies farther from the stored centre than the stored radius"),
             (4, "c13-patch-row-count-or-weight-sum-wrong", "the stored number of rows / sum of weights of a patch is not that of the rows handed over"),
             (8, "c13-patch-centre-not-from-all-rows", "the stored centre of a patch is not the given centre / the weighted mean of all its rows"))


# ---------------------------------------------------------------- the family
def run_big(ctx, yaw, edges_choices):
    """-> (terms, report): Coq terms (status codes) and a function report(codes) that turns them into findings"""
    import random
    rng = random.Random(ctx.seed * 1000003 + 13013)      # a stream of its own: the other families keep theirs
    terms, cases = [], []

    def add(term, cid, meta, decode):
        cases.append((len(terms), cid, meta, decode))
        terms.append(term)

    def one(sig, what):
        return lambda code: [(sig, "%s (code %d)" % (what, code))] if code else []

    def meta_decode(code):
        return [(sig + ":large-catalog", what) for bit, sig, what in META_BITS if code & bit]

    def links_decode(code):
        out = []
        if code & 1:
            out.append(("c13-harness-linkage-premise-false:large-catalog", "a patch pair holding a counted pair fails the link test made from the radii "
                        "over all rows (a mistake of the harness: the theorem says it cannot)"))
        if code & 2:
            out.append(("c13-linkage-misses-patch-pair-holding-counted-pairs:large-catalog", "the linkage of the implementation does not visit a pair of "
                        "patches that holds counted pairs"))
        return out

    nscen = ctx.n(3, 14)
    for sc in range(nscen):
        seed = rng.getrandbits(48)
        nrng = np.random.default_rng(seed)
        edges = rng.choice(edges_choices)
        unit_ = rng.choice(["arcmin", "arcmin", "kpc"])
        rmax = rng.uniform(8.0, 40.0) if unit_ == "arcmin" else rng.uniform(3000.0, 12000.0)
        cfg = yaw.Configuration.create(rmin=rmax / 8, rmax=rmax, unit=unit_, edges=edges, max_workers=1)
        upper = lambda z: float(np.max(cfg.scales.scales.get_angle_radian(z, cosmology=cfg.cosmology)[1]))
        p = upper((edges[0] + edges[1]) / 2.0)
        lam = max(p, upper(edges[0])) / p
        zchoices = np.array([za + f * (zb - za) for za, zb in zip(edges[:-1], edges[1:]) for f in (0.25, 0.5, 0.75)])
        first_bin_z = zchoices[:3]
        S = scenario(ctx, rng, nrng, p, lam, zchoices, first_bin_z)
        if S is None:
            ctx.bump("large:no_layout_found"); continue
        frame = make_frame(rng, rng.choice(["anywhere", "anywhere", "pole", "ra0"]))
        npatch, big, mode = S["npatch"], S["big"], S["mode"]
        cents_deg = np.column_stack(radec(frame, S["acen"], np.zeros(npatch)))
        ident = np.arange(npatch)
        lo2, hi2 = limits(cfg, edges)
        par = dict(S["par"], scenario="large-%d" % sc, numpy_seed=seed, unit=unit_, rmax=float(rmax).hex(), edges=edges,
                   largest_counted_angle_rad=float(p).hex(), linkage_angle_over_it=round(lam, 4),
                   field=[float(x) for x in cents_deg[0]])

        def measure(tag, cats, fr, labels, orders, chunks):
            """-> dict(cf, cats, given, links)"""
            made, given = {}, {}
            for c in CATS:
                made[c], given[c] = build(ctx, "L%s%s" % (c, tag), cats[c], fr, np.column_stack(radec(fr, S["acen"], np.zeros(npatch))), mode, labels,
                                          orders[c], chunks[c])
            (cf,) = yaw.crosscorrelate(cfg, made["ref"], made["unk"], ref_rand=made["rand"], max_workers=1)
            return dict(cf=cf, cats=made, given=given)

        def drop(res):
            import shutil
            for c in res["cats"].values():
                shutil.rmtree(str(c.cache_directory), ignore_errors=True)

        def check_meta(res, fr, labels, cid, meta):
            cvec = None
            if mode == "centres":
                cd = np.column_stack(radec(fr, S["acen"], np.zeros(npatch)))
                cv = unit_rad(np.deg2rad(cd[:, 0]), np.deg2rad(cd[:, 1]))
                cvec = {int(labels[k]): cv[k] for k in range(npatch)}
            for c in CATS:
                for pid, term, rec in meta_terms(res["cats"][c], res["given"][c], cvec):
                    add(term, cid, dict(meta, catalog=c, metadata=rec), meta_decode)

        def orders_for(cats, kind, chunks, base_orders=None):
            """row orders of the three catalogs for the base run or a row-order twin"""
            out = {}
            for c in CATS:
                n = len(cats[c])
                if kind in ("base", "move"):
                    kinds = [rng.choice(POSITIONS) for _ in range(3)]
                    if kind == "move" and base_orders is not None:
                        # the same order of the ordinary rows, the placed rows somewhere else
                        o = base_orders[c].copy()
                        placed = np.flatnonzero(cats[c].tag[o] != 0)
                        for k, at in enumerate(placed):
                            to = place(rng, n, k, chunks[c], kinds[k % 3])
                            o[at], o[to] = o[to], o[at]
                        out[c] = o
                    else:
                        out[c] = row_order(rng, nrng, cats[c], chunks[c], rng.choice(["mixed", "mixed", "grouped"]), kinds)
                    if c == big:
                        for k in kinds[:1]:
                            ctx.bump("large:far_row_position:%s" % k)
                elif kind == "shuffle":
                    out[c] = base_orders[c][nrng.permutation(n)]
                elif kind == "reverse":
                    out[c] = base_orders[c][::-1].copy()
                elif kind == "shift1":
                    out[c] = np.roll(base_orders[c], 1)
                elif kind == "sort":
                    key = cats[c].a + 0.37 * cats[c].b
                    o = np.argsort(key, kind="stable")
                    out[c] = o if rng.random() < 0.5 else o[::-1].copy()
                else:
                    raise ValueError(kind)
            return out

        cats = S["cats"]
        chunks = {c: chunk_choice(rng, len(cats[c])) for c in CATS}
        orders = orders_for(cats, "base", chunks)
        try:
            rb = measure("b", cats, frame, ident, orders, chunks)
        except Exception as e:
            if "not aligned" in str(e) and mode == "ids":
                ctx.bump("large:skipped_centres_of_catalogs_not_aligned"); continue
            raise
        # every row in the patch it was meant for (given centres: the nearest one decides)
        if mode == "centres":
            cv = unit(cents_deg[:, 0], cents_deg[:, 1])
            bad = 0
            for c in CATS:
                d = np.stack([np.sum((rb["given"][c]["v"] - cv[k]) ** 2, axis=1) for k in range(npatch)], axis=1)
                bad += int(np.sum(np.argmin(d, axis=1) != rb["given"][c]["pid"]))
            if bad:
                ctx.bump("large:skipped_row_nearer_to_another_centre"); drop(rb); continue
        exp, gap = expected(rb["given"], lo2, hi2, edges, npatch)
        if gap < GAP:
            ctx.bump("near_tie_skipped:large"); drop(rb); continue
        nonzero = bool(np.any(exp["dd"] != 0))
        # the patch pairs that hold counted pairs, and whether they hold them only because of the far rows
        vall = {c: rb["given"][c] for c in CATS}
        cvec = unit(cents_deg[:, 0], cents_deg[:, 1])
        def radii(skip_far):
            R = np.zeros(npatch)
            for c in CATS:
                g = vall[c]
                for k in range(npatch):
                    rows = (g["pid"] == k) & ((g["tag"] == 0) | (not (skip_far and c == big)))
                    if rows.any():
                        R[k] = max(R[k], float(angle(g["v"][rows], cvec[k]).max()))
            return R
        R_all, R_core = radii(False), radii(True)
        M = lam * p
        need, decisive = [], 0
        for i in range(npatch):
            for j in range(npatch):
                if i != j and (np.any(exp["dd"][:, i, j] != 0) or np.any(exp["rd"][:, i, j] != 0)):
                    d = float(angle(cvec[i][None, :], cvec[j])[0])
                    need.append((i, j, d))
                    if d > R_core[i] + R_core[j] + M:
                        decisive += 1
        ctx.bump("large:patch_pairs_holding_counted_pairs", len(need))
        ctx.bump("large:of_them_linked_only_through_a_far_row_of_the_large_catalog", decisive)
        ctx.bump("large:catalog=%s:patches_from=%s:%s" % (big, mode, "weighted" if cats[big].w is not None else "unweighted"))
        ctx.bump("large:rows_of_largest_patch:%s" % ("2e5-4e5" if max(S["par"]["rows_of_large_patches"].values()) < 4e5 else
                                                     "4e5-7e5" if max(S["par"]["rows_of_large_patches"].values()) < 7e5 else "7e5-1e6"))
        base_meta = dict(par, transform="base", ingest_chunks={c: chunks[c] for c in CATS})

        def check_run(res, tr, labels, meta, fr):
            """(a) metadata, (d) tables against brute force and the linkage against the patch pairs that hold counted pairs"""
            cid = ("large", sc, tr)
            check_meta(res, fr, labels, cid, meta)
            lab = None if np.array_equal(labels, ident) else labels
            add("c13_case true %s %s" % (fq.qlist(flat_expected(exp, lab)), fq.qlist(flat_counts(res["cf"]))), cid, meta,
                one("c13-counts-differ-from-brute-force:large-catalog",
                    "pair counts or per-patch weight sums of a measurement with a large patch differ from the brute-force count over all pairs"))
            try:
                from yaw.correlation.measurements import PatchLinkage
                pl = PatchLinkage.from_catalogs(cfg, res["cats"]["ref"], res["cats"]["unk"], res["cats"]["rand"]).patch_links
                pl = {int(k): {int(x) for x in v} for k, v in pl.items()}
            except Exception:
                ctx.bump("large:linkage_not_observable"); pl = None
            if pl is not None and need:
                rows = ["(%s, %s, %s, %s)" % (fq.q(d), fq.q(R_all[i]), fq.q(R_all[j]), fq.b(int(labels[j]) in pl.get(int(labels[i]), ())))
                        for i, j, d in need]
                add("c13_links_case %s %s" % (fq.q(M * (1.0 + 2.0 ** -30)), fq.lst(rows)), cid,
                    dict(meta, patch_pairs_holding_counted_pairs=[[int(labels[i]), int(labels[j])] for i, j, _ in need],
                         patch_links={str(k): sorted(int(x) for x in v) for k, v in pl.items()}), links_decode)

        check_run(rb, "base", ident, base_meta, frame)
        ob = dict(counts=flat_counts(rb["cf"]), samp=flat_sampled(rb["cf"]))
        ctx.count(key=("large", sc, "base"), nontrivial=nonzero, kind="large:base")
        ctx.sample(dict(par), limit=2)

        # ---- twins
        row_twins = ["shuffle", "move", rng.choice(["reverse", "shift1", "sort"])] if ctx.quick() else \
            ["shuffle", "shuffle", "move", "move", "reverse", "shift1", "sort"]
        twins = [("rows:" + k, k) for k in row_twins] + ([("rot", None), ("centres", None)] if not ctx.quick() else [("rot", None)] if sc % 2 else [("centres", None)])
        for tr, kind in twins:
            fr, labels, perm, ords, chs = frame, ident, None, orders, chunks
            meta = dict(par, transform=tr)
            if kind is not None:
                chs = {c: chunk_choice(rng, len(cats[c])) for c in CATS}
                ords = orders_for(cats, kind, chs, orders)
                meta["ingest_chunks"] = chs
            elif tr == "rot":
                ax = np.array([rng.gauss(0, 1) for _ in range(3)]); ax /= np.linalg.norm(ax)
                th = rng.uniform(0, 2 * math.pi)
                K = np.array([[0, -ax[2], ax[1]], [ax[2], 0, -ax[0]], [-ax[1], ax[0], 0]])
                Rm = np.eye(3) + math.sin(th) * K + (1 - math.cos(th)) * (K @ K)
                fr = frame @ Rm.T
                meta.update(axis=[float(x) for x in ax], angle=th)
            else:
                pl_ = list(range(npatch))
                while pl_ == list(range(npatch)):
                    rng.shuffle(pl_)
                labels = np.array(pl_)          # patch k gets the label labels[k]
                perm = [int(x) for x in labels]
                meta["new_label_of_patch"] = perm
            try:
                rt = measure("t", cats, fr, labels, ords, chs)
            except Exception as e:
                ctx.count(key=("large", sc, tr), nontrivial=nonzero, kind="large:" + tr)
                add("1%nat", ("large", sc, tr), dict(meta, error="%s: %s" % (type(e).__name__, str(e)[:200])),
                    one("c13-%s-twin-refused:large-catalog" % tr.split(":")[0], "the transformed twin of an accepted measurement raises"))
                continue
            check_run(rt, tr, labels, meta, fr)
            cid = ("large", sc, tr)
            ot = dict(counts=flat_counts(rt["cf"]), samp=flat_sampled(rt["cf"], perm))
            if tr == "centres":
                tb = [float(np.sum(getattr(rb["cf"], t).counts.counts[b])) for t in ("dd", "rd") for b in range(len(edges) - 1)]
                tt = [float(np.sum(getattr(rt["cf"], t).counts.counts[b])) for t in ("dd", "rd") for b in range(len(edges) - 1)]
                add("c13_case true %s %s" % (fq.qlist(tb), fq.qlist(tt)), cid, meta,
                    one("c13-relabel-changes-counts:large-catalog", "relabelling patches changes the total pair counts"))
                add(cmp_term("scaled", ob["samp"], ot["samp"]), cid, meta,
                    one("c13-relabel-changes-samples:large-catalog", "relabelling patches changes amplitudes / n(z) / covariance or does not permute "
                        "the jackknife samples accordingly"))
            else:
                sig = "c13-rotation-changes-%s:large-catalog" if tr == "rot" else "c13-row-order-changes-%s:large-catalog"
                add("c13_case true %s %s" % (fq.qlist(ob["counts"]), fq.qlist(ot["counts"])), cid, meta,
                    one(sig % "counts", "a row permutation / a rigid rotation of catalogs with a large patch changes the raw pair counts or weight sums"))
                add(cmp_term("exact", ob["samp"], ot["samp"]), cid, meta,
                    one(sig % "amplitudes", "a row permutation / a rigid rotation of catalogs with a large patch changes amplitudes, jackknife samples, "
                        "covariance or the redshift estimate"))
            ctx.count(key=cid, nontrivial=nonzero, kind="large:" + tr.split(":")[0])
            drop(rt)

        # ---- splits of the large catalog: the parts are smaller catalogs with metadata of their own
        n = len(cats[big])
        split_kinds = [rng.choice(["random:0.5", "random:0.3", "even-odd", "halves"])] if ctx.quick() else \
            ["random:0.5", "random:%g" % rng.choice([0.15, 0.3, 0.7]), "even-odd", "halves"]
        for sk in split_kinds:
            o = orders[big]
            if sk.startswith("random"):
                mask_rows = nrng.uniform(size=n) < float(sk.split(":")[1])
            elif sk == "even-odd":
                mask_rows = (np.arange(n) % 2) == 0
            else:
                mask_rows = np.arange(n) < n // 2
            # mask_rows is in the order of the table; both parts must keep every patch populated
            own = cats[big].owner[o]
            if any(not np.any(mask_rows & (own == k)) or not np.any(~mask_rows & (own == k)) for k in range(npatch)):
                ctx.bump("large:split_skipped_patch_left_empty"); continue
            meta = dict(par, transform="split:" + sk, split_catalog=big, rows_of_parts=[int(mask_rows.sum()), int(n - mask_rows.sum())])
            tabs = ("dd", "rd") if big == "unk" else ("dd",) if big == "ref" else ("rd",)
            parts = []
            try:
                for flag in (True, False):
                    sub = dict(cats); sub[big] = cats[big].take(o[mask_rows == flag])
                    so = dict(orders); so[big] = np.arange(len(sub[big]))
                    sc_ = dict(chunks); sc_[big] = chunk_choice(rng, len(sub[big]))
                    pr = measure("s%d" % flag, sub, frame, ident, so, sc_)
                    check_meta(pr, frame, ident, ("large", sc, "split:" + sk, flag), dict(meta, part=int(flag)))
                    parts.append([float(x) for t in tabs for x in getattr(pr["cf"], t).counts.counts.ravel()])
                    drop(pr)
            except Exception as e:
                if mode == "ids" and "not aligned" in str(e):
                    # patches made from ids: every catalog has centres of its own (the means of its rows), and the library refuses
                    # catalogs whose centres are apart by more than half a radius of the largest one.  The part without the far row
                    # is a tight core (radius 0.03 p) - refused, by that heuristic, against the rings of the others.  Not a statement
                    # of this property (the guard is C12's); counted
                    ctx.bump("large:split_part_refused_by_the_alignment_guard(ids)"); continue
                add("1%nat", ("large", sc, "split:" + sk), dict(meta, error="%s: %s" % (type(e).__name__, str(e)[:200])),
                    one("c13-split-twin-refused:large-catalog", "a part of a split catalog of an accepted measurement raises"))
                continue
            whole = [float(x) for t in tabs for x in getattr(rb["cf"], t).counts.counts.ravel()]
            add("c13_additive_case %s %s %s" % (fq.qlist(whole), fq.qlist(parts[0]), fq.qlist(parts[1])), ("large", sc, "split:" + sk), meta,
                one("c13-counts-not-additive:large-catalog", "counts of a large catalog split into two disjoint catalogs do not add up to the unsplit counts"))
            ctx.count(key=("large", sc, "split:" + sk), nontrivial=nonzero, kind="large:split")
        drop(rb)

    def report(codes):
        for i, cid, meta, decode in cases:
            c = codes[i]
            if c:
                for sig, what in decode(c):
                    ctx.fail(sig, what, meta, case=cid)
    return terms, report
