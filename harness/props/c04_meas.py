"""C04 on real measurements (helper of props/c04.py): the normalisation of measured pair counts.

The other families of c04.py build NormalisedCounts by hand, so "the two samples' total weights" of the
property is whatever the harness stored.  Here the CorrFuncs come from yaw.crosscorrelate / yaw.autocorrelate
on small real catalogs and the weights of the model come from the CATALOGS' RECORDS (the rows handed to
Catalog.from_dataframe, grouped by their named patch), never from what the CorrFunc stores:

  * 2-4 patches on a line, neighbouring patches 1/32 .. 1/8 deg apart (patch pairs (i, j), i != j, are counted:
    complete, chain-like linkage) or 32 deg apart (isolated fields: only (p, p) is counted), mixed per case;
  * the reference sample is SPARSE: its (patch, bin) cells are populated per patch in one bin only, on a diagonal,
    never in some bins, at random, or everywhere; the randoms populate everything, the complementary cells, or
    random cells; so cells that are empty in one sample and populated in the partner, bins that are empty in every
    patch, patches populated in one bin only all occur; redshifts on bin midpoints, on the closed edge, outside
    the binning; both closed sides; per-sample weight column (small dyadic weights) or none;
  * crosscorrelate with reference randoms only (DD/RD-1), unknown randoms only (DD/DR-1), both (Landy-Szalay), and
    CorrFuncs made of a subset of the measured pair counts of a both-randoms measurement (every subset of
    dr/rd/rr for which the code defines an estimator); autocorrelate of the reference sample (and of an unknown
    sample that has redshifts) with and without RR; one or two scales;
  * compared in Coq (Model/Estimators.v: c04_meas_case): CorrFunc.sample().data / .samples against the model of the
    code and against the documented estimator of total pair count / (W1 * W2) (half the squared total for an
    autocorrelation), evaluated on the MEASURED pair counts and on weights computed inside Coq from the records
    (closed-side rule per bin for a side read with the binning, the whole catalog in every bin for the unknown
    side of a cross-correlation; Props: C04_sample_total_any_patches, C04_measured_denominator_cross / _auto);
    RedshiftData.from_corrfuncs(cross, ref, unk).data / .samples against w_sp / sqrt(dz^2 w_ss w_pp) of the EXACT
    model values in squared form with a first-order error bound (c04_meas_nz_case).
A wrong value that IS the estimator normalised with the weights the CorrFunc stores is reported as such (bit 5).
  * weights (random_spec(weights=True), weight_probe_specs): per sample one of the modes WMODES - objects of weight 0, masked
    (patch, bin) cells, weights of both signs, cells / bins / whole samples whose weights cancel exactly, all weight in one
    patch - on any of the four samples; a cell of a sample read without the binning is a whole patch.  A patch of total
    weight 0 has no weighted centre (patch_name mode stops in np.average), such catalogs are created with patch_centers =
    the nominal centres.  The model is unchanged: weights are summed in Coq from the records, a zero total leaves the
    term undefined (nothing compared there), everything else is compared as before.
"""
import shutil
import traceback
from fractions import Fraction

import numpy as np

from lib import floatq as fq
from lib import impl
from props import _jk_common as jk

PATCH_D = 0.03125                        # objects 0 / 1 of a patch sit at centre +- PATCH_D, 2 / 3 at +- PATCH_D / 2
GAPS = [0.03125, 0.0625, 0.09375, 0.125, 32.0, 32.0, 32.0]
GAPS_WIDE = [0.09375, 0.125, 0.125, 32.0, 32.0]     # every object is nearest to the centre of its own patch (patch_centers mode)
REF_MODES = ["onebin", "diag", "deadbin", "random", "random", "full"]
RAND_MODES = ["full", "full", "full", "complement", "random"]
# pair-count containers of a CorrFunc: name -> (sample 1, read with binning, sample 2, read with binning, auto)
CONT = {
    "cross": dict(dd=("ref", True, "unk", False, False), dr=("ref", True, "unk_rand", False, False),
                  rd=("ref_rand", True, "unk", False, False), rr=("ref_rand", True, "unk_rand", False, False)),
    "ref": dict(dd=("ref", True, "ref", True, True), dr=("ref", True, "ref_rand", True, False),
                rr=("ref_rand", True, "ref_rand", True, True)),
    "unk": dict(dd=("unk", True, "unk", True, True), dr=("unk", True, "unk_rand", True, False),
                rr=("unk_rand", True, "unk_rand", True, True)),
}


# ----------------------------------------------------------------------------- generators
def gen_edges(rng):
    nb = rng.choice([1, 2, 2, 3, 3, 4])
    e = [rng.choice([0.25, 0.5, 1.0])]
    for _ in range(nb):
        e.append(e[-1] + rng.choice([0.125, 0.25, 0.5, 0.375]))
    return e


def gen_member(closed, edges, b, z):
    """python-side membership: shapes generated inputs and labels them, never a verdict"""
    lo, hi = edges[b], edges[b + 1]
    return (lo < z <= hi) if closed == "right" else (lo <= z < hi)


def outside_values(closed, edges):
    return [edges[0] - 0.125, edges[-1] + 0.25, edges[0] if closed == "right" else edges[-1]]


def gen_cells(rng, mode, nb, P, base=None):
    """which bins each patch populates (never none: a binned sample without any object inside the binning in some
    patch stops the pinned commit at the build_trees defect that C10 probes)"""
    bins = list(range(nb))
    if mode == "complement" and base is not None:
        return [sorted(set(bins) - set(base[p])) or [rng.randrange(nb)] for p in range(P)]
    if mode == "full":
        return [list(bins) for _ in range(P)]
    if mode == "onebin":
        return [[rng.randrange(nb)] for _ in range(P)]
    if mode == "diag":
        k = rng.randrange(nb)
        return [[(p + k) % nb] for p in range(P)]
    if mode == "deadbin" and nb >= 2:
        dead = set(rng.sample(bins, rng.randrange(1, nb)))
        live = [b for b in bins if b not in dead]
        return [sorted(rng.sample(live, rng.randrange(1, len(live) + 1))) for _ in range(P)]
    out = []
    for _ in range(P):
        occ = [b for b in bins if rng.random() < 0.5]
        out.append(occ or [rng.randrange(nb)])
    return out


def offsets(n_pairs, n_centre):
    off = [PATCH_D, -PATCH_D]
    if n_pairs == 2:
        off += [PATCH_D / 2, -PATCH_D / 2]
    return off + [0.0] * n_centre


def gen_sample(rng, closed, edges, cells, hasw, has_z, dense=False, wmode="pos"):
    """per patch one or two pairs of objects placed symmetrically about the patch centre with equal weights and
    0-3 objects on the centre (the weighted patch centres of all samples of a measurement coincide, the
    implementation's patch-consistency check accepts them); a sample with redshifts puts one object into each
    populated cell as far as the objects last, the others into populated cells or outside the binning"""
    outs = outside_values(closed, edges)
    patches = []
    for occ in cells:
        n_pairs = 2 if (dense or rng.random() < 0.4) else 1
        off = offsets(n_pairs, rng.randrange(1, 4) if dense else rng.randrange(0, 4))
        n = len(off)
        zs = []
        order = list(occ)
        rng.shuffle(order)
        for j in range(n):
            if not has_z:
                zs.append(0.0)
                continue
            if j < len(order):
                b = order[j]
            elif rng.random() < 0.25:
                zs.append(rng.choice(outs))
                continue
            else:
                b = rng.choice(occ)
            lo, hi = edges[b], edges[b + 1]
            zs.append(rng.choice([(lo + hi) / 2.0, (lo + hi) / 2.0, hi if closed == "right" else lo, lo + (hi - lo) * 0.75]))
        if has_z:
            rng.shuffle(zs)               # zs[0] lies inside the binning and stays in the list: the patch is never empty
        ws = []
        for j in range(n):
            if not hasw:
                ws.append(1.0)
            elif j in (1, 3):
                ws.append(ws[j - 1])      # symmetric partner: equal weight
            else:
                ws.append(rng.randrange(1, 33) / 8.0)
        patches.append([[z, w, o] for z, w, o in zip(zs, ws, off)])
    sample = dict(has_z=has_z, hasw=hasw, patches=patches)
    if hasw and wmode != "pos":
        reweigh(rng, closed, edges, sample, wmode)
    return sample


# ----------------------------------------------------------------------------- weights that are not positive
# "The two samples' total weights" are sums of whatever the weight column holds: objects masked with weight 0 instead of
# being removed, weights of both signs (e.g. a subtracted background).  A (patch, bin) cell - a whole patch for a sample read
# without the binning - may hold objects and have total weight exactly 0; a bin or a whole sample may.
WMODES = ["zeros", "mask-cells", "mask-cells", "signed", "cancel-cells", "cancel-cells", "one-patch", "dead-bin-weights",
          "cancel-sample"]


def wval(rng):
    return rng.randrange(1, 33) / 8.0


def patch_cells(closed, edges, objs, has_z):
    """indices of the objects of one patch by cell: the bin they fall into (python-side membership: shapes the generated
    input, never a verdict), the whole patch for a sample without redshifts"""
    if not has_z:
        return {0: list(range(len(objs)))}
    out = {}
    for j, o in enumerate(objs):
        for b in range(len(edges) - 1):
            if gen_member(closed, edges, b, o[0]):
                out.setdefault(b, []).append(j)
    return out


def weight_groups(objs):
    """objects that must carry equal weights for the weighted patch centre to stay on the nominal centre: the two
    members of a symmetric pair; every object on the centre by itself"""
    n_off = sum(1 for o in objs if o[2] != 0.0)
    return [[j, j + 1] for j in range(0, n_off, 2)] + [[j] for j in range(n_off, len(objs))]


def cancel(rng, objs, idx):
    """weights of both signs on the objects idx that sum to exactly 0 (all dyadic: the float sums are exact)"""
    if len(idx) == 1:
        objs[idx[0]][1] = 0.0
        return
    tot = 0.0
    for j in idx[:-1]:
        objs[j][1] = wval(rng) * rng.choice([1.0, 1.0, -1.0])
        tot += objs[j][1]
    objs[idx[-1]][1] = -tot


def proper_subset(rng, n):
    """a non-empty set of indices below n that leaves at least one out when n >= 2"""
    if n <= 1:
        return list(range(n))
    return sorted(rng.sample(range(n), rng.randrange(1, n)))


def reweigh(rng, closed, edges, sample, wmode):
    patches, has_z = sample["patches"], sample["has_z"]
    P, nb = len(patches), len(edges) - 1
    sample["wmode"] = wmode
    if wmode in ("zeros", "signed"):       # per weight group: the patch centres stay where they are
        for objs in patches:
            for g in weight_groups(objs):
                if wmode == "zeros":
                    w = 0.0 if rng.random() < 0.45 else wval(rng)
                else:
                    w = wval(rng) * (-1.0 if rng.random() < 0.4 else 1.0)
                for j in g:
                    objs[j][1] = w
        return
    if wmode == "one-patch":               # the only non-zero weights of the catalog sit in one patch
        keep = rng.randrange(P)
        for p, objs in enumerate(patches):
            if p != keep:
                for o in objs:
                    o[1] = 0.0
        return
    if wmode == "dead-bin-weights" and has_z:      # some bins: every object of every patch masked
        for b in proper_subset(rng, nb):
            for objs in patches:
                for j in patch_cells(closed, edges, objs, True).get(b, []):
                    objs[j][1] = 0.0
        return
    if wmode == "cancel-sample":           # the whole sample (per bin, if read with the binning) weighs nothing
        if rng.random() < 0.5:
            for objs in patches:
                for o in objs:
                    o[1] *= rng.choice([1.0, -1.0])
        for b in (range(nb) if has_z else [0]):
            members = [(p, j) for p, objs in enumerate(patches) for j in patch_cells(closed, edges, objs, has_z).get(b, [])]
            if members:
                tot = sum(patches[p][j][1] for p, j in members)
                p, j = members[-1]
                patches[p][j][1] -= tot
        return
    # mask-cells / cancel-cells (and dead-bin-weights of a sample without redshifts): some populated cells weigh nothing
    which = proper_subset(rng, P) if not has_z else [p for p in range(P) if rng.random() < 0.65] or [rng.randrange(P)]
    for p in which:
        objs = patches[p]
        cells = patch_cells(closed, edges, objs, has_z)
        if not cells:
            continue
        idx = cells[rng.choice(sorted(cells))]
        if wmode == "cancel-cells":
            cancel(rng, objs, idx)
        else:
            for j in idx:
                objs[j][1] = 0.0
            if rng.random() < 0.5:         # with the symmetric partners: the weighted patch centre stays
                for g in weight_groups(objs):
                    if any(j in idx for j in g):
                        for j in g:
                            objs[j][1] = 0.0


def needs_centers(sample):
    """True when the weighted mean position of some patch is undefined (total weight 0: Catalog.from_dataframe with
    patch_name stops in np.average) or off the nominal centre (symmetric partners with different weights); such a catalog
    is created with patch_centers = the nominal centres, the documented way of sharing patch centres between catalogs"""
    if not sample["hasw"]:
        return False
    for objs in sample["patches"]:
        if sum(Fraction(o[1]) for o in objs) == 0:
            return True
        if any(len({objs[j][1] for j in g}) > 1 for g in weight_groups(objs)):
            return True
    return False


def random_spec(rng, weights=False):
    edges = gen_edges(rng)
    nb = len(edges) - 1
    closed = rng.choice(["left", "right"])
    P = rng.choice([2, 3, 3, 3, 4])
    gaps = [rng.choice(GAPS_WIDE if weights else GAPS) for _ in range(P - 1)]
    if rng.random() < 0.3:
        gaps = [32.0] * (P - 1)           # a survey of isolated fields
    mode_ref = rng.choice(REF_MODES)
    cells_ref = gen_cells(rng, mode_ref, nb, P)
    mode_rand = rng.choice(RAND_MODES)
    cells_rand = gen_cells(rng, mode_rand, nb, P, base=cells_ref)

    def hw():
        return rng.random() < 0.6
    which = rng.choice(["ref_rand", "unk_rand", "both", "both"])
    unk_auto = None
    if which in ("unk_rand", "both") and rng.random() < 0.25:
        unk_auto = dict(count_rr=rng.random() < 0.5)
    names = ["ref", "unk"] + (["ref_rand"] if which in ("ref_rand", "both") else []) + (["unk_rand"] if which in ("unk_rand", "both") else [])
    wm = {n: "pos" for n in names}
    hasw = {n: hw() for n in names}
    if weights:                          # at least one sample (mostly a data sample) with weights that are not all positive
        for n in set([rng.choice(["ref", "ref", "unk", "unk"] + names)] + [n for n in names if rng.random() < 0.25]):
            wm[n], hasw[n] = rng.choice(WMODES), True
    samples = dict(ref=gen_sample(rng, closed, edges, cells_ref, hasw["ref"], True, dense=weights and rng.random() < 0.5, wmode=wm["ref"]))
    unk_cells = gen_cells(rng, rng.choice(["random", "full", "onebin"]), nb, P)
    samples["unk"] = gen_sample(rng, closed, edges, unk_cells, hasw["unk"], unk_auto is not None, dense=rng.random() < 0.5, wmode=wm["unk"])
    if which in ("ref_rand", "both"):
        samples["ref_rand"] = gen_sample(rng, closed, edges, cells_rand, hasw["ref_rand"], True, dense=rng.random() < 0.6, wmode=wm["ref_rand"])
    if which in ("unk_rand", "both"):
        samples["unk_rand"] = gen_sample(rng, closed, edges, [list(range(nb))] * P, hasw["unk_rand"], unk_auto is not None,
                                         dense=rng.random() < 0.6, wmode=wm["unk_rand"])
    for smp in samples.values():         # patch_centers where patch_name cannot place the centres, and sometimes where it can
        smp["centers"] = needs_centers(smp) or (weights and rng.random() < 0.2)
    ref_auto = dict(count_rr=rng.random() < 0.5) if ("ref_rand" in samples and rng.random() < 0.5) else None
    subsets = []
    if which == "both":                  # CorrFuncs made of some of the measured pair counts
        defined = [sb for sb in jk.SUBSETS if len(sb) < 3 and ("dr" in sb or "rr" not in sb)]
        subsets = [list(sb) for sb in rng.sample(defined, rng.choice([1, 2]))]
    rmax = rng.choice([1000.0, 2000.0, 2000.0, 4000.0])
    rmin = rng.choice([50.0, 100.0])
    if rng.random() < 0.2:
        scales = dict(rmin=[rmin, rmin], rmax=[rmax / 2.0, rmax])
    else:
        scales = dict(rmin=[rmin], rmax=[rmax])
    tag = "meas:%s:%s+%s" % (which, mode_ref, mode_rand)
    if weights:
        tag = "meas:weights:%s:%s" % (which, ",".join("%s=%s" % (n, wm[n]) for n in names if wm[n] != "pos"))
    return dict(kind="meas", tag=tag, closed=closed, edges=edges, gaps=gaps,
                scales=scales, samples=samples, ref_auto=ref_auto, unk_auto=unk_auto, subsets=subsets)


def probe_specs():
    """deterministic: three patches, three bins (0.25, 0.5, 0.75, 1.0); the reference sample populates every bin in
    patch 0 (objects on every edge and outside), only the first bin in patch 1 and only the last bin in patch 2; the
    randoms populate every cell (or the complementary ones); the unknown sample has no redshifts.  Isolated fields
    and linked neighbours, both closed sides, reference randoms only / unknown randoms only / both, the reference
    autocorrelation with and without RR, with the n(z) of each"""
    out = []
    edges = [0.25, 0.5, 0.75, 1.0]
    D, H = PATCH_D, PATCH_D / 2
    for closed in ("right", "left"):
        c = (lambda b: edges[b + 1]) if closed == "right" else (lambda b: edges[b])      # the closed edge of bin b
        ref = [[[0.375, 0.5, D], [c(1), 0.5, -D], [0.875, 2.0, H], [0.125, 2.0, -H], [c(0), 1.5, 0.0], [c(2), 0.25, 0.0], [1.25, 4.0, 0.0]],
               [[0.375, 1.0, D], [c(0), 1.0, -D], [0.375, 0.75, 0.0]],
               [[c(2), 2.5, D], [0.875, 2.5, -D], [2.0, 1.0, 0.0], [0.875, 0.125, 0.0]]]
        rand = [[[0.375, 1.0, D], [0.625, 1.0, -D], [0.875, 1.0, H], [c(0), 1.0, -H], [c(1), 1.0, 0.0], [c(2), 1.0, 0.0]]
                for _ in range(3)]
        comp = [[[0.375, 1.0, D], [0.375, 1.0, -D], [0.125, 1.0, 0.0]],
                [[0.625, 2.0, D], [c(2), 2.0, -D], [0.875, 0.5, 0.0], [c(1), 0.5, 0.0]],
                [[0.375, 0.25, D], [c(1), 0.25, -D], [c(0), 3.0, 0.0]]]
        unk = [[[0.0, 1.0, D], [0.0, 1.0, -D], [0.0, 0.25, 0.0]],
               [[0.0, 2.0, D], [0.0, 2.0, -D], [0.0, 0.5, H], [0.0, 0.5, -H]],
               [[0.0, 1.5, D], [0.0, 1.5, -D], [0.0, 4.0, H], [0.0, 4.0, -H], [0.0, 0.125, 0.0]]]
        urand = [[[0.0, 1.0, D], [0.0, 1.0, -D], [0.0, 1.0, H], [0.0, 1.0, -H], [0.0, 1.0, 0.0]] for _ in range(3)]

        def sm(patches, has_z=True, hasw=True):
            return dict(has_z=has_z, hasw=hasw, patches=[[list(o) for o in objs] for objs in patches])
        for gname, gaps in (("isolated", [32.0, 32.0]), ("linked", [0.09375, 0.0625])):
            base = dict(kind="meas", closed=closed, edges=edges, gaps=gaps, scales=dict(rmin=[100.0], rmax=[2000.0]),
                        ref_auto=None, unk_auto=None, subsets=[])
            name = "%s:%s" % (gname, closed)
            out.append(dict(base, tag="meas:probe:ref_rand:" + name,
                            samples=dict(ref=sm(ref), unk=sm(unk, False), ref_rand=sm(rand, hasw=False))))
            out.append(dict(base, tag="meas:probe:unk_rand:" + name,
                            samples=dict(ref=sm(ref), unk=sm(unk, False), unk_rand=sm(urand, False, False))))
            out.append(dict(base, tag="meas:probe:both+auto:" + name, ref_auto=dict(count_rr=closed == "right"),
                            subsets=[["dr", "rr"], ["rd"]] if closed == "right" else [["dr"], ["dr", "rd"]],
                            samples=dict(ref=sm(ref), unk=sm(unk, False), ref_rand=sm(comp if gname == "linked" else rand),
                                         unk_rand=sm(urand, False, False))))
    return out


def weight_probe_specs():
    """deterministic: three patches, two bins (0.25, 0.5, 0.75), objects on bin midpoints.
    masked: the reference objects of patch 1 in the first bin carry weight 0 (masked, not removed), those of patch 2 in the
      second bin weights 1, 1, -2; the unknown sample has one negative weight; every patch keeps a non-zero total and its
      weighted centre (catalogs created with patch_name);
    unk-patch: the unknown objects of patch 1 all carry weight 0 and the unknown randoms of patch 2 cancel; the reference
      randoms carry weight 0 in one cell (catalogs created with patch_centers);
    one-patch: the only non-zero reference weights sit in patch 0; the second bin of the reference randoms weighs nothing."""
    out = []
    edges = [0.25, 0.5, 0.75]
    D, H = PATCH_D, PATCH_D / 2
    a, b = 0.375, 0.625
    ref = [[[a, 1.0, D], [a, 1.0, -D], [b, 2.0, 0.0]],
           [[a, 0.0, D], [a, 0.0, -D], [b, 1.5, 0.0]],
           [[b, 1.0, D], [b, 1.0, -D], [b, -2.0, 0.0], [a, 0.5, 0.0]]]
    ref_one = [[[a, 1.0, D], [b, 1.0, -D], [a, 0.5, H], [b, 0.5, -H], [b, 2.0, 0.0]],
               [[a, 0.0, D], [a, 0.0, -D], [b, 0.0, 0.0]],
               [[b, 0.0, D], [b, 0.0, -D], [a, 0.0, 0.0], [a, 0.0, 0.0]]]
    unk = [[[0.0, 1.0, D], [0.0, 1.0, -D]],
           [[0.0, 2.0, D], [0.0, 2.0, -D], [0.0, -1.0, 0.0]],
           [[0.0, 0.5, D], [0.0, 0.5, -D], [0.0, 3.0, 0.0]]]
    unk_zero = [[[0.0, 1.0, D], [0.0, 1.0, -D]],
                [[0.0, 0.0, D], [0.0, 0.0, -D], [0.0, 0.0, 0.0]],
                [[0.0, 0.5, D], [0.0, 0.5, -D], [0.0, 3.0, 0.0]]]
    rand = [[[a, 1.0, D], [b, 1.0, -D], [a, 1.0, H], [b, 1.0, -H], [a, 1.0, 0.0], [b, 1.0, 0.0]] for _ in range(3)]
    rand_cell = [[[a, 1.0, D], [b, 1.0, -D], [a, 1.0, H], [b, 1.0, -H], [a, 1.0, 0.0], [b, 1.0, 0.0]],
                 [[a, 0.0, D], [b, 2.0, -D], [a, 0.0, H], [b, 0.5, -H], [a, 0.0, 0.0], [b, 1.0, 0.0]],
                 [[a, 1.0, D], [b, 1.0, -D], [a, 0.5, H], [b, 0.5, -H], [a, 2.0, 0.0], [b, 2.0, 0.0]]]
    rand_dead = [[[a, 1.0, D], [b, 0.0, -D], [a, 1.0, H], [b, 0.0, -H], [a, 0.5, 0.0], [b, 0.0, 0.0]] for _ in range(3)]
    urand = [[[0.0, 1.0, D], [0.0, 1.0, -D], [0.0, 1.0, H], [0.0, 1.0, -H], [0.0, 1.0, 0.0]] for _ in range(3)]
    urand_cancel = [[[0.0, 1.0, D], [0.0, 1.0, -D], [0.0, 1.0, H], [0.0, 1.0, -H], [0.0, 1.0, 0.0]],
                    [[0.0, 2.0, D], [0.0, 2.0, -D], [0.0, 0.5, 0.0]],
                    [[0.0, 1.5, D], [0.0, -1.5, -D], [0.0, 1.0, H], [0.0, 0.25, -H], [0.0, -1.25, 0.0]]]

    def sm(patches, has_z=True, hasw=True):
        smp = dict(has_z=has_z, hasw=hasw, patches=[[list(o) for o in objs] for objs in patches])
        smp["centers"] = needs_centers(smp)
        return smp
    for closed, (gname, gaps) in (("right", ("isolated", [32.0, 32.0])), ("left", ("linked", [0.09375, 0.125]))):
        base = dict(kind="meas", closed=closed, edges=edges, gaps=gaps, scales=dict(rmin=[100.0], rmax=[2000.0]),
                    ref_auto=None, unk_auto=None, subsets=[])
        name = "%s:%s" % (gname, closed)
        out.append(dict(base, tag="meas:probe:weights:masked:ref_rand:" + name,
                        samples=dict(ref=sm(ref), unk=sm(unk, False), ref_rand=sm(rand, hasw=False))))
        out.append(dict(base, tag="meas:probe:weights:masked:both+auto:" + name, ref_auto=dict(count_rr=True), subsets=[["dr"], ["dr", "rr"]],
                        samples=dict(ref=sm(ref), unk=sm(unk, False), ref_rand=sm(rand_cell), unk_rand=sm(urand, False, False))))
        out.append(dict(base, tag="meas:probe:weights:unk-patch:both:" + name, subsets=[["rd"], ["dr", "rd"]],
                        samples=dict(ref=sm(ref), unk=sm(unk_zero, False), ref_rand=sm(rand_cell), unk_rand=sm(urand_cancel, False))))
        out.append(dict(base, tag="meas:probe:weights:one-patch:both+auto:" + name, ref_auto=dict(count_rr=closed == "left"),
                        samples=dict(ref=sm(ref_one), unk=sm(unk, False), ref_rand=sm(rand_dead), unk_rand=sm(urand, False, False))))
    return out


def specs(ctx):
    rng = ctx.rng
    out = probe_specs() + weight_probe_specs()
    for _ in range(ctx.n(45, 450)):
        out.append(random_spec(rng))
    for _ in range(ctx.n(22, 220)):      # weights that are zero, of both signs, cancelling in a cell / a bin / a sample
        out.append(random_spec(rng, weights=True))
    return out


# ----------------------------------------------------------------------------- running the implementation
def centres(spec):
    out = [20.0]
    for g in spec["gaps"]:
        out.append(out[-1] + g)
    return out


def frame(spec, sample):
    ra, dec, z, w, pid = [], [], [], [], []
    for p, objs in enumerate(sample["patches"]):
        centre = centres(spec)[p]
        for zz, ww, off in objs:
            ra.append(centre + off)
            dec.append(0.0)
            z.append(zz)
            w.append(ww)
            pid.append(p)
    cols = dict(ra=np.asarray(ra, dtype="f8"), dec=np.asarray(dec, dtype="f8"), pid=np.asarray(pid, dtype="i8"))
    if sample["has_z"]:
        cols["z"] = np.asarray(z, dtype="f8")
    if sample["hasw"]:
        cols["w"] = np.asarray(w, dtype="f8")
    return cols


def observe(ctx, spec, idx):
    """-> dict(refused=str|None, error=str|None, scales=[dict(cross=CorrFunc, ref=CorrFunc|None, unk=CorrFunc|None)])"""
    import yaw
    from yaw.catalog.catalog import InconsistentPatchesError

    impl.set_threads(1)
    dirs, cats = [], {}
    try:
        for name, sample in sorted(spec["samples"].items()):
            d = impl.fresh_dir(ctx, "mcat_%d_%s" % (idx, name))
            dirs.append(d)
            kw = dict(ra_name="ra", dec_name="dec", max_workers=1)
            if sample.get("centers"):    # the nominal patch centres, shared by all catalogs; objects go to the nearest one
                kw["patch_centers"] = impl.AngularCoordinates(np.deg2rad([[c, 0.0] for c in centres(spec)]))
            else:
                kw["patch_name"] = "pid"
            if sample["has_z"]:
                kw["redshift_name"] = "z"
            if sample["hasw"]:
                kw["weight_name"] = "w"
            cats[name] = impl.Catalog.from_dataframe(d, impl.make_df(frame(spec, sample)), **kw)
            assert sorted(int(k) for k in cats[name].keys()) == list(range(len(sample["patches"]))), "patch ids"
            assert [int(cats[name][p].meta.num_records) for p in range(len(sample["patches"]))] == \
                [len(objs) for objs in sample["patches"]], "records per patch"
        conf = impl.Configuration.create(rmin=spec["scales"]["rmin"], rmax=spec["scales"]["rmax"], edges=spec["edges"],
                                         closed=spec["closed"], max_workers=1)
        old = np.seterr(invalid="ignore", divide="ignore")
        try:
            cross = yaw.crosscorrelate(conf, cats["ref"], cats["unk"], ref_rand=cats.get("ref_rand"),
                                       unk_rand=cats.get("unk_rand"), max_workers=1)
            ref = unk = None
            if spec.get("ref_auto"):
                ref = yaw.autocorrelate(conf, cats["ref"], cats["ref_rand"], count_rr=spec["ref_auto"]["count_rr"], max_workers=1)
            if spec.get("unk_auto"):
                unk = yaw.autocorrelate(conf, cats["unk"], cats["unk_rand"], count_rr=spec["unk_auto"]["count_rr"], max_workers=1)
        except InconsistentPatchesError as e:
            return dict(refused="%s: %s" % (type(e).__name__, e), error=None, scales=[])
        except Exception as e:  # noqa: BLE001 - every sample is valid
            return dict(refused=None, error="%s: %s" % (type(e).__name__, e), scales=[], traceback=traceback.format_exc()[-1500:])
        finally:
            np.seterr(**old)
        scales = [dict(cross=cross[k], ref=None if ref is None else ref[k], unk=None if unk is None else unk[k])
                  for k in range(len(cross))]
        return dict(refused=None, error=None, scales=scales)
    finally:
        impl.set_threads(1)
        for d in dirs:
            shutil.rmtree(d, ignore_errors=True)


# ----------------------------------------------------------------------------- Coq terms
def side_name(name, binned):
    return "s_%s_%s" % (name, "b" if binned else "u")


def side_term(sample, binned):
    assert sample["has_z"] or not binned
    return "(Build_side %s %s)" % (fq.b(binned), fq.lst(
        [fq.lst([fq.pair(fq.q(z if sample["has_z"] else 0.0), fq.q(w if sample["hasw"] else 1.0)) for z, w, _ in objs])
         for objs in sample["patches"]]))


def present(role, cf, members=None):
    """the pair-count containers of a CorrFunc (restricted to dd + members)"""
    out = {}
    for k in jk.ALLK:
        cont = getattr(cf, k, None)
        if cont is None or k not in CONT[role]:
            continue
        if members is not None and k != "dd" and k not in members:
            continue
        out[k] = cont
    return out


def mcounts_term(role, k, cont):
    s1, b1, s2, b2, auto = CONT[role][k]
    return "(Build_mcounts %s %s %s %s)" % (fq.b(auto), jk.qmat3(np.asarray(cont.counts.counts, dtype=float)),
                                           side_name(s1, b1), side_name(s2, b2))


def mcf_term(role, conts):
    def o(k):
        return "(Some %s)" % mcounts_term(role, k, conts[k]) if k in conts else "None"
    return "(%s, %s, %s, %s)" % (mcounts_term(role, "dd", conts["dd"]), o("dr"), o("rd"), o("rr"))


def stored_pc(cont):
    sw = cont.sum_weights
    return dict(auto=bool(cont.counts.auto), counts=np.asarray(cont.counts.counts, dtype=float),
                w1=np.asarray(sw.sum_weights1, dtype=float), w2=np.asarray(sw.sum_weights2, dtype=float))


def lets(spec, roles_conts):
    """let-bindings of every (sample, read with / without binning) used by the given containers"""
    used = []
    for role, conts in roles_conts:
        for k in conts:
            s1, b1, s2, b2, _ = CONT[role][k]
            for nb in ((s1, b1), (s2, b2)):
                if nb not in used:
                    used.append(nb)
    return "".join("let %s := %s in " % (side_name(n, b), side_term(spec["samples"][n], b)) for n, b in used)


def head(spec):
    return "%s %s" % (fq.b(spec["closed"] == "right"), fq.qlist(spec["edges"]))


def corr_term(spec, role, conts, impl_term):
    N = len(spec["samples"]["ref"]["patches"])

    def o(k):
        return "(Some %s)" % mcounts_term(role, k, conts[k]) if k in conts else "None"

    def so(k):
        return "(Some %s)" % jk.pc_term(stored_pc(conts[k])) if k in conts else "None"
    return "(%sc04_meas_case %s %s %s %s %s %s %s %s %s %s %s)" % (
        lets(spec, [(role, conts)]), head(spec), fq.nat(N), mcounts_term(role, "dd", conts["dd"]), o("dr"), o("rd"), o("rr"),
        jk.pc_term(stored_pc(conts["dd"])), so("dr"), so("rd"), so("rr"), impl_term)


def nz_term(spec, cf3, nz):
    N = len(spec["samples"]["ref"]["patches"])
    rc = [(role, present(role, cf)) for role, cf in zip(("cross", "ref", "unk"), cf3) if cf is not None]
    by = dict(rc)

    def o(role):
        return "(Some %s)" % mcf_term(role, by[role]) if role in by else "None"
    return "(%sc04_meas_nz_case %s %s %s %s %s %s %s %s)" % (
        lets(spec, rc), head(spec), fq.qlist(cf3[0].binning.dz), fq.nat(N), mcf_term("cross", by["cross"]), o("ref"), o("unk"),
        jk.oqlist(nz.data), jk.oqmat(nz.samples))


# ----------------------------------------------------------------------------- labels and texts (never a verdict)
def cell_counts(spec, sample, binned):
    edges, closed = spec["edges"], spec["closed"]
    nb = len(edges) - 1
    if not binned:
        return [[len(objs) for objs in sample["patches"]] for _ in range(nb)]
    return [[sum(1 for z, _, _ in objs if gen_member(closed, edges, b, z)) for objs in sample["patches"]] for b in range(nb)]


def cell_sums(spec, sample, binned):
    edges, closed = spec["edges"], spec["closed"]
    nb = len(edges) - 1

    def w(o):
        return Fraction(o[1]) if sample["hasw"] else Fraction(1)
    if not binned:
        return [[sum((w(o) for o in objs), Fraction(0)) for objs in sample["patches"]] for _ in range(nb)]
    return [[sum((w(o) for o in objs if gen_member(closed, edges, b, o[0])), Fraction(0)) for objs in sample["patches"]]
            for b in range(nb)]


def weights_text(spec, role, conts):
    """per container: total weight per bin of each side by the records and as the CorrFunc stores it"""
    out = []
    for k, cont in sorted(conts.items()):
        s1, b1, s2, b2, _ = CONT[role][k]
        st = stored_pc(cont)
        for side, (sn, sb), arr in ((1, (s1, b1), st["w1"]), (2, (s2, b2), st["w2"])):
            rec = [float(sum(row)) for row in cell_sums(spec, spec["samples"][sn], sb)]
            sto = [float(x) for x in arr.sum(axis=1)]
            if rec != sto:
                out.append("%s side %d (sample '%s'): total weight per bin of the catalog's records %s, stored in the CorrFunc %s"
                           % (k, side, sn, rec, sto))
    return "; ".join(out) or "the stored weights equal the records' in every bin"


def labels(ctx, spec, role, conts):
    nb = len(spec["edges"]) - 1
    P = len(spec["samples"]["ref"]["patches"])
    partner_empty = dead = zero_cell = zero_bin = zero_sample = negative = zero_obj = centers = False
    for k in conts:
        s1, b1, s2, b2, _ = CONT[role][k]
        n1, n2 = cell_counts(spec, spec["samples"][s1], b1), cell_counts(spec, spec["samples"][s2], b2)
        partner_empty = partner_empty or any((n1[b][p] == 0) != (n2[b][p] == 0) for b in range(nb) for p in range(P))
        dead = dead or any(all(v == 0 for v in row) for row in n1 + n2)
        for (sn, sb), n in (((s1, b1), n1), ((s2, b2), n2)):
            smp = spec["samples"][sn]
            w = cell_sums(spec, smp, sb)
            live = [b for b in range(nb) if sum(w[b]) != 0]
            # a populated cell that weighs nothing in a bin whose total weight is not zero: the term is defined
            zero_cell = zero_cell or any(n[b][p] > 0 and w[b][p] == 0 for b in live for p in range(P))
            zero_bin = zero_bin or any(sum(n[b]) > 0 and sum(w[b]) == 0 for b in range(nb))
            zero_sample = zero_sample or not live
            centers = centers or bool(smp.get("centers"))
            if smp["hasw"]:
                negative = negative or any(o[1] < 0 for objs in smp["patches"] for o in objs)
                zero_obj = zero_obj or any(o[1] == 0 for objs in smp["patches"] for o in objs)
    for name, flag in (("cell-empty-in-one-sample-populated-in-partner", partner_empty), ("bin-empty-in-every-patch", dead),
                       ("populated-cell-of-total-weight-zero-in-a-bin-of-non-zero-weight", zero_cell),
                       ("populated-bin-of-total-weight-zero", zero_bin), ("sample-of-total-weight-zero-in-every-bin", zero_sample),
                       ("negative-weights", negative), ("objects-of-weight-zero", zero_obj), ("catalog-created-with-patch_centers", centers),
                       ("isolated-fields", all(g >= 1.0 for g in spec["gaps"])), ("linked-neighbours", any(g < 1.0 for g in spec["gaps"])),
                       ("two-scales", len(spec["scales"]["rmin"]) > 1)):
        if flag:
            ctx.bump("meas:%s" % name)
    return partner_empty or zero_cell


# ----------------------------------------------------------------------------- handlers
def h_meas(ctx):
    def h(c, case, replay):
        what = replay["what"]
        sub = replay["members"]
        raised = replay["raised"]
        where = "%s of %s (dd+{%s})" % ("CorrFunc.sample()", what, ",".join(sub))
        kindsig = "auto" if replay["role"] != "cross" else "cross"
        if raised is not None:
            ctx.fail("c04-measured-sample-raises:%s" % kindsig, "%s raises %s although the documented estimator is defined for these "
                     "pair counts" % (where, raised), replay, case=case)
            return
        if c & 32:
            ctx.fail("c04-measured-normalisation-not-total-weights:%s" % kindsig,
                     "%s is not the documented estimator of total pair count / (product of the two samples' total weights%s): it is "
                     "that estimator normalised with the weights the CorrFunc stores, which are not the total weights of the catalogs "
                     "that were paired: %s (code %d)" % (where, ", half the squared total for an autocorrelation" if kindsig == "auto" else "",
                                                         replay["weights"], c), replay, case=case)
        elif c & 16:
            ctx.fail("c04-measured-estimator-choice-depends-on-values", "%s: random-random counts are present but the value is the "
                     "estimator applied when rr is absent (code %d)" % (where, c), replay, case=case)
        elif c & 2:
            ctx.fail("c04-measured-estimator-value:%s" % kindsig, "%s .data is not the documented estimator of the measured total pair "
                     "counts divided by the product of the catalogs' total weights; %s (code %d)" % (where, replay["weights"], c),
                     replay, case=case)
        elif c & 4:
            ctx.fail("c04-measured-estimator-samples:%s" % kindsig, "%s .samples are not the estimator of the value applied to the "
                     "pair counts and catalog weights with one patch left out; %s (code %d)" % (where, replay["weights"], c),
                     replay, case=case)
        if c & 1:
            ctx.disagree("c04_meas_case", case, dict(code=c, replay=replay))
    return h


def h_meas_nz(ctx):
    def h(c, case, replay):
        if c & 1:
            ctx.fail("c04-measured-nz-value", "RedshiftData.from_corrfuncs(%s).data is not w_sp / sqrt(dz^2 w_ss w_pp) of the documented "
                     "estimators of the measured pair counts and the catalogs' total weights (absent autocorrelations = 1) (code %d)"
                     % (replay["what"], c), replay, case=case)
        elif c & 2:
            ctx.fail("c04-measured-nz-samples", "RedshiftData.from_corrfuncs(%s).samples are not computed by the formula of the value "
                     "on the jackknife samples of the correlation functions (code %d)" % (replay["what"], c), replay, case=case)
    return h


# ----------------------------------------------------------------------------- cases
def case_corr(ctx, batch, spec, scale, role, cf, members, origin):
    conts = present(role, cf, members)
    sub = [k for k in jk.KINDS if k in conts]
    if members is not None:
        from yaw import CorrFunc
        cf = CorrFunc(conts["dd"], **{k: conts[k] for k in sub})
    raised = None
    try:
        cd = jk.quiet(cf.sample)
        impl_term = "(Some (%s, %s))" % (jk.oqlist(cd.data), jk.oqmat(cd.samples))
        full = jk.all_finite(cd.data)     # jackknife rows of a sparse sample legitimately hold 0/0 (a bin populated in one patch only)
    except Exception as e:  # noqa: BLE001
        raised, impl_term, full, cd = type(e).__name__, "None", True, None
    what = {"cross": "the crosscorrelate result", "ref": "the autocorrelate result of the reference sample",
            "unk": "the autocorrelate result of the unknown sample"}[role] + (" restricted to some pair counts" if members is not None else "")
    replay = dict(kind="meas", spec=spec, scale=scale, role=role, members=sub, origin=origin, raised=raised, what=what,
                  weights=weights_text(spec, role, conts),
                  observed=None if cd is None else dict(data=np.asarray(cd.data).tolist(), samples=np.asarray(cd.samples).tolist()))
    batch.add(corr_term(spec, role, conts, impl_term), h_meas(ctx), replay)
    sparse = labels(ctx, spec, role, conts)
    pairs = all(float(np.abs(np.asarray(c.counts.counts)).sum(axis=(1, 2)).min()) > 0.0 for c in conts.values())
    if pairs:
        ctx.bump("meas:pairs-counted-in-every-bin-of-every-container")
    ctx.count(key=("meas", repr(spec), scale, role, tuple(sub), origin), nontrivial=full and sparse,
              kind="meas/%s/%s/%s%s" % ("cross" if role == "cross" else "auto:" + role, "+".join(sub), origin,
                                       "/raises" if raised else ""))
    if cd is not None:
        ctx.sample(dict(kind="meas", tag=spec.get("tag"), role=role, members=sub, data=np.asarray(cd.data).tolist()), limit=4)
        if not full:
            ctx.bump("meas:data-with-nonfinite-entries")
        if not jk.all_finite(cd.samples):
            ctx.bump("meas:samples-with-nonfinite-entries")


def case_nz(ctx, batch, spec, scale, cf3):
    names = [n for n, c in zip(("cross", "ref", "unk"), cf3) if c is not None]
    replay = dict(kind="meas", spec=spec, scale=scale, role="nz", what=", ".join(names))
    try:
        nz = jk.quiet(jk.RedshiftData.from_corrfuncs, *cf3)
    except Exception as e:  # noqa: BLE001
        ctx.count(key=("meas-nz-raised", repr(spec), scale), kind="meas-nz/raised")
        ctx.fail("c04-measured-nz-raises:%s" % type(e).__name__, "RedshiftData.from_corrfuncs(%s) on measured CorrFuncs raised %s: %s"
                 % (replay["what"], type(e).__name__, e), replay)
        return
    replay["observed"] = dict(data=np.asarray(nz.data).tolist())
    batch.add(nz_term(spec, cf3, nz), h_meas_nz(ctx), replay)
    ctx.count(key=("meas-nz", repr(spec), scale), nontrivial=jk.all_finite(nz.data), kind="meas-nz/%s" % "+".join(names))
    ctx.sample(dict(kind="meas-nz", tag=spec.get("tag"), using=names, nz=np.asarray(nz.data).tolist()), limit=3)


def run_spec(ctx, b_corr, b_nz, spec, idx):
    """all cases of one measurement; returns 'refused' / 'ok'"""
    ctx.bump("meas:measurements")
    ctx.bump("meas:patches:%d" % len(spec["samples"]["ref"]["patches"]))
    # the property speaks about what sampling measured pair counts yields: a catalog that cannot be created or a
    # measurement that raises produces no pair counts and is a refusal here (counted; more than 20% break an obligation)
    try:
        obs = observe(ctx, spec, idx)
    except Exception as e:  # noqa: BLE001
        obs = dict(refused="creation:%s: %s" % (type(e).__name__, e), error=None, traceback=traceback.format_exc()[-1500:])
    if obs["error"]:
        obs["refused"] = "measurement:" + obs["error"]
    if obs["refused"]:
        label = ":".join(obs["refused"].split(":")[:2]) if obs["refused"].split(":")[0] in ("creation", "measurement") \
            else obs["refused"].split(":")[0]
        ctx.bump("meas:refused:" + label)
        if ctx.extra.setdefault("meas_refused_examples", {}).get(label) is None:
            ctx.extra["meas_refused_examples"][label] = dict(tag=spec.get("tag"), message=obs["refused"][:300],
                                                             traceback=obs.get("traceback"))
        return "refused"
    for scale, res in enumerate(obs["scales"]):
        case_corr(ctx, b_corr, spec, scale, "cross", res["cross"], None, "measured")
        for members in spec.get("subsets") or []:
            case_corr(ctx, b_corr, spec, scale, "cross", res["cross"], list(members), "subset")
        for role in ("ref", "unk"):
            if res[role] is not None:
                case_corr(ctx, b_corr, spec, scale, role, res[role], None, "measured")
        case_nz(ctx, b_nz, spec, scale, (res["cross"], res["ref"], res["unk"]))
        if res["ref"] is not None or res["unk"] is not None:
            case_nz(ctx, b_nz, spec, scale, (res["cross"], None, None))
    return "ok"


def run_measured(ctx):
    b_corr = jk.Batch(ctx, "Cases_C04_meas", shard=16)
    b_nz = jk.Batch(ctx, "Cases_C04_meas_nz", shard=10)
    all_specs = specs(ctx)
    refused = 0
    for idx, spec in enumerate(all_specs):
        if run_spec(ctx, b_corr, b_nz, spec, idx) == "refused":
            refused += 1
    ctx.obligation("generator:measurements accepted by the implementation (%d of %d refused)" % (refused, len(all_specs)),
                   refused * 5 <= len(all_specs), "refused: %d" % refused)
    ctx.log("%d measurements on real catalogs done (%d CorrFuncs, %d redshift estimates)" % (len(all_specs), len(b_corr.items), len(b_nz.items)))
    return b_corr, b_nz


def replay(ctx, r):
    b_corr, b_nz = jk.Batch(ctx, "Replay_C04_meas"), jk.Batch(ctx, "Replay_C04_meas_nz")
    run_spec(ctx, b_corr, b_nz, r["spec"], 0)
    b_corr.run()
    b_nz.run()
