"""C13 — results are invariant under rotations, row order, patch labels and weight scale; raw
pair counts are additive.

Tie: metamorphic pairs through the real pipeline (Catalog.from_dataframe -> crosscorrelate /
autocorrelate -> CorrFunc.sample / RedshiftData.from_corrfuncs): a base scenario and its
transformed twin are measured and the public numbers are compared inside Coq (c13_case:
exact for raw counts and everything computed from identical counts, 2^-48 relative after a
weight factor that is not a power of two; c13_additive_case for splits).  Rotations move the
unit vectors by rounding errors, so scenarios in which some pair lies within 2^-40 (relative)
of a scale limit, before or after the rotation, are skipped and counted.

Every comparison is made twice: on the results as measured and on the results after the round trip
users make between measuring and sampling (CorrFunc.to_file -> CorrFunc.from_file, then sample() /
RedshiftData.from_corrfuncs), both runs of a pair taking the same route.  The counts read back are
also held against the model of the stored form (Model/Invariance.v: roundtrip any_nonzero, which
Props/C13.v proves to be the identity and to commute with any weight factor).  Weight factors span
2^-60 .. 2^60 and 1e-10 .. 1e10 on any one of the three catalogs, and a third of the scenarios
start from catalogs whose weights are far from 1 themselves.  Amplitudes that are not numbers
(nan = 0/0 in an empty bin, inf) are compared as well: same non-number in the same place.
"""
import math
import os
import shutil
from fractions import Fraction

import numpy as np

from lib import floatq as fq
from lib import impl
from props.c01 import offset, cluster, scale_of, to_int, thr2, chord, d2, near_tie

ALLOWED_AXIOMS = []
TRUSTED = ["rotation matrices are applied by the harness in float64; near ties are filtered with exact integer chords of the implementation's unit vectors"]
ASSUMPTIONS = ["weights are dyadic (small set times a power of two per catalog); weight factors 2^k (|k| <= 60) are exact, other factors "
               "(3, 1e-10, 1e-8, 1e10, m*10^u) are compared to 2^-40 of the largest entry wherever the base run holds a number",
               "where the base run (exact sums of dyadic numbers) holds 0/0 or x/0 - a jackknife sample that leaves nothing in a bin - the twin after "
               "an inexact factor is not constrained: the code forms leave-one-out sums as total - row - column + diagonal, whose exact 0 becomes a "
               "rounding residual (seen: norm 2.6e-23 instead of 0, nan turns into inf); counted as degenerate_sample_differs_after_inexact_factor"]
RULE = ("cases = (base scenario, transformation in {rotation, row shuffle, centre permutation, weight factor on one of ref/unk/rand, 2-split}), "
        "each compared as measured and after CorrFunc.to_file/from_file; distinct by scenario seed + transformation parameters; "
        "non-trivial when the base measurement has non-zero counts")
HEADER = "From Verif Require Import Prelude Invariance.\nOpen Scope Q_scope.\n"


def rot_matrix(rng, kind):
    def axis_angle(ax, th):
        ax = np.asarray(ax, dtype="f8"); ax /= np.linalg.norm(ax)
        K = np.array([[0, -ax[2], ax[1]], [ax[2], 0, -ax[0]], [-ax[1], ax[0], 0]])
        return np.eye(3) + math.sin(th) * K + (1 - math.cos(th)) * (K @ K)
    if kind == "random":
        return axis_angle([rng.gauss(0, 1) for _ in range(3)], rng.uniform(0, 2 * math.pi))
    if kind == "to_pole":   # base region sits at (ra0, dec0) = (40, 10): rotate it onto the north pole
        return axis_angle([-math.sin(math.radians(40)), math.cos(math.radians(40)), 0], math.radians(80))
    if kind == "across_ra0":
        return axis_angle([0, 0, 1], math.radians(-40.2))
    raise ValueError(kind)


def rotate(pts_deg, R):
    c = impl.AngularCoordinates(np.deg2rad(np.asarray(pts_deg)))
    xyz = c.to_3d() @ R.T
    out = impl.AngularCoordinates.from_3d(xyz).data
    return [(float(np.rad2deg(a)), float(np.rad2deg(b))) for a, b in out]


def make(ctx, name, pts, w, z, centers):
    cols = {"ra": [p[0] for p in pts], "dec": [p[1] for p in pts], "w": w}
    kw = dict(ra_name="ra", dec_name="dec", weight_name="w", patch_centers=centers, max_workers=1)
    # how the table is cut into chunks on ingest is one more arbitrary convention: every creation draws its own
    # chunk size (None = one chunk; otherwise mostly not a divisor of the row count)
    n = len(pts)
    cs = ctx.rng.choice([None, None, max(1, n // 2 + 1), max(1, n // 3 + 1), max(2, n - 1), n, n + 3, 5, 7])
    if cs is not None:
        kw["chunksize"] = cs
    ctx.bump("ingest_chunks:%s" % ("one" if cs is None or cs >= n else "many-exact" if n % cs == 0 else "many-ragged"))
    if z is not None:
        cols["z"] = z; kw["redshift_name"] = "z"
    return impl.Catalog.from_dataframe(impl.fresh_dir(ctx, name), impl.make_df(cols), **kw)


def measure(ctx, cfg, scen, tag):
    """scen: dict(cents, ref=(pts,w,z), unk=(pts,w), rand=(pts,w,z)) -> numbers + catalogs"""
    import yaw
    centers = impl.AngularCoordinates(np.deg2rad(np.asarray(scen["cents"])))
    ref = make(ctx, "ref" + tag, *scen["ref"], centers)
    unk = make(ctx, "unk" + tag, scen["unk"][0], scen["unk"][1], None, centers)
    rand = make(ctx, "rand" + tag, *scen["rand"], centers)
    cross = yaw.crosscorrelate(cfg, ref, unk, ref_rand=rand, max_workers=1)
    auto = yaw.autocorrelate(cfg, ref, rand, max_workers=1)
    out = dict(cats=(ref, unk, rand), cross=cross, auto=auto)
    return out


def flat_counts(cfs):
    out = []
    for cf in cfs:
        for kind in ("dd", "dr", "rd", "rr"):
            nc = getattr(cf, kind)
            if nc is not None:
                out.extend(float(x) for x in nc.counts.counts.ravel())
                out.extend(float(x) for x in nc.sum_weights.sum_weights1.ravel())
                out.extend(float(x) for x in nc.sum_weights.sum_weights2.ravel())
    return out


def flat_sampled(cfs, perm=None):
    """amplitudes, jackknife samples (rows permuted back) and covariance"""
    out = []
    for cf in cfs:
        cd = cf.sample()
        smp = cd.samples if perm is None else cd.samples[perm]
        for arr in (cd.data, smp, cd.covariance):
            out.extend(float(x) for x in np.asarray(arr).ravel())
    return out


def nz(res, perm=None):
    from yaw.redshifts import RedshiftData
    out = []
    for cr, au in zip(res["cross"], res["auto"]):
        # with the reference bias correction (sqrt of the autocorrelation amplitude: often not a number on catalogs
        # this small) and without it (numbers wherever the cross-correlation amplitudes are)
        for rd in (RedshiftData.from_corrfuncs(cr, ref_corr=au), RedshiftData.from_corrfuncs(cr)):
            smp = rd.samples if perm is None else rd.samples[perm]
            out.extend(float(x) for x in np.concatenate([rd.data.ravel(), smp.ravel(), np.asarray(rd.covariance).ravel()]))
    return out


def finite(xs):
    return all(math.isfinite(x) for x in xs)


def pattern(xs):
    """0 finite, 1 nan, 2 +inf, 3 -inf"""
    return [0 if math.isfinite(x) else 1 if math.isnan(x) else 2 if x > 0 else 3 for x in xs]


def numbers(xs):
    return [x if math.isfinite(x) else 0.0 for x in xs]


def cmp_term(mode, b, t):
    """amplitudes / samples / covariances of two runs: values and the places of the non-numbers.
    mode: "exact" (bit for bit, same non-numbers), "scaled" (2^-40 of the largest entry, same non-numbers: sums of dyadic
    numbers taken in another order), "rounded" (2^-40 of the largest entry wherever the base run holds a number: after a
    factor that is not a power of two)"""
    args = "%s %s %s %s" % (fq.nlist(pattern(b)), fq.nlist(pattern(t)), fq.qlist(numbers(b)), fq.qlist(numbers(t)))
    return {"exact": "c13_case_np true ", "scaled": "c13_case_scaled_np ", "rounded": "c13_case_rounded_np "}[mode] + args


def through_files(ctx, res, tag):
    """the same measurement after CorrFunc.to_file / CorrFunc.from_file (what users sample from)"""
    import yaw
    out = dict(cats=res["cats"])
    for key in ("cross", "auto"):
        got = []
        for i, cf in enumerate(res[key]):
            path = os.path.join(ctx.workdir, "cf_%s_%s%d.hdf" % (tag, key, i))
            if os.path.exists(path):
                os.remove(path)
            cf.to_file(path)
            got.append(yaw.CorrFunc.from_file(path))
            os.remove(path)
        out[key] = got
    return out


def count_rows(res):
    """one row per (pair-count table, patch pair): the counts in every bin"""
    rows = []
    for cf in res["cross"] + res["auto"]:
        for kind in ("dd", "dr", "rd", "rr"):
            nc = getattr(cf, kind)
            if nc is not None:
                c = nc.counts.counts
                rows.extend([float(x) for x in c[:, i, j]] for i in range(c.shape[1]) for j in range(c.shape[2]))
    return rows


def observe(res, perm=None):
    return dict(counts=flat_counts(res["cross"] + res["auto"]),
                samp=flat_sampled(res["cross"] + res["auto"], perm),
                nz=nz(res, perm))


# weight factors far from 1: exact ones (powers of two) and others
FAR = [("2^-40", 2.0 ** -40), ("1e-10", 1e-10), ("2^20", 2.0 ** 20), ("2^-27", 2.0 ** -27),
       ("1e10", 1e10), ("2^-20", 2.0 ** -20), ("1e-8", 1e-8), ("2^40", 2.0 ** 40)]


def is_pow2(k):
    return math.frexp(k)[0] == 0.5


def ties(res, cfg, edges):
    """near-tie filter on the exact chords of every pair of every catalog pair"""
    ref, unk, rand = res["cats"]
    zmid = [(a + b) / 2 for a, b in zip(edges[:-1], edges[1:])]
    vecs = {}
    for name, cat in (("ref", ref), ("unk", unk), ("rand", rand)):
        v = []
        for pid, patch in cat.items():
            d = patch.load_data()
            v.extend(impl.AngularCoordinates(np.column_stack([d["ra"], d["dec"]])).to_3d())
        vecs[name] = v
    K = scale_of([np.asarray(v) for v in vecs.values()])
    iv = {k: [[to_int(x, K) for x in p] for p in v] for k, v in vecs.items()}
    thr = []
    for z in zmid:
        amin, amax = cfg.scales.scales.get_angle_radian(z, cosmology=cfg.cosmology)
        thr.extend(thr2(chord(a)[0], K) for a in list(np.atleast_1d(amin)) + list(np.atleast_1d(amax)))
    for a, b in (("ref", "unk"), ("ref", "rand"), ("rand", "unk"), ("ref", "ref"), ("rand", "rand")):
        if near_tie([d2(p, q) for p in iv[a] for q in iv[b]], thr):
            return True
    return False


def cleanup(res):
    for c in res["cats"]:
        shutil.rmtree(str(c.cache_directory), ignore_errors=True)


def run(ctx):
    import yaw
    rng = ctx.rng
    impl.set_threads(1)
    terms, index, cases = [], {}, []
    edges = [0.2, 0.4, 0.6]
    zs = [0.25, 0.3, 0.45, 0.5, 0.55]
    np.seterr(all="ignore")
    ROUTES = (("", ""), ("file", "-after-file-roundtrip"))

    def add(term, cid, meta, sig, what):
        # the same term (e.g. what was read back from a file is bit for bit what was in memory) is evaluated once
        i = index.get(term)
        if i is None:
            i = index[term] = len(terms)
            terms.append(term)
        else:
            ctx.bump("term_shared_with_earlier_case")
        cases.append((i, cid, meta, sig, what))

    def refused(kind, cid, meta, route, exc):
        ctx.fail("c13-%s-twin-refused%s" % (kind, dict(ROUTES)[route]),
                 "the transformed twin of an accepted measurement raises %s: %s" % (type(exc).__name__, str(exc)[:200]),
                 meta, case=cid)

    for sc in range(ctx.n(14, 80)):
        npatch = rng.choice([3, 4])
        unit = rng.choice(["arcmin", "kpc"])
        rmax = 40.0 if unit == "arcmin" else 12000.0
        cfg = yaw.Configuration.create(rmin=rmax / 8, rmax=rmax, unit=unit, edges=edges, max_workers=1)
        cents = [offset(40.0, 10.0, k * 0.9, (k % 2) * 0.5) for k in range(npatch)]
        # the weights of a catalog need not be of order one: every third scenario starts from catalogs whose
        # weights carry a power of two each (exact, so every comparison stays as sharp as before)
        if sc % 3 == 1:
            bexp = {c: rng.choice([-40, -27, -20, 0, 20, 40]) for c in ("ref", "unk", "rand")}
        else:
            bexp = {"ref": 0, "unk": 0, "rand": 0}
        ctx.bump("base_weights:%s" % ("order-one" if not any(bexp.values()) else "far-from-one"))

        def sample(n, with_z, e):
            pts = [p for k in range(npatch) for p in cluster(rng, cents[k][0], cents[k][1], n, 0.4)]
            w = [rng.randrange(1, 9) / 2.0 * 2.0 ** e for _ in pts]
            z = [rng.choice(zs) for _ in pts] if with_z else None
            return pts, w, z
        base = dict(cents=cents, ref=sample(7, True, bexp["ref"]), unk=sample(6, False, bexp["unk"])[:2],
                    rand=sample(7, True, bexp["rand"]))
        try:
            rb = measure(ctx, cfg, base, "b")
        except ValueError as e:
            if "contains no data" in str(e) or "do not match" in str(e):
                ctx.bump("skipped_empty_patch"); continue
            raise
        if ties(rb, cfg, edges):
            ctx.bump("near_tie_skipped"); cleanup(rb); continue
        runs_b = {"": rb, "file": through_files(ctx, rb, "b")}
        ob = {r: observe(runs_b[r]) for r in runs_b}
        add("c13_store_case %s %s" % (fq.qmat(count_rows(rb)), fq.qmat(count_rows(runs_b["file"]))),
            (sc, "base", "file"), dict(scenario=sc, base_weight_exponents=bexp), None, "base")
        nonzero = any(x != 0 for cf in rb["cross"] for x in cf.dd.counts.counts.ravel())
        for name in ("samp", "nz"):
            fin = sum(1 for x in ob[""][name] if math.isfinite(x))
            ctx.bump("base_entries:%s:numbers" % name, fin)
            ctx.bump("base_entries:%s:non-numbers" % name, len(ob[""][name]) - fin)

        # ---- the transformations of this scenario: (name, forced, parameters)
        trs = [(t, False, None) for t in ("rot:random", "rot:to_pole", "rot:across_ra0", "shuffle", "centres")]
        trs += [("weight:unk:%s" % lab, False, ("unk", k)) for lab, k in (("2", 2.0), ("0.25", 0.25), ("3", 3.0))]
        far = [FAR[(2 * sc) % 8], FAR[(2 * sc + 1) % 8]] if ctx.quick() else FAR
        for lab, k in far:
            c = rng.choice(["ref", "unk", "rand"])
            trs.append(("weight:%s:%s" % (c, lab), True, (c, k)))
        for _ in range(ctx.n(1, 2)):
            c = rng.choice(["ref", "unk", "rand"])
            if rng.random() < 0.5:
                e = rng.randint(-60, 60)
                trs.append(("weight:%s:2^%d" % (c, e), True, (c, 2.0 ** e)))
            else:
                m, u = rng.choice([3.0, 0.7, 1.9, 5.5]), rng.randint(-12, 12)
                trs.append(("weight:%s:%ge%d" % (c, m, u), True, (c, m * 10.0 ** u)))
        trs.append(("split", False, None))

        for tr, forced, par in trs:
            if ctx.quick() and not forced and rng.random() < 0.35:
                continue
            cid = (sc, tr)
            kind = tr.split(":")[0]
            t = dict(base)
            perm = None
            exact = True
            meta0 = dict(scenario=sc, transform=tr, unit=unit, npatch=npatch, base_weight_exponents=bexp)
            try:
                if kind == "rot":
                    R = rot_matrix(rng, tr.split(":")[1])
                    t = dict(cents=rotate(cents, R), ref=(rotate(base["ref"][0], R),) + base["ref"][1:],
                             unk=(rotate(base["unk"][0], R), base["unk"][1]), rand=(rotate(base["rand"][0], R),) + base["rand"][1:])
                elif tr == "shuffle":
                    def sh(tup):
                        idx = list(range(len(tup[0]))); rng.shuffle(idx)
                        return tuple(None if col is None else [col[i] for i in idx] for col in tup)
                    t = dict(cents=cents, ref=sh(base["ref"]), unk=sh(base["unk"]), rand=sh(base["rand"]))
                elif tr == "centres":
                    p = list(range(npatch))
                    while p == list(range(npatch)):
                        rng.shuffle(p)
                    t = dict(base, cents=[cents[i] for i in p])   # new patch j is old patch p[j]
                    perm = [p.index(i) for i in range(npatch)]      # old patch i is new patch perm[i]
                    meta0["perm"] = perm
                elif kind == "weight":
                    which, k = par
                    old = base[which]
                    t = dict(base, **{which: (old[0], [x * k for x in old[1]]) + tuple(old[2:])})
                    exact = is_pow2(k)
                    meta0.update(catalog=which, factor=float(k).hex(), factor_is_power_of_two=exact)
                if tr == "split":
                    n = len(base["unk"][0]); mask = [rng.random() < 0.5 for _ in range(n)]
                    parts = []
                    ok = True
                    for flag in (True, False):
                        sub = ([p for p, m in zip(base["unk"][0], mask) if m == flag], [w for w, m in zip(base["unk"][1], mask) if m == flag])
                        if not sub[0]:
                            ok = False; break
                        parts.append(measure(ctx, cfg, dict(base, unk=sub), "s%d" % flag))
                    if not ok:
                        for pr in parts: cleanup(pr)
                        continue
                    for route, suffix in ROUTES:
                        rcid = cid + ((route,) if route else ())
                        try:
                            ps = parts if not route else [through_files(ctx, pr, "s%d" % i) for i, pr in enumerate(parts)]
                        except Exception as e:   # the whole was written and read back, a part of it is not
                            refused("split", rcid, dict(meta0, route=route or "memory"), route, e); continue
                        whole = [float(x) for cf in runs_b[route]["cross"] for x in cf.dd.counts.counts.ravel()]
                        p1 = [float(x) for cf in ps[0]["cross"] for x in cf.dd.counts.counts.ravel()]
                        p2 = [float(x) for cf in ps[1]["cross"] for x in cf.dd.counts.counts.ravel()]
                        add("c13_additive_case %s %s %s" % (fq.qlist(whole), fq.qlist(p1), fq.qlist(p2)), rcid,
                            dict(meta0, route=route or "memory"), "c13-counts-not-additive" + suffix,
                            "counts of a catalog split into two disjoint catalogs do not add up to the unsplit counts")
                    ctx.count(key=(sc, tr), nontrivial=nonzero, kind="split")
                    for pr in parts: cleanup(pr)
                    continue
                rt = measure(ctx, cfg, t, "t")
            except ValueError as e:
                if "contains no data" in str(e) or "do not match" in str(e):
                    ctx.bump("skipped_empty_patch"); continue
                raise
            if kind == "rot" and ties(rt, cfg, edges):
                ctx.bump("near_tie_skipped"); cleanup(rt); continue
            ctx.count(key=(sc, tr), nontrivial=nonzero, kind=kind)
            if kind == "weight":
                ctx.bump("weight_factor:%s" % ("power-of-two" if exact else "other") + (":far" if abs(math.log2(par[1])) >= 20 else ":near"))
            # ---- compare, as measured and after the file round trip (both runs of the pair take the same route)
            for route, suffix in ROUTES:
                rcid = cid + ((route,) if route else ())
                meta = dict(meta0, route=route or "memory")
                b = ob[route]
                try:
                    rr = rt if not route else through_files(ctx, rt, "t")
                    o = observe(rr, perm)
                except Exception as e:
                    refused(kind, rcid, meta, route, e); continue
                if route:
                    add("c13_store_case %s %s" % (fq.qmat(count_rows(rt)), fq.qmat(count_rows(rr))), rcid, meta, None, "twin")
                if tr == "centres":
                    # patches relabelled: totals, amplitudes and covariance equal; samples permute accordingly
                    tb = [float(np.sum(nc.counts.counts[b_])) for cf in runs_b[route]["cross"] for nc in (cf.dd, cf.rd) for b_ in range(len(edges) - 1)]
                    tt = [float(np.sum(nc.counts.counts[b_])) for cf in rr["cross"] for nc in (cf.dd, cf.rd) for b_ in range(len(edges) - 1)]
                    add("c13_case true %s %s" % (fq.qlist(tb), fq.qlist(tt)), rcid, meta, "c13-relabel-changes-counts" + suffix,
                        "relabelling patches changes the total pair counts")
                    add(cmp_term("scaled", b["samp"], o["samp"]), rcid, meta, "c13-relabel-changes-samples" + suffix,
                        "relabelling patches changes amplitudes / covariance or does not permute the jackknife samples accordingly")
                elif kind == "weight":
                    add(cmp_term("exact" if exact else "rounded", b["samp"], o["samp"]), rcid, meta, "c13-weight-scale-changes-amplitudes" + suffix,
                        "multiplying all weights of one catalog by a positive constant changes the correlation amplitudes / jackknife samples / covariance")
                    add(cmp_term("exact" if exact else "rounded", b["nz"], o["nz"]), rcid, meta, "c13-weight-scale-changes-nz" + suffix,
                        "multiplying all weights of one catalog by a positive constant changes the redshift estimate")
                else:
                    sig = "c13-rotation-changes-counts" if kind == "rot" else "c13-row-order-changes-counts"
                    add("c13_case true %s %s" % (fq.qlist(b["counts"]), fq.qlist(o["counts"])), rcid, meta, sig + suffix,
                        "a rigid rotation / a row permutation of all catalogs changes the raw pair counts or weight sums")
                    add(cmp_term("exact", b["samp"] + b["nz"], o["samp"] + o["nz"]), rcid, meta, sig.replace("counts", "amplitudes") + suffix,
                        "a rigid rotation / a row permutation changes amplitudes, redshift estimate or covariance")
                if not (finite(b["samp"]) and finite(b["nz"])):
                    ctx.bump("cases_with_non_numbers_compared")
                if kind == "weight" and not exact and (pattern(b["samp"]) != pattern(o["samp"]) or pattern(b["nz"]) != pattern(o["nz"])):
                    ctx.bump("degenerate_sample_differs_after_inexact_factor")   # 0/0 in the base run, residual/0 or 0/residual in the twin
            ctx.sample(dict(scenario=sc, transform=tr, unit=unit, npatch=npatch, base_weight_exponents=bexp), limit=4)
            cleanup(rt)
        cleanup(rb)
    ctx.log("%d distinct terms for %d comparisons" % (len(terms), len(cases)))
    codes = ctx.shards("Cases_C13", HEADER, terms, shard=25)
    failing_file_case = {}
    for i, cid, meta, sig, what in cases:
        c = codes[i]
        if c and sig is not None:
            ctx.fail(sig, "%s (code %d)" % (what, c), meta, case=cid)
            if cid[-1] == "file":
                failing_file_case.setdefault(cid[0], cid)
    # what was read back against the model of the stored form: a correspondence, not the property itself
    for i, cid, meta, sig, what in cases:
        c = codes[i]
        if c and sig is None:
            case = failing_file_case.get(cid[0], cid) if what == "base" else cid
            ctx.disagree("c13-stored-counts-differ-from-model", case,
                         dict(meta, code=c, what="counts read back from CorrFunc.from_file are not the stored form (rows with a non-zero count) of what was written"))
