"""C13 — results are invariant under rotations, row order, patch labels and weight scale; raw
pair counts are additive.

Tie: metamorphic pairs through the real pipeline (Catalog.from_dataframe -> crosscorrelate /
autocorrelate -> CorrFunc.sample / RedshiftData.from_corrfuncs): a base scenario and its
transformed twin are measured and the public numbers are compared inside Coq (c13_case:
exact for raw counts and everything computed from identical counts, 2^-48 relative after a
weight factor that is not a power of two; c13_additive_case for splits).  Rotations move the
unit vectors by rounding errors, so scenarios in which some pair lies within 2^-40 (relative)
of a scale limit, before or after the rotation, are skipped and counted.
"""
import math
import shutil
from fractions import Fraction

import numpy as np

from lib import floatq as fq
from lib import impl
from props.c01 import offset, cluster, scale_of, to_int, thr2, chord, d2, near_tie

ALLOWED_AXIOMS = []
TRUSTED = ["rotation matrices are applied by the harness in float64; near ties are filtered with exact integer chords of the implementation's unit vectors"]
ASSUMPTIONS = ["weights are dyadic; weight factors 2^k are exact, factor 3 is compared to 2^-48 relative"]
RULE = ("cases = (base scenario, transformation in {rotation, row shuffle, centre permutation, weight factor, 2-split}); distinct by "
        "scenario seed + transformation parameters; non-trivial when the base measurement has non-zero counts")
HEADER = "From Verif Require Import Prelude Invariance.\nOpen Scope Q_scope.\n"


def rot_matrix(rng, kind):
    def axis_angle(ax, th):
        ax = np.asarray(ax, dtype="f8"); ax /= np.linalg.norm(ax)
        K = np.array([[0, -ax[2], ax[1]], [ax[2], 0, -ax[0]], [-ax[1], ax[0], 0]])
        return np.eye(3) + math.sin(th) * K + (1 - math.cos(th)) * (K @ K)
    if kind == "random":
        return axis_angle([rng.gauss(0, 1) for _ in range(3)], rng.uniform(0, 2 * math.pi))
    if kind == "to_pole":   # base region sits at (ra0, dec0) = (40, 10): rotate it onto the north pole
        return axis_angle([-math.sin(math.radians(40)), math.cos(math.radians(40)), 0], math.radians(80))
    if kind == "across_ra0":
        return axis_angle([0, 0, 1], math.radians(-40.2))
    raise ValueError(kind)


def rotate(pts_deg, R):
    c = impl.AngularCoordinates(np.deg2rad(np.asarray(pts_deg)))
    xyz = c.to_3d() @ R.T
    out = impl.AngularCoordinates.from_3d(xyz).data
    return [(float(np.rad2deg(a)), float(np.rad2deg(b))) for a, b in out]


def make(ctx, name, pts, w, z, centers):
    cols = {"ra": [p[0] for p in pts], "dec": [p[1] for p in pts], "w": w}
    kw = dict(ra_name="ra", dec_name="dec", weight_name="w", patch_centers=centers, max_workers=1)
    # how the table is cut into chunks on ingest is one more arbitrary convention: every creation draws its own
    # chunk size (None = one chunk; otherwise mostly not a divisor of the row count)
    n = len(pts)
    cs = ctx.rng.choice([None, None, max(1, n // 2 + 1), max(1, n // 3 + 1), max(2, n - 1), n, n + 3, 5, 7])
    if cs is not None:
        kw["chunksize"] = cs
    ctx.bump("ingest_chunks:%s" % ("one" if cs is None or cs >= n else "many-exact" if n % cs == 0 else "many-ragged"))
    if z is not None:
        cols["z"] = z; kw["redshift_name"] = "z"
    return impl.Catalog.from_dataframe(impl.fresh_dir(ctx, name), impl.make_df(cols), **kw)


def measure(ctx, cfg, scen, tag):
    """scen: dict(cents, ref=(pts,w,z), unk=(pts,w), rand=(pts,w,z)) -> numbers + catalogs"""
    import yaw
    centers = impl.AngularCoordinates(np.deg2rad(np.asarray(scen["cents"])))
    ref = make(ctx, "ref" + tag, *scen["ref"], centers)
    unk = make(ctx, "unk" + tag, scen["unk"][0], scen["unk"][1], None, centers)
    rand = make(ctx, "rand" + tag, *scen["rand"], centers)
    cross = yaw.crosscorrelate(cfg, ref, unk, ref_rand=rand, max_workers=1)
    auto = yaw.autocorrelate(cfg, ref, rand, max_workers=1)
    out = dict(cats=(ref, unk, rand), cross=cross, auto=auto)
    return out


def flat_counts(cfs):
    out = []
    for cf in cfs:
        for kind in ("dd", "dr", "rd", "rr"):
            nc = getattr(cf, kind)
            if nc is not None:
                out.extend(float(x) for x in nc.counts.counts.ravel())
                out.extend(float(x) for x in nc.sum_weights.sum_weights1.ravel())
                out.extend(float(x) for x in nc.sum_weights.sum_weights2.ravel())
    return out


def flat_sampled(cfs, perm=None):
    """amplitudes, jackknife samples (rows permuted back) and covariance"""
    out = []
    for cf in cfs:
        cd = cf.sample()
        smp = cd.samples if perm is None else cd.samples[perm]
        for arr in (cd.data, smp, cd.covariance):
            out.extend(float(x) for x in np.asarray(arr).ravel())
    return out


def nz(res, perm=None):
    from yaw.redshifts import RedshiftData
    out = []
    for cr, au in zip(res["cross"], res["auto"]):
        rd = RedshiftData.from_corrfuncs(cr, ref_corr=au)
        smp = rd.samples if perm is None else rd.samples[perm]
        out.extend(float(x) for x in np.concatenate([rd.data.ravel(), smp.ravel()]))
    return out


def finite(xs):
    return all(math.isfinite(x) for x in xs)


def ties(res, cfg, edges):
    """near-tie filter on the exact chords of every pair of every catalog pair"""
    ref, unk, rand = res["cats"]
    zmid = [(a + b) / 2 for a, b in zip(edges[:-1], edges[1:])]
    vecs = {}
    for name, cat in (("ref", ref), ("unk", unk), ("rand", rand)):
        v = []
        for pid, patch in cat.items():
            d = patch.load_data()
            v.extend(impl.AngularCoordinates(np.column_stack([d["ra"], d["dec"]])).to_3d())
        vecs[name] = v
    K = scale_of([np.asarray(v) for v in vecs.values()])
    iv = {k: [[to_int(x, K) for x in p] for p in v] for k, v in vecs.items()}
    thr = []
    for z in zmid:
        amin, amax = cfg.scales.scales.get_angle_radian(z, cosmology=cfg.cosmology)
        thr.extend(thr2(chord(a)[0], K) for a in list(np.atleast_1d(amin)) + list(np.atleast_1d(amax)))
    for a, b in (("ref", "unk"), ("ref", "rand"), ("rand", "unk"), ("ref", "ref"), ("rand", "rand")):
        if near_tie([d2(p, q) for p in iv[a] for q in iv[b]], thr):
            return True
    return False


def cleanup(res):
    for c in res["cats"]:
        shutil.rmtree(str(c.cache_directory), ignore_errors=True)


def run(ctx):
    import yaw
    rng = ctx.rng
    impl.set_threads(1)
    terms, metas = [], []
    edges = [0.2, 0.4, 0.6]
    zs = [0.25, 0.3, 0.45, 0.5, 0.55]
    np.seterr(all="ignore")
    for sc in range(ctx.n(14, 80)):
        npatch = rng.choice([3, 4])
        unit = rng.choice(["arcmin", "kpc"])
        rmax = 40.0 if unit == "arcmin" else 12000.0
        cfg = yaw.Configuration.create(rmin=rmax / 8, rmax=rmax, unit=unit, edges=edges, max_workers=1)
        cents = [offset(40.0, 10.0, k * 0.9, (k % 2) * 0.5) for k in range(npatch)]

        def sample(n, with_z):
            pts = [p for k in range(npatch) for p in cluster(rng, cents[k][0], cents[k][1], n, 0.4)]
            w = [rng.randrange(1, 9) / 2.0 for _ in pts]
            z = [rng.choice(zs) for _ in pts] if with_z else None
            return pts, w, z
        base = dict(cents=cents, ref=sample(7, True), unk=sample(6, False)[:2], rand=sample(7, True))
        try:
            rb = measure(ctx, cfg, base, "b")
        except ValueError as e:
            if "contains no data" in str(e) or "do not match" in str(e):
                ctx.bump("skipped_empty_patch"); continue
            raise
        if ties(rb, cfg, edges):
            ctx.bump("near_tie_skipped"); cleanup(rb); continue
        b_counts, b_samp, b_nz = flat_counts(rb["cross"] + rb["auto"]), flat_sampled(rb["cross"] + rb["auto"]), nz(rb)
        nonzero = any(x != 0 for cf in rb["cross"] for x in cf.dd.counts.counts.ravel())
        for tr in ["rot:random", "rot:to_pole", "rot:across_ra0", "shuffle", "centres", "weight:2", "weight:0.25", "weight:3", "split"]:
            if ctx.quick() and rng.random() < 0.35:
                continue
            cid = (sc, tr)
            t = dict(base)
            perm = None
            exact = True
            try:
                if tr.startswith("rot"):
                    R = rot_matrix(rng, tr.split(":")[1])
                    t = dict(cents=rotate(cents, R), ref=(rotate(base["ref"][0], R),) + base["ref"][1:],
                             unk=(rotate(base["unk"][0], R), base["unk"][1]), rand=(rotate(base["rand"][0], R),) + base["rand"][1:])
                elif tr == "shuffle":
                    def sh(tup):
                        idx = list(range(len(tup[0]))); rng.shuffle(idx)
                        return tuple(None if col is None else [col[i] for i in idx] for col in tup)
                    t = dict(cents=cents, ref=sh(base["ref"]), unk=sh(base["unk"]), rand=sh(base["rand"]))
                elif tr == "centres":
                    p = list(range(npatch))
                    while p == list(range(npatch)):
                        rng.shuffle(p)
                    t = dict(base, cents=[cents[i] for i in p])   # new patch j is old patch p[j]
                    perm = [p.index(i) for i in range(npatch)]      # old patch i is new patch perm[i]
                elif tr.startswith("weight"):
                    k = float(tr.split(":")[1])
                    t = dict(base, unk=(base["unk"][0], [x * k for x in base["unk"][1]]))
                    exact = k != 3.0
                if tr == "split":
                    n = len(base["unk"][0]); mask = [rng.random() < 0.5 for _ in range(n)]
                    parts = []
                    ok = True
                    for flag in (True, False):
                        sub = ([p for p, m in zip(base["unk"][0], mask) if m == flag], [w for w, m in zip(base["unk"][1], mask) if m == flag])
                        if not sub[0]:
                            ok = False; break
                        parts.append(measure(ctx, cfg, dict(base, unk=sub), "s%d" % flag))
                    if not ok:
                        for pr in parts: cleanup(pr)
                        continue
                    whole = [float(x) for cf in rb["cross"] for x in cf.dd.counts.counts.ravel()]
                    p1 = [float(x) for cf in parts[0]["cross"] for x in cf.dd.counts.counts.ravel()]
                    p2 = [float(x) for cf in parts[1]["cross"] for x in cf.dd.counts.counts.ravel()]
                    terms.append("c13_additive_case %s %s %s" % (fq.qlist(whole), fq.qlist(p1), fq.qlist(p2)))
                    metas.append((cid, dict(scenario=sc, transform=tr, unit=unit), "c13-counts-not-additive",
                                  "counts of a catalog split into two disjoint catalogs do not add up to the unsplit counts"))
                    ctx.count(key=(sc, tr), nontrivial=nonzero, kind="split")
                    for pr in parts: cleanup(pr)
                    continue
                rt = measure(ctx, cfg, t, "t")
            except ValueError as e:
                if "contains no data" in str(e) or "do not match" in str(e):
                    ctx.bump("skipped_empty_patch"); continue
                raise
            if tr.startswith("rot") and ties(rt, cfg, edges):
                ctx.bump("near_tie_skipped"); cleanup(rt); continue
            ctx.count(key=(sc, tr), nontrivial=nonzero, kind=tr.split(":")[0])
            # ---- compare
            if tr == "centres":
                # patches relabelled: totals, amplitudes and covariance equal; samples permute accordingly
                tb = [float(np.sum(nc.counts.counts[b])) for cf in rb["cross"] for nc in (cf.dd, cf.rd) for b in range(len(edges) - 1)]
                tt = [float(np.sum(nc.counts.counts[b])) for cf in rt["cross"] for nc in (cf.dd, cf.rd) for b in range(len(edges) - 1)]
                terms.append("c13_case true %s %s" % (fq.qlist(tb), fq.qlist(tt)))
                metas.append((cid + ("totals",), dict(scenario=sc, transform=tr), "c13-relabel-changes-counts", "relabelling patches changes the total pair counts"))
                ts = flat_sampled(rt["cross"] + rt["auto"], perm)
                if finite(b_samp) and finite(ts):
                    terms.append("c13_case_scaled %s %s" % (fq.qlist(b_samp), fq.qlist(ts)))
                    metas.append((cid + ("samples",), dict(scenario=sc, transform=tr, perm=perm), "c13-relabel-changes-samples",
                                  "relabelling patches changes amplitudes / covariance or does not permute the jackknife samples accordingly"))
            elif tr.startswith("weight"):
                ts, tn = flat_sampled(rt["cross"]), nz(rt)
                bs = flat_sampled(rb["cross"])
                if finite(bs) and finite(ts):
                    terms.append(("c13_case true %s %s" if exact else "c13_case_scaled %s %s") % (fq.qlist(bs), fq.qlist(ts)))
                    metas.append((cid + ("amp",), dict(scenario=sc, transform=tr), "c13-weight-scale-changes-amplitudes",
                                  "multiplying all weights of one catalog by a positive constant changes the correlation amplitudes / covariance"))
                if finite(b_nz) and finite(tn):
                    terms.append(("c13_case true %s %s" if exact else "c13_case_scaled %s %s") % (fq.qlist(b_nz), fq.qlist(tn)))
                    metas.append((cid + ("nz",), dict(scenario=sc, transform=tr), "c13-weight-scale-changes-nz",
                                  "multiplying all weights of one catalog by a positive constant changes the redshift estimate"))
            else:
                tc = flat_counts(rt["cross"] + rt["auto"])
                sig = "c13-rotation-changes-counts" if tr.startswith("rot") else "c13-row-order-changes-counts"
                terms.append("c13_case true %s %s" % (fq.qlist(b_counts), fq.qlist(tc)))
                metas.append((cid + ("counts",), dict(scenario=sc, transform=tr, unit=unit), sig,
                              "a rigid rotation / a row permutation of all catalogs changes the raw pair counts or weight sums"))
                ts, tn = flat_sampled(rt["cross"] + rt["auto"]), nz(rt)
                if finite(b_samp) and finite(ts) and finite(b_nz) and finite(tn):
                    terms.append("c13_case true %s %s" % (fq.qlist(b_samp + b_nz), fq.qlist(ts + tn)))
                    metas.append((cid + ("samples",), dict(scenario=sc, transform=tr, unit=unit), sig.replace("counts", "amplitudes"),
                                  "a rigid rotation / a row permutation changes amplitudes, redshift estimate or covariance"))
            ctx.sample(dict(scenario=sc, transform=tr, unit=unit, npatch=npatch), limit=4)
            cleanup(rt)
        cleanup(rb)
    codes = ctx.shards("Cases_C13", HEADER, terms, shard=25)
    for (cid, meta, sig, what), c in zip(metas, codes):
        if c:
            ctx.fail(sig, "%s (code %d)" % (what, c), meta, case=cid)
