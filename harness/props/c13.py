"""C13 — results are invariant under rotations, row order, patch labels and weight scale; raw
pair counts are additive.

Tie: metamorphic pairs through the real pipeline (Catalog.from_dataframe -> crosscorrelate /
autocorrelate -> CorrFunc.sample / RedshiftData.from_corrfuncs): a base scenario and its
transformed twin are measured and the public numbers are compared inside Coq (c13_case:
exact for raw counts and everything computed from identical counts, 2^-48 relative after a
weight factor that is not a power of two; c13_additive_case for splits).  Rotations move the
unit vectors by rounding errors, so scenarios in which some pair lies within 2^-40 (relative)
of a scale limit, before or after the rotation, are skipped and counted.

Every comparison is made twice: on the results as measured and on the results after the round trip
users make between measuring and sampling (CorrFunc.to_file -> CorrFunc.from_file, then sample() /
RedshiftData.from_corrfuncs), both runs of a pair taking the same route.  The counts read back are
also held against the model of the stored form (Model/Invariance.v: roundtrip any_nonzero, which
Props/C13.v proves to be the identity and to commute with any weight factor).  Weight factors span
2^-60 .. 2^60 and 1e-10 .. 1e10 on any one of the three catalogs, and a third of the scenarios
start from catalogs whose weights are far from 1 themselves.  Amplitudes that are not numbers
(nan = 0/0 in an empty bin, inf) are compared as well: same non-number in the same place.

The coordinate convention of the INPUT is one more arbitrary convention (transformations "conv:*"): the same sky
positions - of the base field, of the field turned so that the RA = 0 meridian cuts it between patches or runs
through all of them, of the field turned onto a pole - are given in degrees or in radian (degrees=False), with the right ascension in [0, period), in
(-period/2, period/2] (what arctan2 returns), shifted by +-period as a whole or by an own multiple of the period per
object (period = 360 deg / 2 pi), for all catalogs or only one of them, the centres (always radian) in the same
re-expressed form or not.  The unchanged code accepts every finite right ascension (no range check: deg2rad, then
cos / sin), so all of these are inputs it takes; declinations stay in [-90, 90].  Each twin is compared with the
base run the way a rotation is (raw counts and everything sampled from them exact, near ties skipped), and the
positions the catalogs stored are held against the model of the reading function (Model/Invariance.v: read, periodic
in the right ascension and blind to the unit, Props/C13.v C13_count_ra_convention ...): stored unit vectors of the twin
= unit vectors of the same points given in degrees within [0, 360], to 2^-40 (rows of a catalog paired by distance).

Catalogs with extents of their own (scenarios "extent", generators in props/c13_extents.py): the catalogs of a measurement
share the patch centres, not the footprint.  After the scenarios above (all catalogs drawn from the same box per patch,
patches so close that every pair of them is linked whatever the radii) come scenarios in which, per patch, the data reach
beyond the randoms or stay inside them, one catalog is much sparser, which of ref / unk / rand holds the most rows is drawn,
and neighbouring centres are just so far apart that the patches hold counted pairs only through the wider catalog (and some
are too far apart to be linked at all): there the set of patch pairs the code visits depends on the extents of all
catalogs and on which of them is the largest.  Applied there: rotation and row shuffle as usual, the relabelling twice
(reversed centre list: every patch pair changes its order; a drawn permutation; totals of every table of both
measurements and the sampled results compared), and splits of any of the three catalogs - of the largest one into about
halves, so that another catalog is the largest in the measurements of the parts - with every table that is a sum over the
pairs of the split catalog with another one (unk: cross dd, rd; ref: cross dd, auto dr; rand: cross rd, auto dr).  The
histogram "extent:*:patch_pairs_holding_pairs:*" says, from the positions alone, how the patch pairs that hold counted
pairs relate to the extents (ordinary / either-side / one-sided / bridge, see props/c13_extents.py).  Model:
Model/Invariance.v linked_count / covers / link_sym / reach; Props/C13.v C13_linked_count_relabel_extents,
C13_linked_count_additive_extents(_first), C13_reach_covers, C13_one_sided_link_refuted.

Catalog SIZE together with row order (scenarios "large", props/c13_big.py, run first): all of the above use catalogs of a few
dozen rows, so nothing the code might do differently for large inputs - patch metadata (centre, radius: they decide the linkage)
taken from a part of the rows, rows at chunk boundaries, trees of a subset - is reached.  There one catalog (ref / unk / rand)
has one or two patches of 2*10^5 .. 10^6 rows: a tight core plus ONE row far out whose position in the table is drawn (first,
last, odd / even, chunk boundary, ...) and which alone decides that two patches have to be visited.  Checked: the metadata of
every patch created against their definitions over ALL rows (radius, covering, row count, weight sum, centre), twins (rows
permuted / reversed / shifted by one / sorted / the far row moved, rotation, relabelling), splits into smaller catalogs, every
count table against a brute-force count over all pairs, and the linkage against the patch pairs that hold counted pairs.
Model: Model/InvarianceSize.v (radius_all, radius_sub, radius_probe, reach_by, c13_meta_case, c13_links_case); Props/C13.v
C13_radius_row_perm, C13_radius_chunks, C13_radius_covers / _least, C13_reach_row_perm, C13_link_row_perm,
C13_linked_count_all_rows(_perm, _split), C13_radius_sub_lower_bound, C13_radius_probe_small_sizes,
C13_radius_stride_order_refuted, C13_radius_first_rows_order_refuted, C13_probe_link_refuted.

The SHAPE of the patch linkage graph (scenarios "graph", props/c13_graph.py, run second): all of the above use layouts in which every patch
is linked with every other one or patches lie on a line with about as many neighbours each, so nothing that depends on how many links a patch
has relative to the others (the round-robin job iterator empties a dictionary of link sets in sweeps) is reached.  There: a hub linked with
3 .. 11 patches that are not linked among themselves, two hubs, a hub with a chain leading away from it, isolated patches, layouts drawn at
random; 4 .. 12 patches, labels a random order.  Checked on the base run and on every twin (centre list permuted, rotation, row shuffle): the
job lists of cross- and autocorrelation against every-linked-pair-once for a linkage computed by brute force (Model/RoundRobinGraph.v
c13_jobs_case over Model/RoundRobin.v jobs_spec), every table against a brute-force count, twin against base.  Props/C13.v C13_jobs_relabel_cross,
C13_jobs_relabel_auto_members, C13_stop_at_one_key_star_loses, C13_stop_at_one_key_label_dependent, C13_graph_concrete.
"""
import math
import os
import shutil
from fractions import Fraction

import numpy as np

from lib import floatq as fq
from lib import impl
from props.c01 import offset, cluster, scale_of, to_int, thr2, chord, d2, near_tie
from props import c13_extents as cx
from props import c13_big
from props import c13_graph

ALLOWED_AXIOMS = []
TRUSTED = ["rotation matrices are applied by the harness in float64; near ties are filtered with exact integer chords of the implementation's unit vectors",
           "large patches (props/c13_big.py): unit vectors, separations, the largest separation per block of 65536 rows and the brute-force pair counts "
           "are computed by the harness in float64 numpy from the degrees it hands over; near ties are filtered on these squared chords (10^-7 relative)",
           "linkage graphs (props/c13_graph.py): owner of a row (nearest centre), patch radii, link tests and brute-force pair counts are computed by the "
           "harness in float64 numpy from the degrees it hands over; rows within 10^-9 (relative) of the middle between two centres, link tests within "
           "10^-9 of equality and squared chords within 10^-9 of a scale limit make the scenario be skipped (counted)"]
ASSUMPTIONS = ["weights are dyadic (small set times a power of two per catalog); weight factors 2^k (|k| <= 60) are exact, other factors "
               "(3, 1e-10, 1e-8, 1e10, m*10^u) are compared to 2^-40 of the largest entry wherever the base run holds a number",
               "where the base run (exact sums of dyadic numbers) holds 0/0 or x/0 - a jackknife sample that leaves nothing in a bin - the twin after "
               "an inexact factor is not constrained: the code forms leave-one-out sums as total - row - column + diagonal, whose exact 0 becomes a "
               "rounding residual (seen: norm 2.6e-23 instead of 0, nan turns into inf); counted as degenerate_sample_differs_after_inexact_factor",
               "input conventions: right ascensions are finite values within three periods of [0, period) (the code has no range check on them), "
               "declinations within [-90 deg, 90 deg]; a twin in another convention moves the stored unit vectors by rounding errors only, so it is "
               "filtered for near ties and compared exactly, like a rotation",
               "large patches: the stored radius is compared to 2^-30 relative with the largest separation of any row from the stored centre (two float64 "
               "routes agree to about 10^-12 there), a centre computed as a mean over up to 10^6 rows to 2^-20 of the radius; weights are multiples of 1/2 "
               "(all sums exact); autocorrelations of a catalog with a large patch are not run (counting inside a core of 10^5+ rows takes minutes)"]
RULE = ("cases = (base scenario, transformation in {rotation, row shuffle, centre permutation, weight factor on one of ref/unk/rand, 2-split, "
        "input convention: field (base / cut by the RA=0 meridian / laid along it / on a pole) x unit (deg / rad) x RA range (canonical / signed / +-period / "
        "own multiple per object) x catalogs (all / one) x centres (canonical / re-expressed)}), "
        "plus scenarios with an own extent per catalog and patch (data beyond / inside the randoms, one sparse catalog, any of the three the largest, "
        "centre gaps at the limit of the linkage) x {rotation, row shuffle, reversed and drawn centre permutation, split of any catalog (even / uneven)}; "
        "plus scenarios with one or two patches of 2*10^5 .. 10^6 rows in one catalog (tight core + one far row at a drawn row position that alone links two "
        "patches; given centres / patch ids; ingest chunk size drawn) x {base, rows shuffled / reversed / shifted by one / sorted / far row moved, rotation, "
        "relabelling, split of the large catalog (random, even-odd, halves)}, each with metadata of every patch against their definitions over all rows and "
        "count tables against brute force; "
        "plus scenarios by the shape of the patch linkage graph (star with 3..11 leaves / two hubs / hub with a chain / isolated patches / drawn at random; "
        "4..12 patches, labels in a random order; leaves sharing counted pairs with the hub or linked by its radius alone) x {base, centre list permuted "
        "(two permutations), rotation, row shuffle}, each with the job lists of cross- and autocorrelation against every-linked-pair-once for a brute-force "
        "linkage and every table against a brute-force count; "
        "each compared as measured and after CorrFunc.to_file/from_file (large patches: as measured); distinct by scenario seed + transformation parameters; "
        "non-trivial when the base measurement has non-zero counts")
HEADER = "From Verif Require Import Prelude Invariance.\nOpen Scope Q_scope.\n"


def axis_angle(ax, th):
    ax = np.asarray(ax, dtype="f8"); ax /= np.linalg.norm(ax)
    K = np.array([[0, -ax[2], ax[1]], [ax[2], 0, -ax[0]], [-ax[1], ax[0], 0]])
    return np.eye(3) + math.sin(th) * K + (1 - math.cos(th)) * (K @ K)


def rot_matrix(rng, kind):
    if kind == "random":
        return axis_angle([rng.gauss(0, 1) for _ in range(3)], rng.uniform(0, 2 * math.pi))
    if kind == "to_pole":   # base region sits at (ra0, dec0) = (40, 10): rotate it onto the north pole
        return axis_angle([-math.sin(math.radians(40)), math.cos(math.radians(40)), 0], math.radians(80))
    if kind == "across_ra0":
        return axis_angle([0, 0, 1], math.radians(-40.2))
    raise ValueError(kind)


def rotate(pts_deg, R):
    c = impl.AngularCoordinates(np.deg2rad(np.asarray(pts_deg)))
    xyz = c.to_3d() @ R.T
    out = impl.AngularCoordinates.from_3d(xyz).data
    return [(float(np.rad2deg(a)), float(np.rad2deg(b))) for a, b in out]


# ---- the coordinate convention of the input
PERIOD = {"deg": 360.0, "rad": 2.0 * math.pi}
RA_RANGES = ("canonical", "signed", "plus", "minus", "mixed")


def field_rotation(rng, field, cents):
    """where the field is put before it is re-expressed: left alone, turned about the z axis so that the RA = 0
    meridian cuts it (through the neighbourhood of a centre: whole patches on either side), laid along the meridian
    (every patch on both sides), or turned so that a point of it sits on a pole"""
    if field == "base":
        return np.eye(3), {}
    c = rng.choice(cents)
    if field == "across_ra0":
        cut = c[0] + rng.uniform(-0.35, 0.35)
        return axis_angle([0, 0, 1], -math.radians(cut)), dict(meridian_through_ra=float(cut).hex())
    if field == "along_ra0":
        # the chain of patches runs east-west: a quarter turn about the middle of the field lays it north-south, then the
        # middle goes onto the meridian, which now passes through every patch
        mid = (sum(q[0] for q in cents) / len(cents), sum(q[1] for q in cents) / len(cents))
        v = impl.AngularCoordinates(np.deg2rad(np.asarray([mid]))).to_3d()[0]
        turn = rng.choice([1.0, -1.0]) * math.radians(90.0 + rng.uniform(-10.0, 10.0))
        cut = mid[0] + rng.uniform(-0.15, 0.15)
        return axis_angle([0, 0, 1], -math.radians(cut)) @ axis_angle(v, turn), dict(turn_about_field_middle=float(turn).hex(),
                                                                                      meridian_through_ra=float(cut).hex())
    if field == "pole":
        p = offset(c[0], c[1], rng.uniform(-0.3, 0.3), rng.uniform(-0.3, 0.3))
        v = impl.AngularCoordinates(np.deg2rad(np.asarray([p]))).to_3d()[0]
        sign = rng.choice([1.0, -1.0])
        pole = np.array([0.0, 0.0, sign])
        R = axis_angle(np.cross(v, pole), math.acos(max(-1.0, min(1.0, float(v @ pole)))))
        spin = rng.uniform(0, 2 * math.pi)
        return axis_angle([0, 0, 1], spin) @ R, dict(point_on_pole=[float(x).hex() for x in p], pole="north" if sign > 0 else "south",
                                                      spin=float(spin).hex())
    raise ValueError(field)


def reexpress(rng, pts_deg, unit, ra_range):
    """the same sky positions (given in degrees, RA in [0, 360]) in another convention the code accepts: unit deg / rad,
    RA in [0, period) (canonical), (-period/2, period/2] (signed), all + period, all - period, an own multiple per object"""
    per = PERIOD[unit]
    out = []
    for ra, dec in pts_deg:
        a, d = (ra, dec) if unit == "deg" else (float(np.deg2rad(ra)), float(np.deg2rad(dec)))
        if ra_range == "signed":
            a = a - per if a > per / 2 else a
        elif ra_range == "plus":
            a = a + per
        elif ra_range == "minus":
            a = a - per
        elif ra_range == "mixed":
            a = a + rng.choice([-2, -1, -1, 0, 1, 1, 2]) * per
        elif ra_range != "canonical":
            raise ValueError(ra_range)
        out.append((a, d))
    return out


def stored_vecs(res):
    """unit vectors of the positions the catalogs hold: per catalog, patches in id order, rows as stored"""
    vecs = {}
    for name, cat in zip(("ref", "unk", "rand"), res["cats"]):
        v = []
        for pid, patch in sorted(cat.items(), key=lambda kv: int(kv[0])):
            d = patch.load_data()
            v.extend(impl.AngularCoordinates(np.column_stack([d["ra"], d["dec"]])).to_3d())
        vecs[name] = v
    return vecs


def paired(u, s):
    """rows of s (stored unit vectors, any order) paired with the rows of u (the positions handed over): nearest first"""
    if len(u) != len(s):
        return [float(x) for x in u.ravel()], [float(x) for x in s.ravel()]
    free = list(range(len(s)))
    out = []
    for row in u:
        j = min(free, key=lambda k: float(np.sum((s[k] - row) ** 2)))
        free.remove(j)
        out.extend(float(x) for x in s[j])
    return [float(x) for x in u.ravel()], out


def make(ctx, name, pts, w, z, centers, degrees=True):
    cols = {"ra": [p[0] for p in pts], "dec": [p[1] for p in pts], "w": w}
    kw = dict(ra_name="ra", dec_name="dec", weight_name="w", patch_centers=centers, max_workers=1)
    if not degrees:
        kw["degrees"] = False
    # how the table is cut into chunks on ingest is one more arbitrary convention: every creation draws its own
    # chunk size (None = one chunk; otherwise mostly not a divisor of the row count)
    n = len(pts)
    cs = ctx.rng.choice([None, None, max(1, n // 2 + 1), max(1, n // 3 + 1), max(2, n - 1), n, n + 3, 5, 7])
    if cs is not None:
        kw["chunksize"] = cs
    ctx.bump("ingest_chunks:%s" % ("one" if cs is None or cs >= n else "many-exact" if n % cs == 0 else "many-ragged"))
    if z is not None:
        cols["z"] = z; kw["redshift_name"] = "z"
    return impl.Catalog.from_dataframe(impl.fresh_dir(ctx, name), impl.make_df(cols), **kw)


def measure(ctx, cfg, scen, tag):
    """scen: dict(cents, ref=(pts,w,z), unk=(pts,w), rand=(pts,w,z)) -> numbers + catalogs
    optional: radian = names of the catalogs whose points are given in radian (degrees=False),
    cents_rad = the centres as given (radian, any RA range) instead of deg2rad(cents)"""
    import yaw
    if scen.get("cents_rad") is not None:
        centers = impl.AngularCoordinates(np.asarray(scen["cents_rad"], dtype="f8"))
    else:
        centers = impl.AngularCoordinates(np.deg2rad(np.asarray(scen["cents"])))
    rad = scen.get("radian", ())
    ref = make(ctx, "ref" + tag, *scen["ref"], centers, degrees="ref" not in rad)
    unk = make(ctx, "unk" + tag, scen["unk"][0], scen["unk"][1], None, centers, degrees="unk" not in rad)
    rand = make(ctx, "rand" + tag, *scen["rand"], centers, degrees="rand" not in rad)
    cross = yaw.crosscorrelate(cfg, ref, unk, ref_rand=rand, max_workers=1)
    auto = yaw.autocorrelate(cfg, ref, rand, max_workers=1)
    out = dict(cats=(ref, unk, rand), cross=cross, auto=auto)
    return out


def flat_counts(cfs):
    out = []
    for cf in cfs:
        for kind in ("dd", "dr", "rd", "rr"):
            nc = getattr(cf, kind)
            if nc is not None:
                out.extend(float(x) for x in nc.counts.counts.ravel())
                out.extend(float(x) for x in nc.sum_weights.sum_weights1.ravel())
                out.extend(float(x) for x in nc.sum_weights.sum_weights2.ravel())
    return out


def flat_sampled(cfs, perm=None):
    """amplitudes, jackknife samples (rows permuted back) and covariance"""
    out = []
    for cf in cfs:
        cd = cf.sample()
        smp = cd.samples if perm is None else cd.samples[perm]
        for arr in (cd.data, smp, cd.covariance):
            out.extend(float(x) for x in np.asarray(arr).ravel())
    return out


def nz(res, perm=None):
    from yaw.redshifts import RedshiftData
    out = []
    for cr, au in zip(res["cross"], res["auto"]):
        # with the reference bias correction (sqrt of the autocorrelation amplitude: often not a number on catalogs
        # this small) and without it (numbers wherever the cross-correlation amplitudes are)
        for rd in (RedshiftData.from_corrfuncs(cr, ref_corr=au), RedshiftData.from_corrfuncs(cr)):
            smp = rd.samples if perm is None else rd.samples[perm]
            out.extend(float(x) for x in np.concatenate([rd.data.ravel(), smp.ravel(), np.asarray(rd.covariance).ravel()]))
    return out


def finite(xs):
    return all(math.isfinite(x) for x in xs)


def pattern(xs):
    """0 finite, 1 nan, 2 +inf, 3 -inf"""
    return [0 if math.isfinite(x) else 1 if math.isnan(x) else 2 if x > 0 else 3 for x in xs]


def numbers(xs):
    return [x if math.isfinite(x) else 0.0 for x in xs]


def cmp_term(mode, b, t):
    """amplitudes / samples / covariances of two runs: values and the places of the non-numbers.
    mode: "exact" (bit for bit, same non-numbers), "scaled" (2^-40 of the largest entry, same non-numbers: sums of dyadic
    numbers taken in another order), "rounded" (2^-40 of the largest entry wherever the base run holds a number: after a
    factor that is not a power of two)"""
    args = "%s %s %s %s" % (fq.nlist(pattern(b)), fq.nlist(pattern(t)), fq.qlist(numbers(b)), fq.qlist(numbers(t)))
    return {"exact": "c13_case_np true ", "scaled": "c13_case_scaled_np ", "rounded": "c13_case_rounded_np "}[mode] + args


def through_files(ctx, res, tag):
    """the same measurement after CorrFunc.to_file / CorrFunc.from_file (what users sample from)"""
    import yaw
    out = dict(cats=res["cats"])
    for key in ("cross", "auto"):
        got = []
        for i, cf in enumerate(res[key]):
            path = os.path.join(ctx.workdir, "cf_%s_%s%d.hdf" % (tag, key, i))
            if os.path.exists(path):
                os.remove(path)
            cf.to_file(path)
            got.append(yaw.CorrFunc.from_file(path))
            os.remove(path)
        out[key] = got
    return out


def count_rows(res):
    """one row per (pair-count table, patch pair): the counts in every bin"""
    rows = []
    for cf in res["cross"] + res["auto"]:
        for kind in ("dd", "dr", "rd", "rr"):
            nc = getattr(cf, kind)
            if nc is not None:
                c = nc.counts.counts
                rows.extend([float(x) for x in c[:, i, j]] for i in range(c.shape[1]) for j in range(c.shape[2]))
    return rows


# the tables that are sums over the pairs of one catalog with ANOTHER one: additive when that catalog is split
ADDITIVE = {"unk": (("cross", "dd"), ("cross", "rd")), "ref": (("cross", "dd"), ("auto", "dr")), "rand": (("cross", "rd"), ("auto", "dr"))}


def totals(res, nbins):
    """per table and redshift bin the counts summed over all patch pairs"""
    out = []
    for key, tabs in (("cross", ("dd", "rd")), ("auto", ("dd", "dr", "rr"))):
        for cf in res[key]:
            for tab in tabs:
                nc = getattr(cf, tab)
                if nc is not None:
                    out.extend(float(np.sum(nc.counts.counts[b])) for b in range(nbins))
    return out


def observe(res, perm=None):
    return dict(counts=flat_counts(res["cross"] + res["auto"]),
                samp=flat_sampled(res["cross"] + res["auto"], perm),
                nz=nz(res, perm))


# weight factors far from 1: exact ones (powers of two) and others
FAR = [("2^-40", 2.0 ** -40), ("1e-10", 1e-10), ("2^20", 2.0 ** 20), ("2^-27", 2.0 ** -27),
       ("1e10", 1e10), ("2^-20", 2.0 ** -20), ("1e-8", 1e-8), ("2^40", 2.0 ** 40)]


def is_pow2(k):
    return math.frexp(k)[0] == 0.5


def ties(res, cfg, edges, vecs=None):
    """near-tie filter on the exact chords of every pair of every catalog pair"""
    zmid = [(a + b) / 2 for a, b in zip(edges[:-1], edges[1:])]
    vecs = vecs if vecs is not None else stored_vecs(res)
    K = scale_of([np.asarray(v) for v in vecs.values()])
    iv = {k: [[to_int(x, K) for x in p] for p in v] for k, v in vecs.items()}
    thr = []
    for z in zmid:
        amin, amax = cfg.scales.scales.get_angle_radian(z, cosmology=cfg.cosmology)
        thr.extend(thr2(chord(a)[0], K) for a in list(np.atleast_1d(amin)) + list(np.atleast_1d(amax)))
    for a, b in (("ref", "unk"), ("ref", "rand"), ("rand", "unk"), ("ref", "ref"), ("rand", "rand")):
        if near_tie([d2(p, q) for p in iv[a] for q in iv[b]], thr):
            return True
    return False


def cleanup(res):
    for c in res["cats"]:
        shutil.rmtree(str(c.cache_directory), ignore_errors=True)


def run(ctx):
    """the family with large patches first (props/c13_big.py; its shards are evaluated while the other families run, and
    reported whatever happens to those), then the shapes of the patch linkage graph (props/c13_graph.py), then everything else"""
    import threading
    import yaw
    impl.set_threads(1)
    np.seterr(all="ignore")
    big_terms, big_report = c13_big.run_big(ctx, yaw, c13_big.EDGES)
    ctx.log("large patches: %d terms" % len(big_terms))
    box = {}
    th = threading.Thread(target=lambda: box.update(codes=ctx.shards("Cases_C13_large", c13_big.HEADER, big_terms, shard=60)))
    th.start()
    try:
        # the shape of the patch linkage graph (props/c13_graph.py): its shards are evaluated while the small families run
        g_terms, g_report = c13_graph.run_graph(ctx, yaw)
        ctx.log("linkage graphs: %d terms" % len(g_terms))
        gbox = {}
        gth = threading.Thread(target=lambda: gbox.update(codes=ctx.shards("Cases_C13_graph", c13_graph.HEADER, g_terms, shard=40)))
        gth.start()
        try:
            run_small(ctx)
        finally:
            gth.join()
            if gbox.get("codes") is not None:
                g_report(gbox["codes"])
    finally:
        th.join()
        if box.get("codes") is not None:
            big_report(box["codes"])


def run_small(ctx):
    import yaw
    rng = ctx.rng
    impl.set_threads(1)
    terms, index, cases = [], {}, []
    edges = [0.2, 0.4, 0.6]
    zs = [0.25, 0.3, 0.45, 0.5, 0.55]
    np.seterr(all="ignore")
    ROUTES = (("", ""), ("file", "-after-file-roundtrip"))

    def add(term, cid, meta, sig, what):
        # the same term (e.g. what was read back from a file is bit for bit what was in memory) is evaluated once
        i = index.get(term)
        if i is None:
            i = index[term] = len(terms)
            terms.append(term)
        else:
            ctx.bump("term_shared_with_earlier_case")
        cases.append((i, cid, meta, sig, what))

    def refused(kind, cid, meta, route, exc):
        ctx.fail("c13-%s-twin-refused%s" % (kind, dict(ROUTES)[route]),
                 "the transformed twin of an accepted measurement raises %s: %s" % (type(exc).__name__, str(exc)[:200]),
                 meta, case=cid)

    n_std, n_ext = ctx.n(14, 80), ctx.n(6, 20)
    for sc in range(n_std + n_ext):
        ext = sc >= n_std       # catalogs with their own extent per patch (props/c13_extents.py), after all the others
        npatch = rng.choice([3, 4]) if not ext else None
        unit = rng.choice(["arcmin", "kpc"])
        rmax = 40.0 if unit == "arcmin" else 12000.0
        cfg = yaw.Configuration.create(rmin=rmax / 8, rmax=rmax, unit=unit, edges=edges, max_workers=1)
        owners, layout_meta = None, None
        if not ext:
            cents = [offset(40.0, 10.0, k * 0.9, (k % 2) * 0.5) for k in range(npatch)]
            # the weights of a catalog need not be of order one: every third scenario starts from catalogs whose
            # weights carry a power of two each (exact, so every comparison stays as sharp as before)
            if sc % 3 == 1:
                bexp = {c: rng.choice([-40, -27, -20, 0, 20, 40]) for c in ("ref", "unk", "rand")}
            else:
                bexp = {"ref": 0, "unk": 0, "rand": 0}
            ctx.bump("base_weights:%s" % ("order-one" if not any(bexp.values()) else "far-from-one"))

            def sample(n, with_z, e):
                pts = [p for k in range(npatch) for p in cluster(rng, cents[k][0], cents[k][1], n, 0.4)]
                w = [rng.randrange(1, 9) / 2.0 * 2.0 ** e for _ in pts]
                z = [rng.choice(zs) for _ in pts] if with_z else None
                return pts, w, z
            base = dict(cents=cents, ref=sample(7, True, bexp["ref"]), unk=sample(6, False, bexp["unk"])[:2],
                        rand=sample(7, True, bexp["rand"]))
        else:
            # p = the largest counted angle [deg]: the upper scale limit at the centre of the first redshift bin;
            # lam * p = the angle a linkage has to allow for (the code: the limit at the lower end of the redshift range, if larger)
            upper = lambda z: float(np.rad2deg(np.max(cfg.scales.scales.get_angle_radian(z, cosmology=cfg.cosmology)[1])))
            p_deg = max(upper((a + b) / 2) for a, b in zip(edges[:-1], edges[1:]))
            lam = max(p_deg, upper(edges[0])) / p_deg
            bexp = {"ref": 0, "unk": 0, "rand": 0}
            lay, drawn, hist, special = cx.draw(rng, p_deg, lam)
            if not special:
                ctx.bump("extent:no_patch_pair_beyond_the_largest_catalog_found")
            npatch, cents = lay["npatch"], lay["cents"]
            owners = {c: drawn[c][1] for c in cx.CATS}

            def cols(c, with_z):
                pts, own = drawn[c]
                w = [rng.randrange(1, 9) / 2.0 for _ in pts]
                # the first two objects of a patch sit near the tips of its strip: first redshift bin, where p is counted
                z = [rng.choice(zs[:2]) if (i < 2 or own[i - 2] != own[i]) else rng.choice(zs) for i in range(len(pts))] if with_z else None
                return pts, w, z
            base = dict(cents=cents, ref=cols("ref", True), unk=cols("unk", False)[:2], rand=cols("rand", True))
            layout_meta = dict(cx.describe(lay), largest_counted_angle_deg=float(p_deg).hex(), linkage_angle_over_it=round(lam, 4),
                               patch_pairs_beyond_the_largest_catalog=[list(x) for x in special[:8]])
            for lk, h in hist.items():
                for kk, v in h.items():
                    ctx.bump("extent:%s:patch_pairs_holding_pairs:%s" % (lk, kk), v)
            ctx.bump("extent:largest=%s:sparse=%s" % tuple(next(c for c in cx.CATS if lay["role"][c] == r) for r in ("largest", "sparse")))
            for c in cx.CATS:
                if lay["role"][c] != "largest":
                    big = next(b for b in cx.CATS if lay["role"][b] == "largest")
                    wider = sum(1 for k in range(npatch) for sd in (0, 1) if lay["extent"][c][k][sd][1] > lay["extent"][big][k][sd][1])
                    narrower = sum(1 for k in range(npatch) for sd in (0, 1) if lay["extent"][c][k][sd][1] < lay["extent"][big][k][sd][1])
                    ctx.bump("extent:patch_sides_wider_than_largest", wider)
                    ctx.bump("extent:patch_sides_narrower_than_largest", narrower)
        try:
            rb = measure(ctx, cfg, base, "b")
        except ValueError as e:
            if "contains no data" in str(e) or "do not match" in str(e):
                ctx.bump("skipped_empty_patch"); continue
            raise
        if ties(rb, cfg, edges):
            ctx.bump("near_tie_skipped"); cleanup(rb); continue
        runs_b = {"": rb, "file": through_files(ctx, rb, "b")}
        ob = {r: observe(runs_b[r]) for r in runs_b}
        add("c13_store_case %s %s" % (fq.qmat(count_rows(rb)), fq.qmat(count_rows(runs_b["file"]))),
            (sc, "base", "file"), dict(scenario=sc, base_weight_exponents=bexp), None, "base")
        nonzero = any(x != 0 for cf in rb["cross"] for x in cf.dd.counts.counts.ravel())
        for name in ("samp", "nz"):
            fin = sum(1 for x in ob[""][name] if math.isfinite(x))
            ctx.bump("base_entries:%s:numbers" % name, fin)
            ctx.bump("base_entries:%s:non-numbers" % name, len(ob[""][name]) - fin)

        # ---- the transformations of this scenario: (name, forced, parameters)
        if not ext:
            trs = [(t, False, None) for t in ("rot:random", "rot:to_pole", "rot:across_ra0", "shuffle", "centres")]
            trs += [("weight:unk:%s" % lab, False, ("unk", k)) for lab, k in (("2", 2.0), ("0.25", 0.25), ("3", 3.0))]
            far = [FAR[(2 * sc) % 8], FAR[(2 * sc + 1) % 8]] if ctx.quick() else FAR
            for lab, k in far:
                c = rng.choice(["ref", "unk", "rand"])
                trs.append(("weight:%s:%s" % (c, lab), True, (c, k)))
            for _ in range(ctx.n(1, 2)):
                c = rng.choice(["ref", "unk", "rand"])
                if rng.random() < 0.5:
                    e = rng.randint(-60, 60)
                    trs.append(("weight:%s:2^%d" % (c, e), True, (c, 2.0 ** e)))
                else:
                    m, u = rng.choice([3.0, 0.7, 1.9, 5.5]), rng.randint(-12, 12)
                    trs.append(("weight:%s:%ge%d" % (c, m, u), True, (c, m * 10.0 ** u)))
            trs.append(("split", False, None))
            # the coordinate convention of the input: field x unit x RA range x catalogs x centres
            def conv(field, unit, ra_range, which, centres):
                if field == "base" and ra_range == "signed":
                    ra_range = "minus"          # RA about 40 deg: (-180, 180] is [0, 360) there
                if unit == "deg" and ra_range == "canonical":
                    ra_range = "plus"           # degrees in [0, 360) is what every other twin is given
                crange = None if not centres else ra_range if ra_range != "canonical" else "minus" if field == "base" else "signed"
                name = "conv:%s:%s:%s:%s:%s" % (field, unit, ra_range, which, "centres-" + crange if centres else "centres-canonical")
                return (name, True, dict(field=field, unit=unit, range=ra_range, which=which, crange=crange))
            WHICH = ("all", "all", "ref", "unk", "rand")
            cv = [conv("along_ra0", "rad", "signed", "all", sc % 2 == 1),       # what arctan2 gives for a field on the meridian
                  conv("pole", rng.choice(["deg", "rad"]), rng.choice(RA_RANGES[1:]), rng.choice(WHICH), rng.random() < 0.5),
                  conv("base", "rad", "canonical", rng.choice(WHICH), False)]   # the unit alone: stored values bit for bit
            for _ in range(ctx.n(1, 4)):
                cv.append(conv(rng.choice(["base", "across_ra0", "across_ra0", "along_ra0", "pole"]), rng.choice(["deg", "rad"]), rng.choice(RA_RANGES),
                               rng.choice(WHICH), rng.random() < 0.5))
            if not ctx.quick():
                cv.append(conv("across_ra0", "deg", "signed", rng.choice(WHICH), sc % 2 == 0))
                cv.append(conv("across_ra0", "rad", rng.choice(["minus", "mixed"]), rng.choice(WHICH[2:]), False))
            seen = set()
            trs += [c for c in cv if not (c[0] in seen or seen.add(c[0]))]
        else:
            # catalogs with extents of their own: the usual rotation and row shuffle, the relabelling twice (the reversed centre
            # list swaps the order of every patch pair; a drawn permutation), and splits of ANY of the three catalogs - of the
            # largest one into about halves (another catalog becomes the largest: the geometry is taken from elsewhere), of
            # another one evenly or unevenly; thorough tier: the third catalog too, and the largest one unevenly
            big = max(cx.CATS, key=lambda c: len(base[c][0]))
            trs = [("rot:random", False, None), ("shuffle", False, None), ("centres:reverse", True, "reverse"), ("centres:random", True, "random")]
            f_big = rng.choice([0.4, 0.5, 0.6])        # about halves: mostly another catalog is the largest of each part's measurement
            other = rng.choice([c for c in cx.CATS if c != big])
            splits = [(big, f_big), (other, rng.choice([0.15, 0.5, 0.85]))]
            if not ctx.quick():
                third = next(c for c in cx.CATS if c not in (big, other))
                splits += [(third, rng.choice([0.15, 0.5, 0.85])), (big, rng.choice([0.15, 0.85]))]
            trs += [("split:%s:%g" % (c, f), True, (c, f)) for c, f in splits]

        for tr, forced, par in trs:
            if ctx.quick() and not forced and rng.random() < 0.35:
                continue
            cid = (sc, tr)
            kind = tr.split(":")[0]
            t = dict(base)
            perm = None
            exact = True
            meta0 = dict(scenario=sc, transform=tr, unit=unit, npatch=npatch, base_weight_exponents=bexp)
            if ext:
                meta0["catalog_extents"] = layout_meta
            try:
                if kind == "rot":
                    R = rot_matrix(rng, tr.split(":")[1])
                    t = dict(cents=rotate(cents, R), ref=(rotate(base["ref"][0], R),) + base["ref"][1:],
                             unk=(rotate(base["unk"][0], R), base["unk"][1]), rand=(rotate(base["rand"][0], R),) + base["rand"][1:])
                elif tr == "shuffle":
                    def sh(tup):
                        idx = list(range(len(tup[0]))); rng.shuffle(idx)
                        return tuple(None if col is None else [col[i] for i in idx] for col in tup)
                    t = dict(cents=cents, ref=sh(base["ref"]), unk=sh(base["unk"]), rand=sh(base["rand"]))
                elif kind == "centres":
                    p = list(range(npatch))
                    if par == "reverse":
                        p.reverse()
                    while p == list(range(npatch)):
                        rng.shuffle(p)
                    t = dict(base, cents=[cents[i] for i in p])   # new patch j is old patch p[j]
                    perm = [p.index(i) for i in range(npatch)]      # old patch i is new patch perm[i]
                    meta0["perm"] = perm
                elif kind == "weight":
                    which, k = par
                    old = base[which]
                    t = dict(base, **{which: (old[0], [x * k for x in old[1]]) + tuple(old[2:])})
                    exact = is_pow2(k)
                    meta0.update(catalog=which, factor=float(k).hex(), factor_is_power_of_two=exact)
                elif kind == "conv":
                    R, rpar = field_rotation(rng, par["field"], cents)
                    moved = (lambda pts: rotate(pts, R)) if par["field"] != "base" else (lambda pts: [tuple(q) for q in pts])
                    names = ("ref", "unk", "rand") if par["which"] == "all" else (par["which"],)
                    t = dict(cents=moved(cents), radian=names if par["unit"] == "rad" else ())
                    negative = outside = 0
                    canon = {}
                    for c in ("ref", "unk", "rand"):
                        pts = canon[c] = moved(base[c][0])
                        if c in names:
                            pts = reexpress(rng, pts, par["unit"], par["range"])
                            negative += sum(1 for q in pts if q[0] < 0)
                            outside += sum(1 for q in pts if not 0 <= q[0] < PERIOD[par["unit"]])
                        t[c] = (pts,) + tuple(base[c][1:])
                    if par["crange"]:
                        t["cents_rad"] = reexpress(rng, t["cents"], "rad", par["crange"])
                    meta0.update(field=par["field"], field_rotation=rpar, unit=par["unit"], ra_range=par["range"], catalogs=par["which"],
                                 centres_ra_range=par["crange"] or "canonical", rows_with_negative_ra=negative,
                                 rows_with_ra_outside_one_period=outside)
                if kind == "split":
                    which, frac = par if par else ("unk", None)
                    n = len(base[which][0])
                    if frac is None:
                        mask = [rng.random() < 0.5 for _ in range(n)]
                    else:
                        mask = cx.split_mask(rng, owners[which], frac)   # both parts keep every patch populated
                        if mask is None:
                            ctx.bump("split_skipped:patch_with_one_object"); continue
                        meta0.update(split_catalog=which, rows_of_parts=[sum(mask), n - sum(mask)],
                                     rows_of_catalogs={c: len(base[c][0]) for c in cx.CATS})
                    parts = []
                    ok = True
                    for flag in (True, False):
                        sub = tuple(None if col is None else [x for x, m in zip(col, mask) if m == flag] for col in base[which])
                        if not sub[0]:
                            ok = False; break
                        parts.append(measure(ctx, cfg, dict(base, **{which: sub}), "s%d" % flag))
                    if not ok:
                        for pr in parts: cleanup(pr)
                        continue
                    # the tables that are sums over the pairs of the split catalog with another one
                    tables = ADDITIVE[which] if par else (("cross", "dd"),)
                    def table(res):
                        return [float(x) for key, tab in tables for cf in res[key] for x in getattr(cf, tab).counts.counts.ravel()]
                    for route, suffix in ROUTES:
                        rcid = cid + ((route,) if route else ())
                        try:
                            ps = parts if not route else [through_files(ctx, pr, "s%d" % i) for i, pr in enumerate(parts)]
                        except Exception as e:   # the whole was written and read back, a part of it is not
                            refused("split", rcid, dict(meta0, route=route or "memory"), route, e); continue
                        add("c13_additive_case %s %s %s" % (fq.qlist(table(runs_b[route])), fq.qlist(table(ps[0])), fq.qlist(table(ps[1]))), rcid,
                            dict(meta0, route=route or "memory", tables=["%s.%s" % kt for kt in tables]),
                            "c13-counts-not-additive" + ("" if which == "unk" else "-%s-split" % which) + suffix,
                            "counts of a catalog split into two disjoint catalogs do not add up to the unsplit counts")
                    ctx.count(key=(sc, tr), nontrivial=nonzero, kind="split" if not ext else "extent:split")
                    if ext:
                        sizes = sorted(((len(base[c][0]) if c != which else max(sum(mask), n - sum(mask))), c) for c in cx.CATS)
                        ctx.bump("extent:split:largest_catalog_%s" % ("changes" if sizes[-1][1] != big else "stays"))
                    for pr in parts: cleanup(pr)
                    continue
                if kind == "conv":
                    try:
                        rt = measure(ctx, cfg, t, "t")
                    except Exception as e:
                        # the same positions, patch for patch, as the base run that was measured: nothing to refuse
                        ctx.count(key=(sc, tr), nontrivial=nonzero, kind=kind)
                        ctx.fail("c13-conv-twin-refused",
                                 "the catalogs of an accepted measurement, given in another coordinate convention the code takes, raise %s: %s"
                                 % (type(e).__name__, str(e)[:200]), dict(meta0, route="memory"), case=cid)
                        continue
                else:
                    rt = measure(ctx, cfg, t, "t")
            except ValueError as e:
                if "contains no data" in str(e) or "do not match" in str(e):
                    ctx.bump("skipped_empty_patch"); continue
                raise
            vt = stored_vecs(rt) if kind == "conv" else None
            if kind in ("rot", "conv") and ties(rt, cfg, edges, vt):
                ctx.bump("near_tie_skipped"); cleanup(rt); continue
            ctx.count(key=(sc, tr), nontrivial=nonzero, kind=kind if not ext else "extent:" + kind)
            if kind == "conv":
                for lab in ("field=" + par["field"], "unit=" + par["unit"], "ra=" + par["range"], "catalogs=" + par["which"],
                            "centres=" + (par["crange"] or "canonical"), "negative_ra=" + ("some" if negative else "none")):
                    ctx.bump("conv:" + lab)
                # the positions the catalogs hold against the model of the reading function (periodic in RA, blind to the unit):
                # those of the same points given in degrees within [0, 360]; a patch keeps its rows in an order of its own
                # (it depends on how the table was cut into chunks), so rows are paired with the nearest position
                want, have = [], []
                for c in ("ref", "unk", "rand"):
                    u = impl.AngularCoordinates(np.deg2rad(np.asarray(canon[c]))).to_3d()
                    w_, h_ = paired(u, np.asarray(vt[c]))
                    want.extend(w_); have.extend(h_)
                add("c13_case_scaled %s %s" % (fq.qlist(want), fq.qlist(have)), cid, dict(meta0, route="memory"), None, "position")
            if kind == "weight":
                ctx.bump("weight_factor:%s" % ("power-of-two" if exact else "other") + (":far" if abs(math.log2(par[1])) >= 20 else ":near"))
            # ---- compare, as measured and after the file round trip (both runs of the pair take the same route)
            for route, suffix in ROUTES:
                rcid = cid + ((route,) if route else ())
                meta = dict(meta0, route=route or "memory")
                b = ob[route]
                try:
                    rr = rt if not route else through_files(ctx, rt, "t")
                    o = observe(rr, perm)
                except Exception as e:
                    refused(kind, rcid, meta, route, e); continue
                if route:
                    add("c13_store_case %s %s" % (fq.qmat(count_rows(rt)), fq.qmat(count_rows(rr))), rcid, meta, None, "twin")
                if kind == "centres":
                    # patches relabelled: totals, amplitudes and covariance equal; samples permute accordingly
                    # (totals of every table: an autocorrelation keeps a patch pair under (lower id, higher id), wherever that lands)
                    tb, tt = totals(runs_b[route], len(edges) - 1), totals(rr, len(edges) - 1)
                    add("c13_case true %s %s" % (fq.qlist(tb), fq.qlist(tt)), rcid, meta, "c13-relabel-changes-counts" + suffix,
                        "relabelling patches changes the total pair counts")
                    add(cmp_term("scaled", b["samp"], o["samp"]), rcid, meta, "c13-relabel-changes-samples" + suffix,
                        "relabelling patches changes amplitudes / covariance or does not permute the jackknife samples accordingly")
                elif kind == "weight":
                    add(cmp_term("exact" if exact else "rounded", b["samp"], o["samp"]), rcid, meta, "c13-weight-scale-changes-amplitudes" + suffix,
                        "multiplying all weights of one catalog by a positive constant changes the correlation amplitudes / jackknife samples / covariance")
                    add(cmp_term("exact" if exact else "rounded", b["nz"], o["nz"]), rcid, meta, "c13-weight-scale-changes-nz" + suffix,
                        "multiplying all weights of one catalog by a positive constant changes the redshift estimate")
                else:
                    sig = {"rot": "c13-rotation-changes-counts", "conv": "c13-input-convention-changes-counts"}.get(kind, "c13-row-order-changes-counts")
                    add("c13_case true %s %s" % (fq.qlist(b["counts"]), fq.qlist(o["counts"])), rcid, meta, sig + suffix,
                        "a rigid rotation / a row permutation of all catalogs / giving the same positions in another unit or right-ascension "
                        "range changes the raw pair counts or weight sums")
                    add(cmp_term("exact", b["samp"] + b["nz"], o["samp"] + o["nz"]), rcid, meta, sig.replace("counts", "amplitudes") + suffix,
                        "a rigid rotation / a row permutation / giving the same positions in another unit or right-ascension range changes "
                        "amplitudes, redshift estimate or covariance")
                if not (finite(b["samp"]) and finite(b["nz"])):
                    ctx.bump("cases_with_non_numbers_compared")
                if kind == "weight" and not exact and (pattern(b["samp"]) != pattern(o["samp"]) or pattern(b["nz"]) != pattern(o["nz"])):
                    ctx.bump("degenerate_sample_differs_after_inexact_factor")   # 0/0 in the base run, residual/0 or 0/residual in the twin
            ctx.sample(dict(scenario=sc, transform=tr, unit=unit, npatch=npatch, base_weight_exponents=bexp), limit=4)
            if ext:
                ctx.sample(dict(meta0), limit=6)
            cleanup(rt)
        cleanup(rb)
    ctx.log("%d distinct terms for %d comparisons" % (len(terms), len(cases)))
    codes = ctx.shards("Cases_C13", HEADER, terms, shard=25)
    failing_file_case = {}
    for i, cid, meta, sig, what in cases:
        c = codes[i]
        if c and sig is not None:
            ctx.fail(sig, "%s (code %d)" % (what, c), meta, case=cid)
            if cid[-1] == "file":
                failing_file_case.setdefault(cid[0], cid)
    # what was read back against the model of the stored form: a correspondence, not the property itself
    for i, cid, meta, sig, what in cases:
        c = codes[i]
        if c and sig is None and what == "position":
            ctx.disagree("c13-stored-position-differs-from-model", cid,
                         dict(meta, code=c, what="the unit vectors of the positions the catalogs hold are not those of the points that were given (as read "
                                                 "from degrees within [0, 360]): the reading function of the model is periodic in the right ascension and blind to the unit"))
        elif c and sig is None:
            case = failing_file_case.get(cid[0], cid) if what == "base" else cid
            ctx.disagree("c13-stored-counts-differ-from-model", case,
                         dict(meta, code=c, what="counts read back from CorrFunc.from_file are not the stored form (rows with a non-zero count) of what was written"))
