"""C01 — pair counts are exact and complete for every catalog and configuration.

Tie (layered correspondence, all evaluated inside Coq against Model/PairCount.v):
  L1  AngularTree.count  vs  tree_count (merged grid, cumulative/per-bin dispatch, nearest-edge
      summation, separation weighting)  and vs the brute-force pair sum;
  L3  autocorrelate / crosscorrelate (all count kinds) on catalogs created by the real
      Catalog.from_dataframe  vs  count_cell (linkage + pair iteration + cell writes)  and vs
      spec_cell (every object pair with separation in (lo,hi], unordered pairs once), plus the
      stored per-bin per-patch weight sums and the patch links;
  L3-cover  per catalog of every L3 scenario: the stored radius of every patch contains every object of the
      patch around the STORED centre (c01_cover_case: the hypothesis of the pruning theorems, discharged for the
      model radius by C01_prune_sound_stored_radii), and is the model radius (largest separation from the stored
      centre).  The data of a scenario sit symmetric around the given centres, or one-sided / on an arc / in the
      corner of a 2x2 block / in a clump at the rim / as a single object far from the centre (SHAPES).
  IGN  columns and values a measurement is documented to ignore (Model/PairIgnored.v): the catalogs of the L3
      scenarios carry them as a generated dimension (spec["ign"]) - a redshift column on the unbinned sample (unknown and
      its randoms) full of -99 flags / negative / zero / huge / out-of-range / in-range values, redshifts of the binned
      samples outside the binning, an all-ones weight column instead of none, further columns of the input table, trees
      built explicitly (same / another binning / forced) before the measurement.  The cases hand the COLUMNS to Coq
      (c01_ign_e2e_case: bin index by np.digitize's rule computed there); the oracle stays the pair sum over ALL objects.
      L2T: the same catalogs through the tree entry points (build_trees, BinnedTrees.build / reopened, Catalog.build_trees,
      trees cached by a measurement, AngularTree on the stored columns) - counts, num_records and sum_weights of a tree
      against the selection of its patch (c01_ign_tree_case).  The stored records are compared with the generated input
      table first (the oracle's objects do not come from the library alone).
Separations are squared chord lengths of the implementation's own unit vectors, as exact
integers at a common power-of-two scale; thresholds are the exact squares of the
implementation's chord radii.  Cases with a pair within 2^-40 (relative) of a threshold are
skipped and counted (near_tie_skipped).
"""
import math
import shutil
import sys
from fractions import Fraction

import numpy as np

from lib import floatq as fq
from lib import impl
from sim import pool as simpool

ALLOWED_AXIOMS = []
TRUSTED = [
    "scipy KDTree.count_neighbors is exercised (L1) not modelled; the model starts from its documented semantics (cumulative: d<=r_k; else (r_{k-1}, r_k], first bin d<=r_0)",
    "angles per scale and bin (get_angle_radian) are compared (rel. 1e-11) with scale / distance written out in the harness on its own astropy cosmology instance (default, unnamed FlatLambdaCDM, clones; varied within one process) and then taken as tables, like the merged grid (get_ang_bins) and chord radii (AngularDistances.to_3d), whose correctness is C15 / C14; astropy's distance integrals are trusted",
    "harness: integer scaling of unit vectors, near-tie filter, classification of a failing cell",
    "patch centres, radii and the pruning angle enter the linkage model as tables read from the implementation (get_centers, get_radii, get_max_angle); the radii are not trusted to be radii: each is checked to contain the objects of its patch around the stored centre (L3-cover, 2^-40 relative allowance for the implementation's float distance)",
]
TRUSTED.append("the objects of the brute-force count are the records the library stored (Patch.load_data); their number and the multiset of "
               "their (weight, redshift) values are compared with the generated input table in every IGN / L2T scenario (creation itself: C02)")
ASSUMPTIONS = [
    "float rounding at interval ends is excluded (near ties skipped, counted in the evidence)",
    "weights are dyadic so float64 sums/products are exact; with separation weighting results are compared to 2^-40 relative",
]
RULE = ("L1 cases = (points of two trees, scale list, weight_scale, weight_res); L3 cases = (auto/cross, catalogs with "
        "2-5 patches, 1-3 bins, scales, unit, region, shape of the data relative to the given centres, facing, line / 2x2 block, "
        "centres as coordinates / catalog, ignored columns and values: redshift column of the unbinned sample, redshifts outside "
        "the binning, weight column of ones, further columns, explicitly built trees); L2T cases = (tree entry point, two catalogs "
        "with such columns, patch, bin / unbinned, scales); distinct by generator parameters + data seed; non-trivial when at "
        "least one pair falls inside some scale (L1) / some cell is non-zero (L3)")
HEADER = "From Verif Require Import Prelude PairCount.\nOpen Scope Q_scope.\n"
HEADER_IGN = "From Verif Require Import Prelude PairCount PairIgnored.\nOpen Scope Q_scope.\n"
TIE = Fraction(1, 2 ** 40)


# ---------------------------------------------------------------- helpers
def scale_of(arrays):
    K = 0
    for a in arrays:
        for x in np.asarray(a, dtype="f8").ravel():
            d = Fraction(float(x)).denominator
            K = max(K, d.bit_length() - 1)
    return K


def to_int(x, K):
    f = Fraction(float(x)) * (1 << K)
    assert f.denominator == 1
    return f.numerator


def thr2(r, K):
    """threshold for integer squared distances at scale 2^(2K): (r^2) * 2^(2K)"""
    return Fraction(float(r)) ** 2 * (1 << (2 * K))


def ifloor(fr):
    """squared distances are integers, so d <= T  <=>  d <= floor(T)  and  T < d  <=>  floor(T) < d:
    thresholds are handed to Coq as integers (keeps the comparisons cheap)"""
    return Fraction(fr.numerator // fr.denominator)


def chord(ang):
    return impl.AngularDistances(np.atleast_1d(ang)).to_3d()


def obj_term(p, w, b, patch):
    return "{| ox := %s; oy := %s; oz := %s; ow := %s; obin := %s; opatch := %s |}" % (
        fq.z(p[0]), fq.z(p[1]), fq.z(p[2]), fq.q(w), fq.nat(b), fq.nat(patch))


def aobj_term(p, w, z, patch, extra=()):
    """an object with its columns: weight / redshift None = the catalog has no such column"""
    return "{| ax := %s; ay := %s; az := %s; aw := %s; ared := %s; apatch := %s; aextra := %s |}" % (
        fq.z(p[0]), fq.z(p[1]), fq.z(p[2]), fq.opt(w, fq.q), fq.opt(z, fq.q), fq.nat(patch), fq.qlist(extra))


def aobj_of(o):
    """iobj tuple (ivec, weight, bin, patch, has weight column, redshift or None) -> aobj term"""
    return aobj_term(o[0], o[1] if o[4] else None, o[5], o[3])


def cfg_term(c):
    return "{| bgrid := %s; bangs := %s; balpha := %s; blims := %s; bthr := %s |}" % (
        fq.qlist(c["grid"]), fq.qlist(c["angs"]), fq.opt(c["alpha"], fq.qlist),
        fq.lst([fq.pair(fq.q(a), fq.q(b)) for a, b in c["lims"]]),
        fq.lst([fq.pair(fq.q(a), fq.q(b)) for a, b in c["thr"]]))


def make_cfg(ang_min, ang_max, weight_scale, weight_res, K):
    import yaw.catalog.trees as T
    lims = T.parse_ang_limits(ang_min, ang_max)
    ang_bins = T.get_ang_bins(lims, weight_scale, weight_res)
    grid_r = chord(ang_bins)
    alpha = None
    if weight_scale is not None:
        mids = np.sqrt(ang_bins[:-1] * ang_bins[1:])
        alpha = [float(x) for x in mids ** weight_scale]
    return dict(grid=[ifloor(thr2(r, K)) for r in grid_r], angs=[float(a) for a in ang_bins], alpha=alpha,
                lims=[(float(a), float(b)) for a, b in lims],
                thr=[(ifloor(thr2(chord(a)[0], K)), ifloor(thr2(chord(b)[0], K))) for a, b in lims],
                exact=[thr2(r, K) for r in grid_r] + [thr2(chord(x)[0], K) for ab in lims for x in ab]), ang_bins


def d2(p, q):
    return (p[0] - q[0]) ** 2 + (p[1] - q[1]) ** 2 + (p[2] - q[2]) ** 2


def near_tie(d2s, thresholds):
    for t in thresholds:
        if t == 0:
            continue
        for d in d2s:
            if abs(d - t) <= TIE * t:
                return True
    return False


def offset(ra0, dec0, dx, dy):
    """point reached from (ra0, dec0) [deg] by going (dx east, dy north) [deg] along a great circle"""
    dist = math.radians(math.hypot(dx, dy))
    if dist == 0.0:
        return (ra0 % 360.0, dec0)
    brg = math.atan2(dx, dy)
    p1, l1 = math.radians(dec0), math.radians(ra0)
    sp2 = math.sin(p1) * math.cos(dist) + math.cos(p1) * math.sin(dist) * math.cos(brg)
    sp2 = max(-1.0, min(1.0, sp2))
    p2 = math.asin(sp2)
    l2 = l1 + math.atan2(math.sin(brg) * math.sin(dist) * math.cos(p1), math.cos(dist) - math.sin(p1) * sp2)
    return (math.degrees(l2) % 360.0, math.degrees(p2))


def cluster(rng, ra0, dec0, n, size_deg):
    """n points within a box of half-size size_deg around (ra0, dec0) (degrees); works at poles and across RA=0"""
    return [offset(ra0, dec0, rng.uniform(-size_deg, size_deg), rng.uniform(-size_deg, size_deg)) for _ in range(n)]


# geometry of the data relative to the GIVEN patch centres ------------------------------------
def vec(p):
    ra, dec = math.radians(p[0]), math.radians(p[1])
    return (math.cos(ra) * math.cos(dec), math.sin(ra) * math.cos(dec), math.sin(dec))


def lonlat(v):
    n = math.sqrt(v[0] ** 2 + v[1] ** 2 + v[2] ** 2)
    return (math.degrees(math.atan2(v[1], v[0])) % 360.0, math.degrees(math.asin(max(-1.0, min(1.0, v[2] / n)))))


def angdist(p, q):
    """great-circle separation in degrees"""
    a, b = vec(p), vec(q)
    cr = (a[1] * b[2] - a[2] * b[1], a[2] * b[0] - a[0] * b[2], a[0] * b[1] - a[1] * b[0])
    return math.degrees(math.atan2(math.sqrt(cr[0] ** 2 + cr[1] ** 2 + cr[2] ** 2), a[0] * b[0] + a[1] * b[1] + a[2] * b[2]))


def bearing(p, q):
    """initial bearing (radians, clockwise from north) of the great circle from p to q"""
    l1, p1, l2, p2 = math.radians(p[0]), math.radians(p[1]), math.radians(q[0]), math.radians(q[1])
    return math.atan2(math.sin(l2 - l1) * math.cos(p2), math.cos(p1) * math.sin(p2) - math.sin(p1) * math.cos(p2) * math.cos(l2 - l1))


def offset_polar(p, rho, brg):
    """point at great-circle distance rho [deg] from p in direction brg"""
    return offset(p[0], p[1], rho * math.sin(brg), rho * math.cos(brg))


def meeting_point(points):
    """the point where the patches of the given centres meet (pair: midpoint of the border; 2x2 block: the corner)"""
    vs = [vec(p) for p in points]
    return lonlat(tuple(sum(v[k] for v in vs) for k in range(3)))


# shape -> (rho_lo, rho_hi, half opening angle [deg]) in units of the reach (= distance from the given centre to the
# meeting point it faces).  The given centre lies outside the convex hull of the data in all of them.
SHAPES = {
    "oneside": (0.60, 0.96, 15.0),    # a strip / small field along the border, far from the given centre
    "crescent": (0.80, 0.94, 70.0),   # a wide arc hugging the border
    "arc": (0.80, 0.94, 40.0),        # a shorter arc
    "corner": (0.50, 0.75, 20.0),     # data filling the corner of the patch (2x2 blocks of centres)
    "rim": (0.90, 0.97, 4.0),         # a tight clump right at the border
    "single": (0.70, 0.95, 10.0),     # one object per patch, far from the centre
}


def face_targets(cents, faces, grid):
    """per patch the point its data sit next to"""
    n = len(cents)
    if grid:                      # a 2x2 block: all four patches hold data next to the common corner
        return [meeting_point(cents[:4])] * n
    out = []
    for k in range(n):
        if faces == "pairs":      # 0|1, 2|3, ...: both sides of a border are populated (a strip across the border)
            nb = k + 1 if k % 2 == 0 else k - 1
        elif faces == "chain":    # every patch faces its successor: borders populated from one side only
            nb = k + 1
        else:                     # "alt": 0 <- 1 | 2 -> ...: shifted pairing (1|2, 3|4)
            nb = k - 1 if k % 2 == 0 else k + 1
        if nb < 0 or nb >= n:
            nb = k - 1 if nb >= n else k + 1
        out.append(meeting_point([cents[k], cents[nb]]))
    return out


def shaped(rng, centre, target, m, shape):
    lo, hi, phi = SHAPES[shape]
    reach = angdist(centre, target)
    brg = bearing(centre, target)
    return [offset_polar(centre, reach * rng.uniform(lo, hi), brg + math.radians(rng.uniform(-phi, phi))) for _ in range(m)]


# ---------------------------------------------------------------- L1
def run_l1(ctx):
    import random
    from yaw.catalog.trees import AngularTree
    rng = ctx.rng
    terms, metas = [], []
    N = ctx.n(40, 900)
    regions = [(10.0, 5.0), (359.9, -30.0), (0.05, 60.0), (123.0, 89.7), (200.0, -89.9), (45.0, 0.0)]
    for k in range(N):
        ra0, dec0 = rng.choice(regions)
        nscales = rng.choice([1, 1, 2, 3, 4])
        base = rng.choice([0.01, 0.1, 1.0])  # degrees
        amin, amax = [], []
        for s in range(nscales):
            lo = base * rng.choice([0.1, 0.25, 0.5, 1.0])
            hi = lo * rng.choice([2.0, 4.0, 10.0])
            amin.append(math.radians(lo)); amax.append(math.radians(hi))
        ws = rng.choice([None, None, -1.0, 0.5, -0.8])
        if rng.random() < 0.1 and ws is None:
            amin[0] = 0.0  # accepted by parse_ang_limits; with weighting the log grid is undefined (not generated)
        wres = rng.choice([1, 3, 7, 50])
        na, nb = rng.choice([0, 1, 3, 6, 12]), rng.choice([0, 1, 4, 9])
        size = max(amax) * 180 / math.pi * 0.8
        pa = cluster(rng, ra0, dec0, na, size)
        pb = cluster(rng, ra0, dec0, nb, size)
        same = rng.random() < 0.25 and na > 0
        if same:
            pb = list(pa)
        wa = [rng.randrange(1, 17) / 4.0 for _ in pa] if rng.random() < 0.6 else None
        # the two trees are weighted independently of each other (weighted x unweighted included)
        wb = wa if same else ([rng.randrange(1, 17) / 4.0 for _ in pb] if rng.random() < 0.6 else None)

        # no weights vs. an array of ones (own generator: the draws above are what they were without it)
        orng = random.Random(ctx.seed * 104729 + k)
        ones = ""
        if wa is None and na > 0 and orng.random() < 0.35:
            wa = [1.0] * len(pa); ones = "/ones"
            if same:
                wb = wa
        if wb is None and nb > 0 and not same and orng.random() < 0.35:
            wb = [1.0] * len(pb); ones = "/ones"

        def mk(pts, w):
            if not pts:
                return AngularTree.empty(has_weights=w is not None)
            return AngularTree(impl.AngularCoordinates(np.deg2rad(np.asarray(pts))), None if w is None else np.asarray(w))
        ta, tb = mk(pa, wa), mk(pb, wb)
        if amin[0] == 0.0:
            # log10(0) inside get_ang_bins: the code accepts ang_min = 0 (parse_ang_limits allows it)
            pass
        try:
            with np.errstate(divide="ignore"):
                got = ta.count(tb, np.asarray(amin), np.asarray(amax), weight_scale=ws, weight_res=wres)
        except Exception as e:
            ctx.count(key=("l1", k), kind="L1/raised")
            ctx.fail("c01-tree-count-raises:%s" % type(e).__name__, "AngularTree.count raised %r" % e,
                     dict(layer="L1", amin=amin, amax=amax, ws=ws, wres=wres, na=na, nb=nb), case=("l1", k))
            continue
        K = scale_of([ta.data, tb.data])
        A = [[to_int(x, K) for x in p] for p in ta.data]
        B = [[to_int(x, K) for x in p] for p in tb.data]
        with np.errstate(divide="ignore"):
            cfg, ang_bins = make_cfg(np.asarray(amin), np.asarray(amax), ws, wres, K)
        d2s = [d2(p, q) for p in A for q in B]
        allthr = cfg["exact"]
        if near_tie(d2s, allthr):
            ctx.bump("near_tie_skipped")
            continue
        inside = any(lo < d <= hi for d in d2s for lo, hi in cfg["thr"])
        ctx.count(key=("l1", tuple(map(tuple, pa)), tuple(map(tuple, pb)), tuple(amin), tuple(amax), ws, wres),
                  nontrivial=inside, kind="L1/%s/%s%s" % ("cum" if len(ang_bins) < 8 else "bin", "w" if ws is not None else "now", ones))
        wA = wa if wa is not None else [1.0] * len(A)
        wB = wb if wb is not None else [1.0] * len(B)
        terms.append("c01_tree_case %s %s %s %s" % (
            fq.lst([obj_term(p, w, 0, 0) for p, w in zip(A, wA)]),
            fq.lst([obj_term(p, w, 0, 0) for p, w in zip(B, wB)]),
            cfg_term(cfg), fq.qlist([float(x) for x in got])))
        metas.append((("l1", k), dict(layer="L1", pa=pa, pb=pb, wa=wa, wb=wb, amin=amin, amax=amax, ws=ws, wres=wres,
                                        got=[float(x) for x in got])))
        ctx.sample(dict(layer="L1", na=na, nb=nb, amin=amin, amax=amax, ws=ws, wres=wres, got=[float(x) for x in got]), limit=2)
    codes = ctx.shards("Cases_C01_L1", HEADER, terms, shard=40)
    ctx.log("L1: %d cases evaluated" % len(terms))
    for (cid, meta), c in zip(metas, codes):
        if not c:
            continue
        if c & 2:
            ctx.fail("c01-tree-count-mismatch", "AngularTree.count differs from the pair sum over (lo,hi] (code %d)" % c, meta, case=cid)
        if c & 1:
            ctx.disagree("Cases_C01_L1", cid, dict(code=c, meta=meta))


# ---------------------------------------------------------------- L3
def plain_dir(ctx, name):
    """a scratch cache below a plainly named folder (lib.impl.fresh_dir varies the spelling of the parent folder; the
    scenarios that vary the ignored columns keep that dimension fixed, the random ones do not)"""
    import os
    d = os.path.join(ctx.workdir, "c01ign", name)
    shutil.rmtree(d, ignore_errors=True)
    os.makedirs(os.path.dirname(d), exist_ok=True)
    return d


def make_catalog(ctx, name, pts, w, z, centers, extra=None, plain=False):
    cols = {"ra": [p[0] for p in pts], "dec": [p[1] for p in pts]}
    kw = dict(ra_name="ra", dec_name="dec", patch_centers=centers, max_workers=1)
    if w is not None:
        cols["w"] = w; kw["weight_name"] = "w"
    if z is not None:
        cols["z"] = z; kw["redshift_name"] = "z"
    for k, v in (extra or {}).items():    # further columns of the input table, never named to the library
        if k not in cols:
            cols[k] = v
    return impl.Catalog.from_dataframe((plain_dir if plain else impl.fresh_dir)(ctx, name), impl.make_df(cols), **kw)


def cat_objects(cat, edges, closed):
    """objects of a catalog: (unit vector, weight, bin index 1..nb / 0 / nb+1, patch, has a weight column,
    value of the redshift column or None)"""
    out = []
    for pid, patch in cat.items():
        data = patch.load_data()
        xyz = impl.AngularCoordinates(np.column_stack([data["ra"], data["dec"]])).to_3d()
        hasw = "weights" in data.dtype.names
        w = data["weights"] if hasw else np.ones(len(data))
        zs = data["redshifts"] if "redshifts" in data.dtype.names else None
        if zs is not None and edges is not None:
            b = np.digitize(zs, edges, right=(closed == "right"))
        else:
            b = np.zeros(len(data), dtype=int)
        for i in range(len(data)):
            out.append((xyz[i], float(w[i]), int(b[i]), int(pid), hasw, None if zs is None else float(zs[i])))
    return out


# ---------------------------------------------------------------- columns and values a measurement ignores
UNK_Z_PROFILES = ["flag", "allflag", "neg", "zero", "huge", "near", "inrange", "mixed"]
REF_OUT_PROFILES = ["flag", "neg", "zero", "huge", "near", "mixed"]
EXTRA_PROFILES = ["floats", "nonfinite", "strings", "shadow", "many"]
PRETREES = ["same", "other", "other-closed", "force", "leafsize"]
FMAX = sys.float_info.max


def ign_spec(rng, force=False):
    """the ignored dimension of one scenario: what the redshift column of the unbinned sample (unknown) and of its
    randoms holds (None = no such column), which values outside the binning the binned samples hold, which of the
    unweighted catalogs get a weight column of ones, further columns of the input tables, trees built explicitly
    before the measurement"""
    if not force and rng.random() < 0.35:
        return None
    unk = rng.choice([None] + UNK_Z_PROFILES * 2)
    return dict(unk_z=unk, rand_z=rng.choice([None, unk, unk] + UNK_Z_PROFILES),
                ref_out=rng.choice([None] + REF_OUT_PROFILES), ones=rng.choice(["none", "all", "first", "second", "rand"]),
                extra=rng.choice([None, None] + EXTRA_PROFILES), pretrees=rng.choice([None, None] + PRETREES),
                frac=rng.choice([0.2, 0.4, 0.7]))


def ign_pool(kind, edges, zvals):
    zmin, zmax = float(edges[0]), float(edges[-1])
    pools = dict(
        flag=[-99.0, -99.0, -1.0, -999.0, -9999.0],
        neg=[-5e-324, -1e-300, -1e-3, -zmin, -zmax, -1.0, -1e30, -FMAX, -0.0],
        zero=[0.0, -0.0],
        huge=[1e30, 1e300, FMAX, 99.0, 9.99e5],
        near=[float(np.nextafter(zmin, -np.inf)), float(np.nextafter(zmax, np.inf)), zmin * 0.5, zmax * 1.1, zmin, zmax,
              float(np.nextafter(zmin, np.inf)), float(np.nextafter(zmax, -np.inf))],
        inrange=[float(v) for v in zvals])
    if kind == "mixed":
        return [v for k in ("flag", "neg", "zero", "huge", "near", "inrange") for v in pools[k]]
    return pools[kind]


def ign_redshifts(rng, profile, n, edges, zvals, frac):
    """a redshift column for a sample that is counted unbinned"""
    if profile == "allflag":
        return [-99.0] * n
    if profile == "flag":      # a photometric redshift column: estimates, failed ones flagged
        pool, good = ign_pool("flag", edges, zvals), ign_pool("inrange", edges, zvals)
        z = [float(rng.choice(pool)) if rng.random() < frac else float(rng.choice(good)) for _ in range(n)]
        if n and all(v >= 0 for v in z):
            z[rng.randrange(n)] = -99.0
        return z
    pool = ign_pool(profile, edges, zvals)
    return [float(rng.choice(pool)) for _ in range(n)]


def ign_outside(rng, profile, z, edges, zvals, frac):
    """redshifts of a binned sample: a share of them replaced by values (mostly) outside the binning"""
    pool = ign_pool(profile, edges, zvals)
    return [float(rng.choice(pool)) if rng.random() < frac else v for v in z]


def ign_extra(rng, profile, n, has_w, has_z):
    """further columns of the input table; with 'shadow' they carry the names the library uses for its own columns
    (or the harness for the named ones, where the catalog has none)"""
    junk = lambda: [rng.choice([-99.0, 0.0, 1e30, -1.0, 0.5]) for _ in range(n)]   # noqa: E731
    cols = {}
    if profile in ("floats", "many"):
        cols["mag_r"] = junk(); cols["zphot_err"] = junk()
    if profile in ("nonfinite", "many"):
        cols["flux"] = [rng.choice([float("nan"), float("inf"), -float("inf"), 1.0]) for _ in range(n)]
    if profile in ("strings", "many"):
        cols["field"] = [rng.choice(["W1", "W4", "", "nan"]) for _ in range(n)]
        cols["id"] = list(range(n))
    if profile in ("shadow", "many"):
        cols["redshifts"] = junk(); cols["weights"] = junk(); cols["patch_ids"] = [rng.randrange(-3, 70000) for _ in range(n)]
        cols["patch"] = [rng.randrange(0, 9) for _ in range(n)]
        if not has_w:
            cols["w"] = [rng.choice([0.0, -1.0, float("nan"), 7.0]) for _ in range(n)]
        if not has_z:
            cols["z"] = [rng.choice([-99.0, float("nan"), 0.5]) for _ in range(n)]
    return cols


def stored_vs_input(cat, pts, w, z):
    """the records the library stored for a catalog against the generated input table: number of records and the
    multiset of (weight, redshift) bit patterns (None if equal, else a description).  The brute-force oracle takes
    its objects from the stored records; this ties them to the input."""
    want = sorted((None if w is None else float(w[i]).hex(), None if z is None else float(z[i]).hex()) for i in range(len(pts)))
    got = []
    for pid, patch in cat.items():
        data = patch.load_data()
        names = data.dtype.names
        for i in range(len(data)):
            got.append((float(data["weights"][i]).hex() if "weights" in names else None,
                        float(data["redshifts"][i]).hex() if "redshifts" in names else None))
    if sorted(got, key=repr) == sorted(want, key=repr):
        return None
    return "%d records stored for %d input rows; (weight, redshift) values differ" % (len(got), len(want))


def tree_case(ctx, TC, entry, cid, edges, closed, OC, p, binC, OD, q, binD, cfg, t1, t2, got, meta):
    """one pair of trees obtained from the implementation through `entry` (tree of patch p of catalog C for bin binC /
    None = built without binning, likewise D, q, binD) against the selection of the model: counts, records, weight sums"""
    selC = [o for o in OC if o[3] == p and (binC is None or o[2] == binC + 1)]
    selD = [o for o in OD if o[3] == q and (binD is None or o[2] == binD + 1)]
    if near_tie([d2(a[0], b[0]) for a in selC for b in selD], cfg["exact"]):
        ctx.bump("near_tie_skipped")
        return
    rec = []
    for which, t, sel_ in (("first", t1, selC), ("second", t2, selD)):
        if t.num_records != len(sel_):
            rec.append("%s tree holds %d records, its patch%s has %d objects" % (
                which, t.num_records, "" if (binC if which == "first" else binD) is None else " and bin", len(sel_)))
    lostrec = any(t.num_records < len(sel_) for t, sel_ in ((t1, selC), (t2, selD)))
    ctx.count(key=("tree", entry, cid), nontrivial=bool(selC) and bool(selD), kind="L2T/%s/%s-%s" % (
        entry, "unbinned" if binC is None else "bin", "unbinned" if binD is None else "bin"))
    TC["terms"].append("c01_ign_tree_case %s %s %s %s %s %s %s %s %s %s %s %s %s %s" % (
        fq.qlist([float(e) for e in edges]), fq.b(closed == "right"),
        fq.lst([aobj_of(o) for o in OC]), fq.nat(p), fq.opt(binC, fq.nat),
        fq.lst([aobj_of(o) for o in OD]), fq.nat(q), fq.opt(binD, fq.nat),
        cfg_term(cfg), fq.qlist([float(x) for x in got]), fq.nat(t1.num_records), fq.nat(t2.num_records),
        fq.q(float(t1.sum_weights)), fq.q(float(t2.sum_weights))))
    meta = dict(meta, layer="L2T", entry=entry, patch=(p, q), bins=(binC, binD), got=[float(x) for x in got], records=rec,
                num_records=(t1.num_records, t2.num_records), selected=(len(selC), len(selD)),
                sum_weights=(float(t1.sum_weights), float(t2.sum_weights)))
    TC["metas"].append(((cid, "tree", entry), entry, meta, lostrec))


def finish_tree_cases(ctx, TC):
    codes = ctx.shards("Cases_C01_L2T", HEADER_IGN, TC["terms"], shard=12)
    ctx.log("L2T: %d tree cases evaluated" % len(TC["terms"]))
    for (cid, entry, meta, lostrec), c in zip(TC["metas"], codes):
        if not c:
            continue
        if c & 4:
            ctx.fail("c01-tree-records-%s:%s" % ("lost" if lostrec else "differ", entry),
                     "a tree obtained through %s does not hold the objects of its patch%s: %s" % (
                         entry, " (tree built without binning: all objects of the patch, whatever its other columns hold)"
                         if None in meta["bins"] else "", "; ".join(meta["records"]) or "record numbers differ"), meta, case=cid)
        if c & 4:
            continue        # weight sum and counts of a tree with the wrong objects follow from that
        if c & 8:
            ctx.fail("c01-tree-sum-weights:%s" % entry, "sum_weights of a tree obtained through %s is not the sum over the objects of "
                     "its patch (and bin): %s" % (entry, meta["sum_weights"]), meta, case=cid)
        if c & 2:
            ctx.fail("c01-tree-count-mismatch:%s" % entry, "counts between two trees obtained through %s differ from the pair sum over "
                     "(lo,hi] over all objects of the two patches (code %d)" % (entry, c), meta, case=cid)
        if c & 1 and not c & 4:
            ctx.disagree("Cases_C01_L2T", cid, dict(code=c, meta=meta))


TREE_ENTRIES = ["build_trees", "BinnedTrees.build", "BinnedTrees.reopen", "Catalog.build_trees", "rebuild", "AngularTree"]


def get_tree(entry, cat, pid, binning, rng):
    """the tree(s) of one patch through one entry point; binning None = without binning"""
    import yaw.catalog.trees as T
    patch = cat[pid]
    if entry == "build_trees":
        return T.build_trees(patch, binning, leafsize=rng.choice([1, 4, 16]))
    if entry == "BinnedTrees.build":
        return T.BinnedTrees.build(patch, binning, leafsize=rng.choice([2, 16])).trees
    if entry == "BinnedTrees.reopen":
        T.BinnedTrees.build(patch, binning)
        bt = T.BinnedTrees(patch)
        if binning is None:
            return next(iter(bt))
        return tuple(bt)
    if entry == "Catalog.build_trees":
        if binning is None:
            cat.build_trees(None, max_workers=1)
        else:
            cat.build_trees(binning.edges, closed=binning.closed, max_workers=1)
        return T.BinnedTrees(patch).trees
    if entry == "rebuild":     # trees of the other kind are cached first
        from yaw.binning import Binning
        if binning is None and patch.has_redshifts:
            T.BinnedTrees.build(patch, Binning(np.array([0.05, 0.6, 3.0]), closed="left"))
        elif binning is not None:
            T.BinnedTrees.build(patch, None)
        return T.BinnedTrees.build(patch, binning).trees
    raise ValueError(entry)


def run_trees(ctx):
    """L2T: catalogs whose ignored columns carry values, through the tree entry points"""
    import random
    from yaw.binning import Binning
    from yaw.catalog.trees import AngularTree
    TC = dict(terms=[], metas=[])
    N = ctx.n(18, 360)
    for k in range(N):
        rng = random.Random(ctx.seed * 7919 + 31 * k + 5)
        entry = TREE_ENTRIES[k % len(TREE_ENTRIES)]
        region = rng.choice(REGIONS)
        nb = rng.choice([1, 2, 3])
        zmin = rng.choice([0.002, 0.1, 0.5]); zmax = zmin + rng.choice([0.01, 0.5, 1.0])
        edges = np.linspace(zmin, zmax, nb + 1)
        zmid = (edges[:-1] + edges[1:]) / 2
        closed = rng.choice(["right", "left"])
        zvals = sorted(set(list(edges) + list(zmid)))
        theta = rng.choice([0.2, 0.5, 1.0])
        spacing = theta * rng.choice([0.8, 1.5])
        cents = [offset(region[1], region[2], a * spacing, 0.0) for a in range(2)]
        centers = impl.AngularCoordinates(np.deg2rad(np.asarray(cents)))
        prof_c = rng.choice(REF_OUT_PROFILES)
        prof_d = rng.choice([None] + UNK_Z_PROFILES * 3)
        frac = rng.choice([0.2, 0.4, 0.7])
        spec = dict(k=k, entry=entry, region=region[0], edges=[float(e) for e in edges], closed=closed, theta=theta, spacing=spacing,
                    prof_c=prof_c, prof_d=prof_d, frac=frac)
        cid = ("l2t", k)
        cats, cols = {}, {}
        try:
            for name, n, prof in (("c", rng.choice([6, 12, 20]), prof_c), ("d", rng.choice([5, 10, 18]), prof_d)):
                pts = [pt for c in cents for pt in cluster(rng, c[0], c[1], max(1, n // 2), spacing * 0.4)]
                wmode = rng.choice(["none", "none", "ones", "values", "values"])
                w = None if wmode == "none" else ([1.0] * len(pts) if wmode == "ones" else [rng.randrange(1, 9) / 2.0 for _ in pts])
                if name == "c":
                    z = ign_outside(rng, prof, [float(rng.choice(zvals)) for _ in pts], edges, zvals, frac)
                else:
                    z = ign_redshifts(rng, prof, len(pts), edges, zvals, frac) if prof else None
                ex = rng.choice([None, None] + EXTRA_PROFILES)
                extra = ign_extra(rng, ex, len(pts), w is not None, z is not None) if ex else None
                cats[name] = make_catalog(ctx, "t%d%s" % (k, name), pts, w, z, centers, extra=extra, plain=True)
                cols[name] = (pts, w, z)
                spec["cat_" + name] = dict(n=len(pts), weights=wmode, extra=ex)
        except Exception as e:
            for cat in cats.values():
                shutil.rmtree(str(cat.cache_directory), ignore_errors=True)
            if isinstance(e, ValueError) and ("contains no data" in str(e) or "patch centers and patch IDs with data do not match" in str(e)):
                ctx.bump("skipped_empty_patch")
                continue
            import traceback
            ctx.count(key=("l2t-raise", k), kind="L2T/raised")
            ctx.fail("c01-catalog-creation-raises:%s" % type(e).__name__, "creating a valid catalog (with columns the measurement ignores) raised %r" % e,
                     dict(layer="L2T", spec=spec, traceback=traceback.format_exc()[-1500:]), case=(cid, "raise"))
            continue
        try:
            for name in cats:
                diff = stored_vs_input(cats[name], *cols[name])
                if diff:
                    ctx.fail("c01-oracle-stored-records-differ-from-input", "catalog %r: %s" % (name, diff),
                             dict(layer="L2T", spec=spec, catalog=name), case=(cid, "stored", name))
            objs = {name: cat_objects(cat, edges, closed) for name, cat in cats.items()}
            K = scale_of([o[0] for v in objs.values() for o in v])
            iobj = {name: [([to_int(x, K) for x in o[0]], o[1], o[2], o[3], o[4], o[5]) for o in v] for name, v in objs.items()}
            # which trees: C for one of its bins or without binning; D without binning, sometimes for a bin when it has redshifts
            binC = rng.choice([None] + list(range(nb)) * 2)
            binD = rng.choice(list(range(nb))) if (cols["d"][2] is not None and rng.random() < 0.25) else None
            if entry == "AngularTree":
                binC = binD = None
            p, q = rng.randrange(2), rng.randrange(2)
            binning = Binning(np.asarray(edges, dtype=float), closed=closed)

            def tree_of(name, pid, b):
                if entry == "AngularTree":
                    # by hand from the stored columns of the patch: the weights given, absent, or ones
                    data = cats[name][pid].load_data()
                    coords = impl.AngularCoordinates(np.column_stack([data["ra"], data["dec"]]))
                    return AngularTree(coords, data["weights"].copy() if "weights" in data.dtype.names else None, leafsize=rng.choice([1, 16]))
                t = get_tree(entry, cats[name], pid, None if b is None else binning, rng)
                return t if b is None else t[b]
            t1 = tree_of("c", p, binC)
            t2 = tree_of("d", q, binD)
            nsc = rng.choice([1, 2])
            amin = [math.radians(theta * f) for f in ([0.1, 0.25][:nsc])]
            amax = [math.radians(theta * f) for f in ([1.0, 0.5][:nsc])]
            ws = rng.choice([None, None, None, -1.0, 0.5])
            wres = rng.choice([3, 7, 50])
            got = t1.count(t2, np.asarray(amin), np.asarray(amax), weight_scale=ws, weight_res=wres)
            cfg, _ = make_cfg(np.asarray(amin), np.asarray(amax), ws, wres, K)
            ctx.bump("IGN/tree-z:first=%s" % prof_c)
            ctx.bump("IGN/tree-z:second=%s" % (prof_d or "-"))
            tree_case(ctx, TC, entry, cid, edges, closed, iobj["c"], p, binC, iobj["d"], q, binD, cfg, t1, t2, got, dict(spec=spec))
            ctx.sample(dict(layer="L2T", spec=spec, got=[float(x) for x in got]), limit=5)
        except Exception as e:
            import traceback
            ctx.count(key=("l2t-raise", k), kind="L2T/raised")
            ctx.fail("c01-tree-entry-raises:%s:%s" % (entry, type(e).__name__), "building / counting trees of valid catalogs through %s raised %r" % (entry, e),
                     dict(layer="L2T", spec=spec, traceback=traceback.format_exc()[-1500:]), case=(cid, "raise"))
        finally:
            for cat in cats.values():
                shutil.rmtree(str(cat.cache_directory), ignore_errors=True)
    return TC


REGIONS = [("equator", 40.0, 3.0), ("wrap", 359.7, -12.0), ("npole", 77.0, 89.2), ("spole", 300.0, -89.5), ("mid", 150.0, 45.0)]


SYM = dict(shapes=("sym", "sym"), faces="pairs", grid=False, centers_from_catalog=False)


def geometry_spec(rng, force=False):
    """where the data sit relative to the given centres: (shape of the reference-like catalogs, shape of the unknown-like
    ones), which border each patch faces, line or 2x2 block of centres, centres handed over as coordinates or as a catalog"""
    if not force and rng.random() < 0.45:
        return dict(shapes=("sym", "sym"), faces="pairs", grid=False, centers_from_catalog=rng.random() < 0.2)
    one = ["oneside", "oneside", "crescent", "arc", "rim", "single"]
    grid = rng.random() < 0.25
    a = "corner" if grid else rng.choice(one)
    b = rng.choice([a, a, "corner" if grid else rng.choice(one), "sym-compact"])
    if rng.random() < 0.5:
        a, b = b, a
    return dict(shapes=(a, b), faces=rng.choice(["pairs", "pairs", "alt", "chain"]), grid=grid,
                centers_from_catalog=rng.random() < 0.3)


def l3_spec(rng, kind_hint=None):
    """one end-to-end scenario"""
    region = rng.choice(REGIONS)
    flavour = kind_hint or rng.choice(["plain", "plain", "lowz", "sparsewide", "highz", "plain"])
    unit = rng.choice(["arcmin", "deg", "rad", "arcsec", "kpc", "Mpc", "kpc/h", "Mpc/h"])
    nb = rng.choice([1, 2, 3])
    if flavour == "lowz":
        zmin = rng.choice([0.002, 0.005, 0.01, 0.02]); zmax = zmin * rng.choice([2.0, 3.0]); unit = rng.choice(["kpc", "Mpc", "kpc/h"])
    elif flavour == "highz":
        zmin = rng.choice([1.7, 2.0]); zmax = rng.choice([4.0, 6.0]); unit = rng.choice(["kpc", "Mpc"])
    else:
        zmin = rng.choice([0.1, 0.2, 0.5]); zmax = zmin + rng.choice([0.2, 0.5, 1.0])
    # the cosmology converting distances to angles: the default, unnamed FlatLambdaCDM instances, a clone that
    # keeps the default's name (successive cases of one run use different ones in one process)
    cosmo = None
    if unit in ("kpc", "Mpc", "kpc/h", "Mpc/h"):
        cosmo = rng.choice([None, None, ["flat", 50.0, 0.3], ["flat", 70.0, 0.25], ["flat", 100.0, 0.4], ["flat", 85.0, 0.15],
                            ["clone", 55.0], ["clone", 90.0]])
    spec = dict(region=region[0], ra0=region[1], dec0=region[2], flavour=flavour, unit=unit, nbins=nb, zmin=zmin, zmax=zmax, cosmo=cosmo,
                closed=rng.choice(["right", "left"]), auto=rng.random() < 0.4, npatch=rng.choice([2, 3, 4, 5]),
                nscales=rng.choice([1, 1, 2, 2, 3]), scale_order=rng.randrange(6), workers=rng.choice([1, 1, 2, 3, 4]), rweight=rng.choice([None, None, None, -1.0, 0.5]), resolution=rng.choice([None, 3, 10]),
                weights=rng.choice([True, True, False, "mixed", "mixed"]), count_rr=rng.random() < 0.5, rands=rng.choice(["both", "unk", "ref"]),
                prior=rng.random() < 0.25, dseed=rng.randrange(10 ** 6))
    # the geometry is drawn from its own generator (the sequence of the draws above is what it was before)
    import random
    spec.update(geometry_spec(random.Random(spec["dseed"] + 7919)))
    spec["ign"] = ign_spec(random.Random(spec["dseed"] + 104729))
    if kind_hint is not None:
        spec.update(SYM)  # the targeted probes of other classes keep data centred on the given centres
        spec["ign"] = None
    return spec


def measure_with_workers(spec, call):
    """the measurement itself, by one worker or by 2-4 workers of the simulated pool (results handed back in a seeded
    completion order): the counts belong to their patch pair however the work is distributed"""
    w = spec.get("workers", 1)
    if w <= 1:
        return call(1)
    impl.set_threads(w)
    try:
        with simpool.patched(simpool.Schedule("random", seed=spec["dseed"] % 9973)):
            return call(w)
    finally:
        impl.set_threads(1)


def run_l3_case(ctx, spec, cid, terms, metas, cov, TC=None):
    import random
    import yaw
    from yaw.correlation import measurements as M
    rng = random.Random(spec["dseed"])
    edges = np.linspace(spec["zmin"], spec["zmax"], spec["nbins"] + 1)
    zmid = (edges[:-1] + edges[1:]) / 2
    # choose scales so that the angle at the lowest bin centre is ~theta0 degrees
    theta0 = spec.get("theta0") or rng.choice([0.2, 0.5, 1.0])  # degrees at the first bin centre
    from yaw.cosmology import get_default_cosmology

    def build_cosmo():
        c = spec.get("cosmo")
        if c is None:
            return get_default_cosmology()
        if c[0] == "flat":
            from astropy.cosmology import FlatLambdaCDM
            return FlatLambdaCDM(H0=c[1], Om0=c[2])
        return get_default_cosmology().clone(H0=c[1])
    cosmo = build_cosmo()              # the harness's own instance (never handed to the implementation)
    cosmo_kw = {} if spec.get("cosmo") is None else {"cosmology": build_cosmo()}
    unit = spec["unit"]
    th = math.radians(theta0)
    if unit in ("kpc", "Mpc"):
        dist = float(cosmo.angular_diameter_distance(zmid[0]).value)
        rmax = th * dist * (1000.0 if unit == "kpc" else 1.0)
    elif unit in ("kpc/h", "Mpc/h"):
        dist = float(cosmo.comoving_distance(zmid[0]).value)
        rmax = th * dist * (1000.0 if unit == "kpc/h" else 1.0)
    else:
        rmax = {"rad": th, "deg": theta0, "arcmin": theta0 * 60, "arcsec": theta0 * 3600}[unit]
    # several scales in any order (ascending, descending, largest in the middle)
    factors = {1: [[1.0]], 2: [[0.5, 1.0], [1.0, 0.5]], 3: [[0.25, 0.5, 1.0], [1.0, 0.5, 0.25], [0.5, 1.0, 0.25]]}[spec["nscales"]]
    rmaxs = [rmax * f for f in factors[spec.get("scale_order", 0) % len(factors)]]
    rmins = [r * rng.choice([0.1, 0.25]) for r in rmaxs]
    cfg = yaw.Configuration.create(rmin=rmins, rmax=rmaxs, unit=unit, rweight=spec["rweight"], resolution=spec["resolution"],
                                   edges=edges, closed=spec["closed"], max_workers=1, **cosmo_kw)
    # geometry: patch centres on a line, spacing relative to theta0
    npatch = spec["npatch"]
    spacing = theta0 * (spec.get("spacing_f") or rng.choice([0.8, 1.5, 2.5, 4.0]))
    shapes = tuple(spec.get("shapes") or ("sym", "sym"))
    grid = bool(spec.get("grid"))
    if grid:
        npatch = 4
    cents = spec.get("cents") or ([offset(spec["ra0"], spec["dec0"], a * spacing, b * spacing) for b in (0, 1) for a in (0, 1)] if grid else
                                  [offset(spec["ra0"], spec["dec0"], k * spacing, 0.0) for k in range(npatch)])
    targets = face_targets(cents, spec.get("faces") or "pairs", grid) if any(sh in SHAPES for sh in shapes) else None
    centers = impl.AngularCoordinates(np.deg2rad(np.asarray(cents)))
    zvals = sorted(set(list(edges) + list(zmid) + [edges[0] * 0.5, edges[-1] * 1.1]))

    def sample(npts, spread, with_z, shape="sym"):
        pts, w, z = [], [], []
        if shape == "sym-compact":
            spread = spacing * 0.04
        if spec.get("uniform_sphere"):
            # points anywhere on the sphere (patches as large as hemispheres / octants)
            pts = [(rng.uniform(0.0, 360.0), math.degrees(math.asin(rng.uniform(-1.0, 1.0)))) for _ in range(npts)]
        for k in range(npatch):
            if spec.get("uniform_sphere"):
                break
            m = max(1, npts // npatch)
            if shape in SHAPES:
                pts.extend(shaped(rng, cents[k], targets[k], 1 if shape == "single" else m, shape))
            else:
                pts.extend(cluster(rng, cents[k][0], cents[k][1], m, spread))
        # weights: all catalogs, none, or mixed (each catalog on its own: weighted x unweighted pair counts)
        wmode = spec["weights"]
        weighted = (rng.random() < 0.5) if wmode == "mixed" else bool(wmode)
        w = [rng.randrange(1, 9) / 2.0 for _ in pts] if weighted else None
        z = [float(rng.choice(zvals)) for _ in pts] if with_z else None
        return pts, w, z
    tight, wide = spacing * 0.15, spacing * 0.45
    if spec.get("spreads"):
        ref_n, unk_n = spec.get("sizes", (16, 16))
        ref_s, unk_s = spacing * spec["spreads"][0], spacing * spec["spreads"][1]
    elif spec["flavour"] == "sparsewide":
        ref_n, unk_n, ref_s, unk_s = 40, 12, spacing * 0.05, spacing * 0.49
    else:
        ref_n, unk_n, ref_s, unk_s = rng.choice([12, 24]), rng.choice([10, 20]), rng.choice([tight, wide]), rng.choice([tight, wide])
    cats = {}
    # an earlier measurement on the same caches with the other closed side / no weighting: the counts
    # must not depend on what was cached before (objects sit exactly on bin edges)
    prior_cfg = None
    if spec.get("prior"):
        prior_cfg = yaw.Configuration.create(rmin=rmins, rmax=rmaxs, unit=unit, edges=edges,
                                             closed="left" if spec["closed"] == "right" else "right", max_workers=1, **cosmo_kw)
    sh_ref, sh_unk = shapes
    # columns and values the measurement ignores (own generator: the draws above are what they were without it)
    ign = spec.get("ign") or {}
    irng = random.Random(spec["dseed"] + 15485863)
    inputs = {}

    def create(name, npts, spread, binned, shape):
        """one catalog of the measurement; binned: whether the measurement bins it in redshift"""
        pts, w, z = sample(npts, spread, binned, shape)
        if binned and ign.get("ref_out"):
            z = ign_outside(irng, ign["ref_out"], z, edges, zvals, ign.get("frac", 0.4))
        prof = ign.get("rand_z" if name == "unk_rand" else "unk_z")
        if not binned and prof:
            z = ign_redshifts(irng, prof, len(pts), edges, zvals, ign.get("frac", 0.4))
        ones = ign.get("ones", "none")
        if w is None and (ones == "all" or (ones == "first" and name in ("ref", "data")) or (ones == "second" and name in ("unk", "rand"))
                          or (ones == "rand" and name in ("unk_rand", "ref_rand", "rand"))):
            w = [1.0] * len(pts)
        extra = ign_extra(irng, ign["extra"], len(pts), w is not None, z is not None) if ign.get("extra") else None
        cats[name] = make_catalog(ctx, name, pts, w, z, given(), extra=extra, plain=bool(spec.get("plain_dirs")))
        inputs[name] = (pts, w, z, extra)
        if ign:
            ctx.bump("IGN/z:%s/%s" % ("binned" if binned else "unbinned", (ign.get("ref_out") if binned else prof) or "-"))
        return cats[name]

    other_closed = "left" if spec["closed"] == "right" else "right"

    def pretrees(names_binned):
        """trees built explicitly before the measurement: with the binning the measurement will use, with another one
        (binned trees on the unbinned sample, unbinned trees on the binned one, the other closed side), forced, or
        with another leaf size"""
        mode = ign.get("pretrees")
        if not mode:
            return
        ctx.bump("IGN/pretrees:" + mode)
        for name, binned in names_binned:
            cat, has_z = cats[name], inputs[name][2] is not None
            mine = dict(binning=edges if binned else None, closed=spec["closed"], max_workers=1)
            if mode == "same":
                cat.build_trees(**mine)
            elif mode == "force":
                cat.build_trees(None if binned else (edges if has_z else None), closed=other_closed, max_workers=1)
                cat.build_trees(force=True, **mine)
            elif mode == "leafsize":
                cat.build_trees(leafsize=irng.choice([1, 2, 5]), **mine)
            elif mode == "other":
                cat.build_trees(None if binned else (edges if has_z else None), closed=spec["closed"], max_workers=1)
            elif mode == "other-closed":
                cat.build_trees(edges if (binned or has_z) else None, closed=other_closed, max_workers=1)

    def given():
        """the centres as handed to the next creation: coordinates, or the first catalog of the measurement"""
        if spec.get("centers_from_catalog") and cats:
            return next(iter(cats.values()))
        return centers
    try:
        if spec["auto"]:
            create("data", ref_n, ref_s, True, sh_ref)
            create("rand", unk_n, unk_s, True, sh_unk)
            pretrees([("data", True), ("rand", True)])
            if prior_cfg is not None:
                yaw.autocorrelate(prior_cfg, cats["data"], cats["rand"], count_rr=False, max_workers=1)
            res = measure_with_workers(spec, lambda mw: yaw.autocorrelate(cfg, cats["data"], cats["rand"], count_rr=spec["count_rr"], max_workers=mw))
            kinds = [("dd", "data", "data", True, True), ("dr", "data", "rand", False, True)]
            if spec["count_rr"]:
                kinds.append(("rr", "rand", "rand", True, True))
        else:
            create("ref", ref_n, ref_s, True, sh_ref)
            create("unk", unk_n, unk_s, False, sh_unk)
            kw = {}
            if spec["rands"] in ("both", "unk"):
                kw["unk_rand"] = create("unk_rand", unk_n, unk_s, False, sh_unk)
            if spec["rands"] in ("both", "ref"):
                kw["ref_rand"] = create("ref_rand", ref_n, ref_s, True, sh_ref)
            pretrees([(nm, nm in ("ref", "ref_rand")) for nm in cats])
            if prior_cfg is not None:
                yaw.crosscorrelate(prior_cfg, cats["ref"], cats["unk"], max_workers=1, **kw)
            res = measure_with_workers(spec, lambda mw: yaw.crosscorrelate(cfg, cats["ref"], cats["unk"], max_workers=mw, **kw))
            kinds = [("dd", "ref", "unk", False, False)]
            if "unk_rand" in cats:
                kinds.append(("dr", "ref", "unk_rand", False, False))
            if "ref_rand" in cats:
                kinds.append(("rd", "ref_rand", "unk", False, False))
            if "unk_rand" in cats and "ref_rand" in cats:
                kinds.append(("rr", "ref_rand", "unk_rand", False, False))
    except ValueError as e:
        if "contains no data" in str(e) or "patch centers and patch IDs with data do not match" in str(e):
            ctx.bump("skipped_empty_patch")   # a given centre attracted no object: creation must refuse (C09/C12)
            return
        raise
    for name, (pts_in, w_in_, z_in, _) in inputs.items():
        diff = stored_vs_input(cats[name], pts_in, w_in_, z_in)
        if diff:
            ctx.fail("c01-oracle-stored-records-differ-from-input",
                     "catalog %r: %s (the brute-force count takes its objects from the stored records)" % (name, diff),
                     dict(layer="L3", spec=spec, catalog=name), case=(cid, "stored", name))
    # linkage tables exactly as the code derives them
    order = sorted(cats.values(), key=lambda cat: cat.get_num_records(), reverse=True) if not spec["auto"] else \
        sorted([cats["data"], cats["rand"]], key=lambda cat: cat.get_num_records(), reverse=True)
    refcat = order[0]
    cen, rad = refcat.get_centers(), refcat.get_radii()
    dist = [[float(x) for x in cen.distance(cen[i]).data] for i in range(npatch)]
    # per patch the largest extent of any catalog around the reference centre (repaired algorithm)
    ext = rad.data.copy()
    for other in order[1:]:
        ext = np.maximum(ext, (other.get_radii() + cen.distance(other.get_centers())).data)
    radii = [float(x) for x in ext]
    Mang = float(M.get_max_angle(cfg).data[0])
    links_impl = M.PatchLinkage.from_catalogs(cfg, *([cats["data"], cats["rand"]] if spec["auto"] else
                                                    [cats["ref"], cats["unk"]] + [cats[k] for k in ("ref_rand", "unk_rand") if k in cats])).patch_links
    # objects
    objs = {name: cat_objects(cat, edges, spec["closed"]) for name, cat in cats.items()}
    cen3 = {name: cat.get_centers().to_3d() for name, cat in cats.items()}
    K = scale_of([o[0] for v in objs.values() for o in v] + list(cen3.values()))
    iobj = {name: [([to_int(x, K) for x in o[0]], o[1], o[2], o[3], o[4], o[5]) for o in v] for name, v in objs.items()}
    # coverage: every stored radius must contain every object of its patch around the STORED centre (the hypothesis under
    # which pruning by centre distance is sound).  Squared chords of the implementation's own unit vectors, exact integers;
    # the stored radius (an angle) is turned into a chord the way the implementation does and bracketed by 2^-40 (relative),
    # which absorbs the rounding of its float distance / arcsin / sin round trip.
    uncovered = {}
    for name, cat in cats.items():
        icen = [[to_int(x, K) for x in c] for c in cen3[name]]
        crad = chord(cat.get_radii().data)
        T = [thr2(r, K) for r in crad]
        thi = [ifloor(t * (1 + TIE)) for t in T]
        tlo = [-ifloor(-(t * (1 - TIE))) for t in T]
        bad = []
        for o in iobj[name]:
            dd2 = d2(o[0], icen[o[3]])
            if dd2 > thi[o[3]]:
                bad.append(dict(patch=o[3], chord_object=math.sqrt(float(Fraction(dd2, 1 << (2 * K)))), chord_radius=float(crad[o[3]])))
        uncovered[name] = bad
        cov["terms"].append("c01_cover_case %s %s %s %s" % (
            fq.lst([obj_term(*o[:4]) for o in iobj[name]]), fq.lst([obj_term(c, 0.0, 0, i) for i, c in enumerate(icen)]),
            fq.qlist(tlo), fq.qlist(thi)))
        cov["metas"].append((cid, name, dict(layer="L3-cover", spec=spec, catalog=name, uncovered=bad[:4], n_uncovered=len(bad),
                                            radii=[float(x) for x in cat.get_radii().data])))
        ctx.bump("L3/cover:%s" % ("|".join(spec.get("shapes") or ("sym", "sym"))))
    # per-bin configuration tables
    cfgs, theta_hi = [], []
    for b in range(spec["nbins"]):
        amin_i, amax_i = cfg.scales.scales.get_angle_radian(zmid[b], cosmology=cfg.cosmology)
        # the same conversion written out here (options.Unit: angles; physical = transverse proper distance;
        # comoving = transverse comoving distance in Mpc), on the harness's own cosmology instance
        if unit in ("kpc", "Mpc"):
            dmpc = float(cosmo.angular_diameter_distance(float(zmid[b])).value)
        elif unit in ("kpc/h", "Mpc/h"):
            dmpc = float(cosmo.comoving_distance(float(zmid[b])).value)
        else:
            dmpc = None
        if dmpc is None:
            f = {"rad": 1.0, "deg": math.pi / 180.0, "arcmin": math.pi / 180.0 / 60.0, "arcsec": math.pi / 180.0 / 3600.0}[unit]
            amin, amax = np.asarray(rmins, dtype=float) * f, np.asarray(rmaxs, dtype=float) * f
        else:
            k = 1000.0 if unit.startswith("kpc") else 1.0
            amin, amax = np.asarray(rmins, dtype=float) / k / dmpc, np.asarray(rmaxs, dtype=float) / k / dmpc
        if not (np.allclose(amin, np.atleast_1d(amin_i), rtol=1e-11, atol=0) and np.allclose(amax, np.atleast_1d(amax_i), rtol=1e-11, atol=0)):
            ctx.fail("c01-scale-angle-wrong",
                     "the angles the measurement uses for bin centre z=%.6g (%s .. %s rad) are not scale / distance for the configured "
                     "cosmology (%s .. %s rad; unit %s, cosmology %s)" % (zmid[b], np.atleast_1d(amin_i).tolist(), np.atleast_1d(amax_i).tolist(),
                                                                          amin.tolist(), amax.tolist(), unit, spec.get("cosmo") or "default"),
                     dict(spec=spec, bin=b), case=cid)
        else:
            amin, amax = np.atleast_1d(amin_i), np.atleast_1d(amax_i)   # identical up to the last bits: keep the implementation's floats
        wres = cfg.scales.resolution
        if wres is None:  # the counting function's own default applies
            import inspect
            from yaw.catalog.trees import AngularTree
            wres = inspect.signature(AngularTree.count).parameters["weight_res"].default
        cb, _ = make_cfg(np.asarray(amin), np.asarray(amax), cfg.scales.rweight, wres, K)
        cb["call"] = (np.asarray(amin), np.asarray(amax), cfg.scales.rweight, wres)
        cfgs.append(cb)
        theta_hi.append([float(x) for x in np.atleast_1d(amax)])
    ns = len(rmaxs)
    ign_blame = {}

    def blame_ignored():
        """a failing cell in a scenario whose catalogs carry ignored columns / values: the same measurement on twin catalogs
        that differ in ONE ignored respect (same positions, weights, patches: equal cores, equal bin membership) must
        give the same numbers (C01_unbinned_counts_ignore_columns, C01_binned_counts_membership_only,
        C01_absent_weights_are_ones).  Returns the first respect in which it does not."""
        right = spec["closed"] == "right"
        zlo, zhi = float(edges[0]), float(edges[-1])

        def inside(v):
            return (zlo < v <= zhi) if right else (zlo <= v < zhi)
        variants = [
            ("redshift-column-of-unbinned-sample", "the counts change when the redshift column of the unbinned sample (unknown / its randoms) is "
             "removed: that sample is counted with all its objects, whatever the column holds"),
            ("redshifts-outside-binning", "the counts change when redshifts outside the binning are replaced by another value outside "
             "the binning: they are excluded by the closed-side rule only"),
            ("weight-column-of-ones", "the counts change when a weight column of ones is removed"),
            ("extra-columns", "the counts change when further columns of the input table are removed"),
        ]
        for var, txt in variants:
            tw, changed = {}, False
            for name, (pts_in, w_in_, z_in, extra_in) in inputs.items():
                binned = spec["auto"] or name in ("ref", "ref_rand")
                w2, z2, e2 = w_in_, z_in, extra_in
                if var == "redshift-column-of-unbinned-sample" and not binned and z_in is not None:
                    z2, changed = None, True
                if var == "redshifts-outside-binning" and binned and any(not inside(v) for v in z_in):
                    z2, changed = [v if inside(v) else zhi * 2.0 + 1.0 for v in z_in], True
                if var == "weight-column-of-ones" and w_in_ is not None and all(v == 1.0 for v in w_in_):
                    w2, changed = None, True
                if var == "extra-columns" and extra_in:
                    e2, changed = None, True
                tw[name] = (pts_in, w2, z2, e2)
            if not changed:
                continue
            tcat = {name: make_catalog(ctx, name + "_twin", pts_in, w2, z2, cats[name], extra=e2, plain=True)
                    for name, (pts_in, w2, z2, e2) in tw.items()}
            try:
                if spec["auto"]:
                    res2 = yaw.autocorrelate(cfg, tcat["data"], tcat["rand"], count_rr=spec["count_rr"], max_workers=1)
                else:
                    res2 = yaw.crosscorrelate(cfg, tcat["ref"], tcat["unk"], max_workers=1,
                                              **{k2: tcat[k2] for k2 in ("unk_rand", "ref_rand") if k2 in tcat})
                same = True
                for knd, _, _, _, _ in kinds:
                    for cf, cf2 in zip(res, res2):
                        a, a2 = getattr(cf, knd), getattr(cf2, knd)
                        same = same and np.array_equal(a.counts.counts, a2.counts.counts) \
                            and np.array_equal(a.sum_weights.sum_weights1, a2.sum_weights.sum_weights1) \
                            and np.array_equal(a.sum_weights.sum_weights2, a2.sum_weights.sum_weights2)
            finally:
                for c2 in tcat.values():
                    shutil.rmtree(str(c2.cache_directory), ignore_errors=True)
            if not same:
                return var, txt + " (scenario: %s)" % (ign,)
        return None

    for kind, n1, n2, auto, binned2 in kinds:
        counts = np.stack([getattr(cf, kind).counts.counts for cf in res])  # s, b, i, j
        sw = getattr(res[0], kind).sum_weights
        sw1, sw2 = sw.sum_weights1, sw.sum_weights2
        O1, O2 = iobj[n1], iobj[n2]
        # python-side brute force (classification + near-tie filter only; the verdict is Coq's)
        tie, lost, extra, nonzero = False, [], [], False
        for b in range(spec["nbins"]):
            A_b = [o for o in O1 if o[2] == b + 1]
            B_b = [o for o in O2 if (o[2] == b + 1 or not binned2)]
            dd = [(d2(a[0], q[0]), a, q) for a in A_b for q in B_b]
            allthr = cfgs[b]["exact"]
            if near_tie([d for d, _, _ in dd], allthr):
                tie = True
                break
            if cfgs[b]["alpha"] is None:
                for s in range(ns):
                    lo, hi = cfgs[b]["thr"][s]
                    cell = {}
                    for d, a, q in dd:
                        if lo < d <= hi:
                            i, j = a[3], q[3]
                            if auto and i > j:
                                continue
                            v = Fraction(a[1]) * Fraction(q[1]) * (Fraction(1, 2) if (auto and i == j) else 1)
                            cell[(i, j)] = cell.get((i, j), 0) + v
                    for i in range(npatch):
                        for j in range(npatch):
                            want = cell.get((i, j), Fraction(0))
                            have = Fraction(float(counts[s, b, i, j]))
                            nonzero = nonzero or want != 0
                            if have < want:
                                lost.append((s, b, i, j, float(want), float(have)))
                            elif have > want:
                                extra.append((s, b, i, j, float(want), float(have)))
        # stored weight sums (python side: classification only)
        swbad = []
        for b in range(spec["nbins"]):
            for i in range(npatch):
                w1 = sum((Fraction(o[1]) for o in O1 if o[3] == i and o[2] == b + 1), Fraction(0))
                w2 = sum((Fraction(o[1]) for o in O2 if o[3] == i and (o[2] == b + 1 or not binned2)), Fraction(0))
                if Fraction(float(sw1[b][i])) != w1:
                    swbad.append((1, b, i, float(w1), float(sw1[b][i])))
                if Fraction(float(sw2[b][i])) != w2:
                    swbad.append((2, b, i, float(w2), float(sw2[b][i])))
        if tie:
            ctx.bump("near_tie_skipped")
            continue
        # link-test near ties
        if any(abs(Fraction(dist[i][j]) - (Fraction(radii[i]) + Fraction(radii[j]) + Fraction(Mang))) <= TIE for i in range(npatch) for j in range(npatch)):
            ctx.bump("near_tie_skipped")
            continue
        case_id = (cid, kind)
        ctx.count(key=(tuple(sorted((k, str(v)) for k, v in spec.items())), kind), nontrivial=nonzero or cfgs[0]["alpha"] is not None,
                  kind="L3/%s/%s/%s/%s" % ("auto" if spec["auto"] else "cross", kind, spec["flavour"], spec["region"]))
        ctx.bump("L3/unit:" + unit)
        ctx.bump("L3/workers:%d" % spec.get("workers", 1))
        # the catalogs go to Coq with their COLUMNS (weight / redshift or none); bin membership is decided there
        terms.append("Nat.add (c01_ign_e2e_case %s %s %s %s %s %s %s %s %s %s %s %s %s %s %s)" % (
            fq.qlist([float(e) for e in edges]), fq.b(spec["closed"] == "right"), fq.b(auto), fq.b(binned2),
            fq.lst([aobj_of(o) for o in O1]), fq.lst([aobj_of(o) for o in O2]),
            fq.lst([cfg_term(c) for c in cfgs]), fq.nat(ns), fq.nat(npatch),
            fq.qmat(dist), fq.qlist(radii), fq.q(Mang),
            fq.lst([fq.lst([fq.qmat(counts[s, b]) for b in range(spec["nbins"])]) for s in range(ns)]),
            fq.qmat(sw1), fq.qmat(sw2)) +
            " (if %s then 0 else 8)%%nat" % "nlist_links_ok")
        # links comparison is done here in python against the same tables (exact rationals)
        links_model = {i: {j for j in range(npatch) if Fraction(dist[i][j]) <= Fraction(radii[i]) + Fraction(radii[j]) + Fraction(Mang)} for i in range(npatch)}
        links_ok = all(set(links_impl[i]) == links_model[i] for i in range(npatch))
        terms[-1] = terms[-1].replace("nlist_links_ok", fq.b(links_ok))
        # classification data for a failing cell
        cause = None
        ign_cause = None
        if (lost or extra or swbad) and ign:
            if "v" not in ign_blame:
                ign_blame["v"] = blame_ignored()
            if ign_blame["v"]:
                var, txt = ign_blame["v"]
                ign_cause = var
                cause = ("c01-count-depends-on-ignored:" + var, txt)
        if cause is not None:
            pass
        elif lost:
            s, b, i, j = lost[0][:4]
            unlinked = j not in links_impl[i]
            if unlinked and max(theta_hi[b]) > Mang:
                cause = ("c01-prune-maxangle-below-bin-angle",
                         "pairs lost to patch pruning: the pruning angle %.4g rad (taken at max(zmin, 0.05) / zmin) is smaller than the "
                         "largest scale angle %.4g rad at bin centre z=%.4g (unit %s)" % (Mang, max(theta_hi[b]), zmid[b], unit))
            elif unlinked and any(u["patch"] in (i, j) for nm in cats for u in uncovered[nm]):
                who = [(nm, u) for nm in cats for u in uncovered[nm] if u["patch"] in (i, j)]
                cause = ("c01-prune-radius-not-covering-data",
                         "pairs lost to patch pruning: patches %d,%d are not linked, and the radius stored with catalog %r for patch %d "
                         "(chord %.6g) does not contain its objects around the stored centre (object at chord %.6g; %d such objects in "
                         "the measurement) - radius and centre of the patch are inconsistent, so the link test by centre distance is unsound"
                         % (i, j, who[0][0], who[0][1]["patch"], who[0][1]["chord_radius"], who[0][1]["chord_object"],
                            sum(len(v) for v in uncovered.values())))
            elif unlinked and not links_ok and all(
                    set(links_impl[a]) == {c for c in range(npatch) if Fraction(dist[a][c]) <= Fraction(float(rad.data[a])) + Fraction(float(rad.data[c])) + Fraction(Mang)
                                           or Fraction(dist[a][c]) < Fraction(float(rad.data[a])) + Fraction(float(rad.data[c])) + Fraction(Mang)} for a in range(npatch)):
                cause = ("c01-prune-radius-reference-only",
                         "pairs lost to patch pruning: link radii come from the catalog with most records only; a sparser, wider "
                         "catalog reaches beyond them (patches %d,%d unlinked, radii %s)" % (i, j, radii))
            elif unlinked:
                cause = ("c01-prune-link-decision-wrong",
                         "pairs lost to patch pruning: patches %d,%d are not linked although their centres are closer than the sum of their "
                         "extents and the largest angle (distance %.6g, extents %.6g + %.6g, largest angle %.6g rad)"
                         % (i, j, dist[i][j], radii[i], radii[j], Mang))
            else:
                cause = ("c01-count-lost", "pairs lost in a linked patch pair")
        elif extra:
            cause = ("c01-count-extra", "more pair weight than exists")
        metas.append((case_id, dict(layer="L3", spec=spec, kind=kind, lost=lost[:4], extra=extra[:4], swbad=swbad[:4], ign_cause=ign_cause, Mang=Mang,
                                    theta_hi=theta_hi, radii=radii, links=[sorted(links_impl[i]) for i in range(npatch)],
                                    uncovered={nm: v[:3] for nm, v in uncovered.items() if v}), cause))
        ctx.sample(dict(layer="L3", spec=spec, kind=kind, n1=len(O1), n2=len(O2), nonzero=nonzero), limit=3)
    # the trees the measurement left in the caches (built implicitly, or explicitly before it): one pair per scenario that
    # carries ignored columns / values
    if ign and TC is not None:
        from yaw.catalog.trees import BinnedTrees
        n1, n2 = ("data", "rand") if spec["auto"] else ("ref", irng.choice([nm for nm in cats if nm in ("unk", "unk_rand")]))
        b = irng.randrange(spec["nbins"])
        p, q = irng.randrange(npatch), irng.randrange(npatch)
        bt1, bt2 = BinnedTrees(cats[n1][p]), BinnedTrees(cats[n2][q])
        entry = "cached-by-measurement"     # built implicitly by the measurement, or explicitly before it (spec: ign.pretrees)
        if bt1.is_binned() and bt2.is_binned() == bool(spec["auto"]):
            t1 = bt1.trees[b]
            t2 = bt2.trees[b] if spec["auto"] else bt2.trees
            amin, amax, ws, wres = cfgs[b]["call"]
            got = t1.count(t2, amin, amax, weight_scale=ws, weight_res=wres)
            tree_case(ctx, TC, entry, cid, edges, spec["closed"], iobj[n1], p, b, iobj[n2], q, b if spec["auto"] else None,
                      cfgs[b], t1, t2, got, dict(spec=spec, catalogs=(n1, n2)))
        else:
            ctx.fail("c01-cached-trees-wrong-kind", "after the measurement the cached trees of %r are %s and those of %r are %s" % (
                n1, "binned" if bt1.is_binned() else "unbinned", n2, "binned" if bt2.is_binned() else "unbinned"),
                dict(layer="L2T", spec=spec), case=(cid, "tree", entry))
    for name in cats:
        shutil.rmtree(str(cats[name].cache_directory), ignore_errors=True)


def run_l3(ctx, TC=None):
    terms, metas = [], []
    cov = dict(terms=[], metas=[])
    specs = [l3_spec(ctx.rng) for _ in range(ctx.n(10, 150))]
    # targeted probes for the regions the property names (deterministic every run)
    import random
    prng = random.Random(12345)
    for flavour, auto in [("lowz", False), ("lowz", True), ("sparsewide", False), ("highz", False)]:
        for rep in range(ctx.n(2, 6)):
            s = l3_spec(prng, flavour)
            s["auto"] = auto
            s["rweight"] = None
            s["npatch"] = 3
            if flavour == "sparsewide":
                # dense-compact reference, sparse-wide unknown: neighbouring patches are not linked by the
                # reference radii although unknown objects reach across
                s.update(zmin=0.2, zmax=0.6, unit="arcmin", spacing_f=1.5, spreads=(0.05, 0.49), sizes=(45, 12))
            elif flavour == "lowz":
                # bin centres far below z = 0.05: tight patches closer than the largest scale at the bin centre
                s.update(spacing_f=0.8, spreads=(0.1, 0.1), sizes=(15, 15))
            elif flavour == "highz":
                # physical scales beyond the turnover of the angular diameter distance
                s.update(zmin=2.0, zmax=6.0, nbins=3, unit="Mpc", spacing_f=1.12, spreads=(0.02, 0.02), sizes=(15, 15))
            specs.append(s)
    # deterministic: patches as large as hemispheres / quadrants (radii + largest angle beyond pi)
    for auto, cents in ((False, [(0.0, 90.0), (0.0, -90.0)]), (True, [(0.0, 0.0), (180.0, 0.0), (90.0, 80.0)])):
        s = l3_spec(prng, "plain")
        s.update(auto=auto, rweight=None, nbins=1, npatch=len(cents), unit="deg", zmin=0.2, zmax=0.6, theta0=25.0, nscales=1,
                 cents=cents, uniform_sphere=True, sizes=(36, 30), spreads=(1.0, 1.0), flavour="allsky", region="sphere")
        specs.append(s)
    # deterministic: a measurement with the other closed side precedes the observed one
    for auto in (False, True):
        s = l3_spec(prng, "plain")
        s.update(auto=auto, rweight=None, prior=True, nbins=2, npatch=3, unit="arcmin", zmin=0.2, zmax=0.6, spacing_f=0.8,
                 spreads=(0.3, 0.3), sizes=(18, 18))
        specs.append(s)
    # deterministic: where the data sit relative to the GIVEN centres.  In every catalog of the measurement the objects lie
    # next to a patch border (strip across the border, crescent, corner of a 2x2 block, tight clump at the rim, a single
    # object), the given centre outside the convex hull of its data; one catalog compact around the centre and one at the
    # border; centres handed over as coordinates or as the first catalog.  The scale is below the distance of the centres, so
    # whether a neighbouring patch pair is visited depends on the stored radii really reaching the data.
    GEO = [  # auto, shapes (reference-like, unknown-like), faces, 2x2 block, spacing / theta_max, patches, centres from catalog, bins
        (False, ("oneside", "oneside"), "pairs", False, 2.5, 4, False, 2),
        (True, ("oneside", "oneside"), "pairs", False, 2.5, 4, False, 2),
        (False, ("crescent", "oneside"), "alt", False, 1.5, 3, True, 2),
        (True, ("crescent", "arc"), "pairs", False, 4.0, 2, False, 2),
        (False, ("arc", "arc"), "chain", False, 4.0, 3, False, 1),
        (False, ("corner", "corner"), "pairs", True, 2.5, 4, False, 2),
        (True, ("corner", "corner"), "pairs", True, 1.5, 4, True, 2),
        (False, ("sym-compact", "oneside"), "pairs", False, 2.5, 4, False, 2),   # compact at the centre / wide at the border
        (False, ("rim", "arc"), "pairs", False, 4.0, 3, False, 2),               # compact at the border / wide at the border
        (True, ("rim", "sym-compact"), "chain", False, 1.5, 3, False, 2),
        (False, ("single", "rim"), "pairs", False, 2.5, 4, True, 1),
        (True, ("single", "single"), "pairs", False, 1.5, 5, False, 1),
    ]
    for rep in range(ctx.n(1, 4)):
        for auto, shapes, faces, grid, sf, npatch, fromcat, nbins in GEO:
            s = l3_spec(prng, "plain")
            s.update(auto=auto, rweight=None, prior=False, nbins=nbins, npatch=npatch, zmin=0.2, zmax=0.6, spacing_f=sf,
                     unit=prng.choice(["arcmin", "deg", "Mpc", "kpc/h"]), spreads=(0.3, 0.3), sizes=(6 * npatch, 6 * npatch),
                     count_rr=True, rands="both", flavour="geometry", shapes=shapes, faces=faces, grid=grid,
                     centers_from_catalog=fromcat)
            if s["unit"] in ("arcmin", "deg"):
                s["cosmo"] = None
            specs.append(s)
    # deterministic: columns and values the measurement ignores.  Cross-correlations whose unknown sample / randoms carry a
    # redshift column of every profile (trees implicit or built explicitly beforehand), autocorrelations and references with
    # redshifts outside the binning, weight columns of ones, further columns.
    irng0 = random.Random(4242)
    ign_probes = []
    for i, prof in enumerate(UNK_Z_PROFILES):
        ign_probes.append((False, dict(unk_z=prof, rand_z=UNK_Z_PROFILES[(i + 3) % len(UNK_Z_PROFILES)] if i % 2 else prof,
                                       ref_out=REF_OUT_PROFILES[i % len(REF_OUT_PROFILES)], ones=["none", "all", "second", "rand"][i % 4],
                                       extra=([None] + EXTRA_PROFILES)[i % 6], pretrees=([None] + PRETREES)[i % 6], frac=[0.4, 0.7][i % 2])))
    for i, prof in enumerate(REF_OUT_PROFILES[:ctx.n(3, 6)]):
        ign_probes.append((True, dict(unk_z=None, rand_z=None, ref_out=prof, ones=["all", "first", "none"][i % 3],
                                      extra=EXTRA_PROFILES[i % 5], pretrees=PRETREES[i % 5], frac=0.4)))
    for rep in range(ctx.n(1, 3)):
        for auto, ig in ign_probes:
            s = l3_spec(prng, "plain")
            s.update(auto=auto, rweight=None, prior=(rep == 1), nbins=irng0.choice([1, 2]), npatch=irng0.choice([2, 3]), zmin=0.2, zmax=0.6,
                     spacing_f=irng0.choice([0.8, 1.5]), unit=irng0.choice(["arcmin", "deg", "rad"]), cosmo=None, spreads=(0.3, 0.3),
                     sizes=(12, 12), count_rr=True, rands="both", flavour="ignored", ign=dict(ig), workers=irng0.choice([1, 1, 2]), plain_dirs=True)
            if ctx.quick() and not auto and len(specs) % 2:
                s["rands"] = "unk"      # DD and DR: the unknown sample and its randoms (quick tier: half of the probes)
            specs.append(s)
    for cid, spec in enumerate(specs):
        try:
            run_l3_case(ctx, spec, cid, terms, metas, cov, TC)
        except Exception as e:
            import traceback
            ctx.count(key=("l3-raise", cid), kind="L3/raised")
            ctx.fail("c01-measure-raises:%s" % type(e).__name__, "measurement on valid catalogs raised %r" % e,
                     dict(layer="L3", spec=spec, traceback=traceback.format_exc()[-1500:]), case=(cid, "raise"))
    ctx.log("L3: %d scenarios run, %d count cases, %d coverage cases" % (len(specs), len(terms), len(cov["terms"])))
    codes = ctx.shards("Cases_C01_L3", HEADER_IGN, terms, shard=3)
    ctx.log("L3: count cases evaluated")
    failed = {}   # L3 scenario -> case ids with a failing count cell
    for (cid, meta, cause), c in zip(metas, codes):
        if not c:
            continue
        if c & 2:
            sig, what = cause if cause else ("c01-cell-mismatch", "a pair-count cell differs from the weight-product sum over (theta_min, theta_max]")
            if not cause and meta["uncovered"]:
                what += "; stored patch radii do not contain the patch's objects around the stored centre: %s" % meta["uncovered"]
            ctx.fail(sig, what, meta, case=cid)
            failed.setdefault(cid[0], []).append(cid)
            sp = meta["spec"]
            ctx.log("L3 failing case %s: %s [%s %s shapes=%s faces=%s block=%s spacing_f=%s region=%s unit=%s] lost=%d extra=%d" % (
                cid, sig, "auto" if sp["auto"] else "cross", sp["flavour"], sp.get("shapes"), sp.get("faces"), sp.get("grid"),
                sp.get("spacing_f"), sp["region"], sp["unit"], len(meta["lost"]), len(meta["extra"])))
        if c & 4:
            if meta.get("ign_cause"):
                ctx.fail("c01-sum-weights-depend-on-ignored:" + meta["ign_cause"],
                         "stored per-bin per-patch weight sums differ from the sums over the objects of the sample, and change with a column / "
                         "value the measurement is documented to ignore (%s)" % cause[1], meta, case=cid)
            else:
                ctx.fail("c01-sum-weights", "stored per-bin per-patch weight sums differ from the true sums", meta, case=cid)
        if c & 1 or c & 8:
            ctx.disagree("Cases_C01_L3", cid, dict(code=c, meta=meta))
    # coverage of the stored radii (the table the linkage model takes from the implementation)
    ccodes = ctx.shards("Cases_C01_COV", HEADER, cov["terms"], shard=30)
    ctx.log("L3: coverage cases evaluated")
    for (cid, name, meta), c in zip(cov["metas"], ccodes):
        if c is None:
            continue
        if bool(c & 2) != bool(meta["n_uncovered"]):
            ctx.obligation("c01-cover-classification:%s/%s" % (cid, name), False, "harness and Coq disagree on coverage (code %s, %d)" % (c, meta["n_uncovered"]))
        if c & 2:
            # the property speaks about counts: the lost pairs (if any in this scenario) are the failing input, reported
            # above with the coverage data; without lost pairs the tie (radii taken as a table) is broken
            ctx.bump("cover/radius-does-not-contain-data")
            ctx.disagree("Cases_C01_COV", failed[cid][0] if cid in failed else (cid, "cover", name), dict(code=c, meta=meta))
        elif c & 1:
            ctx.bump("cover/radius-larger-than-data")   # conservative (harmless for the property), counted only


def run_cwd(ctx):
    """Relative cache paths and the working directory: two data sets live under the SAME relative names in two directories;
    the process moves from one to the other between the measurements.  Every measurement - by one worker in this process, by
    worker processes of the real pool - must count the pairs of the data set in the directory it was called in (brute force)."""
    import os
    import yaw
    rng = ctx.rng
    here = os.getcwd()
    try:
        for rnd in range(ctx.n(2, 6)):
            cents = [offset(40.0 + 7 * rnd, 12.0, k * 1.2, 0.0) for k in range(3)]
            centers = impl.AngularCoordinates(np.deg2rad(np.asarray(cents)))
            lo, hi = np.deg2rad(0.05), np.deg2rad(rng.choice([0.6, 0.9]))
            cfg = yaw.Configuration.create(rmin=float(lo), rmax=float(hi), unit="rad", edges=[0.1, 0.9], max_workers=1)
            sets = {}
            for tag in ("A", "B"):
                d = os.path.join(ctx.workdir, "cwd_%d" % rnd, tag)
                shutil.rmtree(d, ignore_errors=True)
                os.makedirs(d)
                n = rng.choice([18, 27]) if tag == "A" else rng.choice([12, 21])
                ref = [p for k in range(3) for p in cluster(rng, cents[k][0], cents[k][1], n // 3, 0.5)]
                unk = [p for k in range(3) for p in cluster(rng, cents[k][0], cents[k][1], n // 3 + 2, 0.5)]
                sets[tag] = (d, ref, unk)
            order = ["A", "B", "A"] if rnd % 2 == 0 else ["B", "A", "B"]
            for step, tag in enumerate(order):
                d, ref, unk = sets[tag]
                os.chdir(d)
                if not os.path.exists("ref"):
                    for name, pts, z in (("ref", ref, [0.5] * len(ref)), ("unk", unk, None)):
                        cols = {"ra": [p[0] for p in pts], "dec": [p[1] for p in pts]}
                        kw = dict(ra_name="ra", dec_name="dec", patch_centers=centers, max_workers=1)
                        if z is not None:
                            cols["z"] = z; kw["redshift_name"] = "z"
                        impl.Catalog.from_dataframe(name, impl.make_df(cols), **kw)       # a RELATIVE cache path
                # brute force: unit weights, pairs with lo < angle <= hi, by the patches the library assigned
                cr, cu = impl.Catalog("ref", max_workers=1), impl.Catalog("unk", max_workers=1)
                want = np.zeros((3, 3))
                tie = False
                for i in range(3):
                    a = cr[i].coords.to_3d()
                    for j in range(3):
                        b = cu[j].coords.to_3d()
                        ang = np.arccos(np.clip(a @ b.T, -1.0, 1.0))
                        tie = tie or bool(np.any(np.abs(ang - lo) < 1e-9) or np.any(np.abs(ang - hi) < 1e-9))
                        want[i, j] = np.count_nonzero((ang > lo) & (ang <= hi))
                if tie:
                    ctx.bump("cwd:skipped-near-tie")
                    continue
                for workers in (1, 2, 3):
                    impl.set_threads(max(workers, 1))
                    try:
                        cu_w = impl.Catalog("unk", max_workers=workers)
                        cf = yaw.crosscorrelate(cfg, impl.Catalog("ref", max_workers=workers), cu_w, unk_rand=cu_w, max_workers=workers)[0]
                    finally:
                        impl.set_threads(1)
                    got = np.asarray(cf.dd.counts.counts[0], dtype=float)
                    ctx.count(key=("cwd", rnd, step, tag, workers), nontrivial=want.sum() > 0, kind="cwd/%s/w%d" % ("first" if step == 0 else "after-chdir", workers))
                    if got.shape != want.shape or not np.array_equal(got, want):
                        ctx.fail("c01-count-not-of-the-data-in-the-working-directory:%s" % ("one-worker" if workers == 1 else "worker-processes"),
                                 "crosscorrelate on catalogs opened by RELATIVE cache paths after the process changed its working directory "
                                 "(step %d, data set %s, %d workers): DD counts %s, brute force over the data in this directory %s"
                                 % (step, tag, workers, got.tolist(), want.tolist()),
                                 dict(order=order, step=step, workers=workers, got=got.tolist(), want=want.tolist()), case=("cwd", rnd, step, workers))
    finally:
        os.chdir(here)


def run(ctx):
    impl.set_threads(1)
    run_cwd(ctx)
    impl.set_threads(1)
    run_l1(ctx)
    TC = run_trees(ctx)
    run_l3(ctx, TC)
    finish_tree_cases(ctx, TC)
