"""C16 — random catalogs: exact size, footprint, joint attributes, reproducible by seed.

Tie: the real BoxRandoms (a logging subclass records every reseed() and __call__(k)) and the
real Catalog.from_random are run for windows including both poles and RA ranges crossing /
adjacent to 0 / 360 deg, sizes n around multiples of the chunk size, seeds, and arbitrary earlier
use of the same generator object (probes, partial and full iterations of a RandomReader, direct
calls, other catalogs, reseeds).  Compared inside Coq (Model/Randoms.v, c16_case): the event
log against the model trace and `random_sizes n cs`, the number of stored records, every stored
radian value against np.deg2rad of the limits (exact rationals), every stored (w, z) against the
rows of the attribute table.  Reproducibility is decided on the bit patterns of the stored
records against a catalog made with a fresh generator of the same seed.  A chi-square statistic
of area uniformity on an equal-area grid is reported in the evidence only.

Attribute tables (attr_specs / attr_case, checker c16_attr_case): the supplied samples are arbitrary
arrays - NaN / +inf / -inf entries on the same rows of both columns, on different rows (equally or
unequally many per column), in one column only, a whole column; duplicated values, duplicated rows,
constant columns, one row; float64 / float32 / float16 / int64 / int32 / uint8 / bool; plain,
strided and read-only ndarrays, lists, tuples, pandas Series.  Every direct call and every stored
patch is laid next to its INDEX TWIN (the same real generator - seed, window, data size - over the
table whose row j is (j, j)): the model says the stored pairs are, bit for bit and in order, rows
twin[i] of the samples widened to float64 (tie, flag 0); the property says every stored pair is ONE
row of the supplied samples, compared as values with NaN = NaN so that rows holding NaN count
(flag 3).  A refusal of a container / dtype / non-finite table is counted, never a failure.

Several generators alive at once (multi_specs / multi_case, checker c16_multi_gen): 2-4 generator objects
with different attribute sets (none / weights / redshifts / both - every ordered pair of different sets in
a fixed grid), own tables with disjoint rows, own or shared windows and seeds, all constructed before any
is used or constructed while the others are in use; their operations (direct calls, generate_dataframe,
probes, complete passes, readers that stay open and are advanced chunk by chunk, Catalog.from_random with
centres / with patch_num, reseeds, new seeds) are interleaved at random and every object is used once more
when all exist.  The model (Randoms.v World, C16_generators_independent): generators are independent
values - what object i produces is what it produces alone on its own operations.  Every object is laid
next to the same object (same constructor arguments, same own operations) that is the only generator of a
fresh run: own event log = trace of its own operations (tie, flag 0), records per group = requested,
window and rows of ITS OWN samples, bit-identical to the object alone, and the records / the catalog header
carry weights / redshifts iff this object was given them.  An operation that raises in company but not
alone is a failure (c16-raises:*:other-generators-alive).

The ambient state of the process (props/c16_ambient.py, checker c16_ambient_case, interpreters c16_ambient_driver.py):
log levels / handlers / basicConfig / yaw.utils.get_logger / logging.disable on the yaw logger, its children and the root,
progress indicators, warnings filters, the environment variables the library reads (discovered, not listed), the worker
count taken from the environment, global PRNG state, numpy error state / print options, replaced stdio, working
directory, a trace function, interpreter switches (-O, -X dev, -W, variables set before import) - several settings per
case, each applied and restored around four routes (chunks of a RandomReader, Catalog.from_random, direct calls /
generate_dataframe, get_probe) with generators constructed inside / before the setting or shared by all settings.  The
model (Randoms.v Observers): the ambient state decides which OBSERVERS run inside a pass; a pass is independent of an
observer iff the observer hands back the state of the re-seed (C16_observer_free_iff, C16_pass_ambient_free).  Oracle:
the reference stream of the seed computed with numpy alone; every route under every setting is compared with it and
with the neutral setting inside Coq (size, window, rows, same records, calls after the last reseed = sizes of the route).
"""
import math
import os
import random
import shutil
import struct
import sys
import traceback
import warnings

import numpy as np

from lib import floatq as fq
from lib import impl

ALLOWED_AXIOMS = ["sig_forall_dec", "sig_not_dec", "functional_extensionality_dep", "classic"]
TRUSTED = [
    "numpy PRNG (SeedSequence, default_rng, Generator.uniform / integers) is the abstract `stream` of the model: "
    "a deterministic function of the seed; its statistical quality is not verified",
    "numpy sin / arcsin / deg2rad (libm) for the footprint of stored float64 values: checked exactly on every stored "
    "point, proved over the reals only",
    "treecorr k-means (patch_num mode) is an oracle: any centres are accepted, record sets are compared as multisets",
    "the logging subclass of BoxRandoms used by the harness (overrides reseed and __call__ only to record them)",
    "several generators: the reference of an object is the same class with the same arguments driven through its own "
    "operations while no other generator is constructed or used (one process: state that outlives every object of an "
    "earlier case is not reset between cases)",
    "ambient state: the reference stream is numpy alone - default_rng(SeedSequence(seed).spawn(1)[0]), per call "
    "uniform(ra limits), uniform(sin dec limits) -> arcsin, integers(0, m) -> both attribute columns - with the call sizes "
    "of the route; that this IS what the seed stands for is the tie (flag 0 / 4 of c16_ambient_case under the neutral "
    "setting); the Ambient context manager of the harness applies and restores the settings (logging tree, warnings "
    "filters, os.environ, stdio, descriptors, trace function); the simulated pool (harness/sim/pool.py) stands for "
    "multiprocessing when the worker count comes from the environment",
    "the index twin of the attribute-table cases: the real generator with the same seed, window, call sizes and data "
    "size m over the finite float64 table row j = (j, j) is taken to show the index vector of each call "
    "(numpy Generator.integers depends on the seed, the earlier draws, the bound m and the size only)",
]
ASSUMPTIONS = [
    "HealPixRandoms is unmodelled and not exercised (healpy is not installed; its pixel draw uses the global "
    "np.random state, which no seed of the generator controls)",
    "windows satisfy ra_min <= ra_max and dec_min <= dec_max in [-90, 90] (ra_min > ra_max makes "
    "Generator.uniform raise ValueError at call time; an RA range across 0/360 is given as (350, 370) or (-10, 10) "
    "and stored un-normalised)",
    "uniformity in area is proved for the real-valued map (equal_area, equal_area_fraction) given uniform variates; "
    "on the implementation it is only reported as a chi-square statistic, never a failure",
    "records are compared by the bit pattern of their float64 fields; with patch_num the patch centres come from "
    "treecorr and only the union of all patches is compared",
    "a stored coordinate outside the window by rounding only (|sin dec - sin limit| <= 2^-50, |ra - limit| <= 4 ulp) "
    "is clamped and counted as near_tie_skipped",
    "the number of PRNG words behind one vector draw (Generator.integers uses rejection) is abstracted: the model's "
    "stream is indexed by samples; reseed_history_free does not depend on how far a call advances the stream",
    "attribute tables: ndarrays (any strides, read-only or not) of float64 / float32 / integer dtype without non-finite "
    "entries must be accepted; a TypeError / ValueError / IndexError / KeyError for a list, tuple or pandas Series, a "
    "TypeError / ValueError for a float16 or bool table and a ValueError for a table holding NaN / inf are refusals: "
    "counted (refused:*), not failures (the pinned code passes non-finite entries through unchanged, widens every dtype "
    "exactly to float64 and raises TypeError at the first call for lists and tuples)",
    "several generators: all requests are valid on their own (k, n >= 1, probe <= n, one centre at the middle of the "
    "window, patch_num = 1); an exception raised both in company and alone is reported as c16-raises as in the single "
    "cases; with patch_num the union of the patches is compared, otherwise every patch bit for bit; a column that the "
    "catalog header claims and the records lack (or the reverse) counts as a column in the wrong state",
    "ambient state: the neutral setting is the state the harness itself runs in (yaw logger at CRITICAL, YAW_NUM_THREADS=1, "
    "default warnings filters, no progress, max_workers=1); an exception that the SETTING asks for is a refusal, counted "
    "(refused:*), not a failure: a Warning raised under the filter 'error', a FloatingPointError under np.seterr(all='raise'), "
    "a ValueError / KeyError / TypeError for a value that is no positive integer in a variable the library reads; with "
    "workers from the environment or patch_num the records of a catalog are compared as a multiset, otherwise in order; "
    "observers are seen through reseed() / __call__ of the generator object only: an observer that saves and restores "
    "the PRNG state by other means is harmless by C16_pass_ambient_free and passes (records equal), one that draws from "
    "a copy is invisible and harmless; interpreter switches are tried in own processes on the reader and the catalog route",
    "in the row comparison of the property NaN is one value (sign and payload ignored) and -0.0 = 0.0; bit patterns "
    "are compared only in the tie with the model (flag 0, ctx.disagree); which rows are drawn, and that rows holding "
    "non-finite entries are drawn at all, is part of the tie, not of the property",
]
RULE = ("ambient cases = (window, seed, table, n, cs, patch mode, call sizes, where the generator is constructed; one "
        "ambient setting = values of the dimensions logging / progress / warnings / env / workers / global-rng / numpy-state / "
        "stdio / cwd / trace / interpreter); distinct by (case, setting); non-trivial when the setting is not the neutral one "
        "and n > 1; "
        "several generators = (attribute set, table, window, seed of every object; the schedule of constructions and "
        "operations); non-trivial when the objects do not all have the same attribute set; "
        "cases = (window, n, cs, seed, attribute mode and table size, patch mode, history of earlier generator use); "
        "distinct by that tuple; non-trivial when the history is non-empty (the generator was used before the observed "
        "pass) and n > 1; attribute-table cases = (table content, dtypes, container, layout, mode, window, seed, call "
        "sizes, n, cs, centres); non-trivial when the table is not a plain finite float64 ndarray with distinct rows")

HEADER = "From Verif Require Import Prelude Chunks Randoms.\nOpen Scope nat_scope.\n"

# (ra_min, ra_max, dec_min, dec_max) in degrees, label
WINDOWS = [
    ((0.0, 360.0, -90.0, 90.0), "full_sky_both_poles"),
    ((350.0, 370.0, -90.0, -60.0), "wrap_south_pole"),
    ((-10.0, 10.0, 60.0, 90.0), "wrap_neg_north_pole"),
    ((0.0, 10.0, -5.0, 5.0), "adjacent_0"),
    ((355.0, 360.0, -90.0, 90.0), "adjacent_360_both_poles"),
    ((0.0, 5.0, 89.0, 90.0), "north_cap"),
    ((120.5, 121.25, -33.125, -32.0), "plain_small"),
    ((359.0, 361.0, -1.0, 1.0), "wrap_equator"),
    ((-180.0, 180.0, -90.0, 0.0), "south_hemisphere"),
    ((360.0, 720.0, 0.0, 90.0), "second_turn_north"),
    ((10.0, 10.0, -20.0, 20.0), "degenerate_ra"),
    ((0.0, 0.125, 0.0, 0.125), "tiny_at_origin"),
]


def make_logged():
    from yaw.randoms import BoxRandoms

    class LoggedBoxRandoms(BoxRandoms):
        """BoxRandoms that records reseed() and __call__(k); behaviour unchanged."""

        def __init__(self, *a, **k):
            self.vlog = []
            super().__init__(*a, **k)

        def reseed(self, seed=None, *a, **k):     # forwards whatever else the library may pass
            self.vlog.append(("R", None if seed is None else int(seed)))
            return super().reseed(seed, *a, **k)

        def __call__(self, probe_size, *a, **k):
            self.vlog.append(("C", int(probe_size)))
            return super().__call__(probe_size, *a, **k)

    return LoggedBoxRandoms, BoxRandoms


def attr_tables(mode, m):
    w = np.arange(1, m + 1, dtype="f8") if mode in ("w", "both") else None
    z = (np.arange(1, m + 1, dtype="f8") / 1024.0) if mode in ("z", "both") else None
    return w, z


def new_gen(cls, spec, seed):
    w, z = attr_tables(spec["attrs"], spec["m"])
    kw = {}
    if w is not None:
        kw["weights"] = w
    if z is not None:
        kw["redshifts"] = z
    return cls(*spec["window"], seed=seed, **kw)


def gen_history(rng, allow_setseed):
    ops = []
    for _ in range(rng.choice([0, 1, 1, 2, 3, 4])):
        kind = rng.choice(["call", "call", "probe", "partial", "partial", "full", "catalog", "reseed", "setseed"])
        if kind == "call":
            ops.append(["call", rng.choice([1, 2, 3, 7, 16])])
        elif kind == "probe":
            k = rng.choice([1, 2, 5])
            ops.append(["probe", k, k + rng.choice([0, 1, 9]), rng.choice([1, 2, 4])])
        elif kind == "partial":
            cs = rng.choice([1, 2, 3, 5])
            n = rng.choice([cs + 1, 2 * cs, 2 * cs + 1, 3 * cs + 1])
            ops.append(["partial", n, cs, rng.randrange(1, -(-n // cs))])
        elif kind == "full":
            cs = rng.choice([1, 2, 3, 5])
            ops.append(["full", rng.choice([1, cs, cs + 1, 2 * cs + 1]), cs])
        elif kind == "catalog":
            cs = rng.choice([2, 3, 5])
            ops.append(["catalog", rng.choice([1, cs, cs + 1, 2 * cs + 1]), cs])
        elif kind == "reseed":
            ops.append(["reseed"])
        elif kind == "setseed" and allow_setseed:
            ops.append(["setseed", rng.choice([0, 0, 1, 12345, 2 ** 32, rng.randrange(0, 2 ** 31), rng.randrange(2 ** 62)])])   # every legal seed VALUE, the falsy one too
    return ops


def apply_history(ctx, gen, hist, centers, idx):
    from yaw.catalog.readers import RandomReader
    for h in hist:
        if h[0] == "call":
            gen(h[1])
        elif h[0] == "reseed":
            gen.reseed()
        elif h[0] == "setseed":
            gen.reseed(h[1])
        elif h[0] == "probe":
            RandomReader(gen, h[2], h[3]).get_probe(h[1])
        elif h[0] == "partial":
            it = iter(RandomReader(gen, h[1], h[2]))
            for _ in range(h[3]):
                next(it)
        elif h[0] == "full":
            for _ in RandomReader(gen, h[1], h[2]):
                pass
        elif h[0] == "catalog":
            d = impl.fresh_dir(ctx, "hist_%d" % idx)
            impl.Catalog.from_random(d, gen, h[1], patch_centers=centers, chunksize=h[2], max_workers=1)
            shutil.rmtree(d, ignore_errors=True)


def history_term(hist):
    parts = []
    for h in hist:
        if h[0] == "call":
            parts.append("[Draw %s]" % fq.nat(h[1]))
        elif h[0] == "reseed":
            parts.append("[Reseed]")
        elif h[0] == "setseed":
            parts.append("[SetSeed tt]")
        elif h[0] == "probe":
            parts.append("[Reseed; Probe %s]" % fq.nat(h[1]))
        elif h[0] == "partial":
            parts.append("partial_pass %s %s %s" % (fq.nat(h[1]), fq.nat(h[2]), fq.nat(h[3])))
        elif h[0] == "full":
            parts.append("[Reseed; Pass %s %s]" % (fq.nat(h[1]), fq.nat(h[2])))
        elif h[0] == "catalog":
            parts.append("from_random_ops %s %s None" % (fq.nat(h[1]), fq.nat(h[2])))
    return "(" + " ++ ".join(["(%s)" % p for p in parts] + ["[]"]) + " : list (op unit))"


def events_term(log):
    return fq.lst(["EReseed" if e[0] == "R" else "ECall %s" % fq.nat(e[1]) for e in log])


def hexrows(arr):
    names = arr.dtype.names
    return [tuple(float(rec[nm]).hex() for nm in names) for rec in arr]


def all_rows(records):
    out = []
    for p in sorted(records):
        out.extend(hexrows(records[p]))
    return sorted(out)


def clamp_near_ties(ctx, ras, decs, lims):
    """values outside the window by float rounding only are moved onto the limit and counted"""
    ra0, ra1, d0, d1 = lims
    ras, decs = list(ras), list(decs)
    for i, x in enumerate(ras):
        for lim, outside in ((ra0, x < ra0), (ra1, x > ra1)):
            if outside and abs(x - lim) <= 4 * np.spacing(abs(lim)):
                ras[i] = lim
                ctx.bump("near_tie_skipped")
    for i, x in enumerate(decs):
        for lim, outside in ((d0, x < d0), (d1, x > d1)):
            if outside and abs(math.sin(x) - math.sin(lim)) <= 2.0 ** -50:
                decs[i] = lim
                ctx.bump("near_tie_skipped")
    return ras, decs


def attr_terms(spec, arrs):
    """attribute table and stored pairs as Coq terms; a missing column is the constant 0"""
    m = spec["m"]
    w, z = attr_tables(spec["attrs"], m)
    if w is None and z is None:
        return "[]", "[]", "[]"
    wt = fq.qlist(w if w is not None else [0] * m)
    zt = fq.qlist(z if z is not None else [0] * m)
    pairs = []
    for arr in arrs:
        names = arr.dtype.names
        for rec in arr:
            pairs.append(fq.pair(fq.q(rec["weights"]) if "weights" in names else "0%Q",
                                 fq.q(rec["redshifts"]) if "redshifts" in names else "0%Q"))
    return wt, zt, fq.lst(pairs)


class Pool2D:
    """pooled histogram of the stored points on the unit square of (ra fraction, sin(dec) fraction)"""

    def __init__(self, k):
        self.k = k
        self.h = np.zeros((k, k))
        self.seen = set()

    def add(self, ras, decs, lims, key=None):
        ra0, ra1, d0, d1 = lims
        if not (ra1 > ra0 and d1 > d0) or len(ras) == 0:
            return
        if key is not None:   # the same seed gives the same variates in every window: pool it once
            if key in self.seen:
                return
            self.seen.add(key)
        u = (np.asarray(ras) - ra0) / (ra1 - ra0)
        v = (np.sin(decs) - math.sin(d0)) / (math.sin(d1) - math.sin(d0))
        i = np.clip((u * self.k).astype(int), 0, self.k - 1)
        j = np.clip((v * self.k).astype(int), 0, self.k - 1)
        np.add.at(self.h, (i, j), 1)

    def chi2(self):
        n = self.h.sum()
        if n == 0:
            return None
        e = n / self.h.size
        c = float(((self.h - e) ** 2 / e).sum())
        dof = self.h.size - 1
        try:
            from scipy.stats import chi2 as _c
            p = float(_c.sf(c, dof))
        except Exception:  # pragma: no cover
            p = None
        return dict(points=int(n), cells=int(self.h.size), chi2=round(c, 3), dof=dof, p_value=p)


def one_case(ctx, spec, idx, Logged, Plain, pool):
    n, cs, seed = spec["n"], spec["cs"], spec["seed"]
    window = spec["window"]
    lims = tuple(float(np.deg2rad(x)) for x in window)
    centers = impl.AngularCoordinates(np.deg2rad(np.asarray(spec["centers"], dtype="f8")))
    gen = new_gen(Logged, spec, seed)
    # ---- arbitrary earlier use ----
    gen.vlog.clear()
    apply_history(ctx, gen, spec["hist"], centers, idx)
    hist_log = list(gen.vlog)
    seed_in_force = seed
    for h in spec["hist"]:
        if h[0] == "setseed":
            seed_in_force = h[1]
    # ---- the observed creation ----
    patch_kw = dict(patch_centers=centers) if spec["patch_num"] is None else \
        dict(patch_num=spec["patch_num"], probe_size=spec["probe_size"])
    gen.vlog.clear()
    cache = impl.fresh_dir(ctx, "cat_%d" % idx)
    cat = impl.Catalog.from_random(cache, gen, n, chunksize=cs, max_workers=1, **patch_kw)
    log = list(gen.vlog)
    stored = impl.patch_records(cat)
    # ---- the same creation with a generator that has never been used ----
    cache2 = impl.fresh_dir(ctx, "ref_%d" % idx)
    ref = impl.patch_records(impl.Catalog.from_random(cache2, new_gen(Plain, spec, seed_in_force), n,
                                                      chunksize=cs, max_workers=1, **patch_kw))
    rows, rows_ref = all_rows(stored), all_rows(ref)
    repro = rows == rows_ref
    if repro and spec["patch_num"] is None:
        repro = (sorted(stored) == sorted(ref) and
                 all(stored[p].tobytes() == ref[p].tobytes() and stored[p].dtype == ref[p].dtype for p in stored))
    # ---- another seed ----
    cache3 = impl.fresh_dir(ctx, "oth_%d" % idx)
    oth = impl.patch_records(impl.Catalog.from_random(cache3, new_gen(Plain, spec, seed_in_force + 1), n,
                                                      chunksize=cs, max_workers=1, **patch_kw))
    diffseed = all_rows(oth) != rows
    for d in (cache, cache2, cache3):
        shutil.rmtree(d, ignore_errors=True)
    # ---- encode ----
    arrs = [stored[p] for p in sorted(stored)]
    nstored = sum(len(a) for a in arrs)
    ras = [float(x) for a in arrs for x in a["ra"]]
    decs = [float(x) for a in arrs for x in a["dec"]]
    pool.add(ras, decs, lims, key=seed_in_force)
    cras, cdecs = clamp_near_ties(ctx, ras, decs, lims)
    wt, zt, pairs = attr_terms(spec, arrs)
    term = "c16_case %s %s %s %s %s %s %s %s %s %s %s %s %s %s %s %s %s %s" % (
        history_term(spec["hist"]), events_term(hist_log),
        fq.nat(n), fq.nat(cs), fq.opt(spec["probe_size"] if spec["patch_num"] is not None else None, fq.nat),
        events_term(log), fq.nat(nstored),
        fq.q(lims[0]), fq.q(lims[1]), fq.q(lims[2]), fq.q(lims[3]), fq.qlist(cras), fq.qlist(cdecs),
        wt, zt, pairs, fq.b(repro), fq.b(diffseed))
    # ---- a direct call after all that: exactly k records, in the window, joint attributes ----
    k = spec["direct"]
    out = gen(k)
    dras, ddecs = clamp_near_ties(ctx, [float(x) for x in out["ra"]], [float(x) for x in out["dec"]], lims)
    dwt, dzt, dpairs = attr_terms(spec, [out])
    dterm = "c16_direct %s %s %s %s %s %s %s %s %s %s %s" % (
        fq.nat(k), fq.nat(len(out)), fq.q(lims[0]), fq.q(lims[1]), fq.q(lims[2]), fq.q(lims[3]),
        fq.qlist(dras), fq.qlist(ddecs), dwt, dzt, dpairs)
    replay = dict(spec=spec, events=log, history_events=hist_log, nstored=nstored, seed_in_force=seed_in_force,
                  stored_rows=rows[:6], fresh_rows=rows_ref[:6])
    nontrivial = len(spec["hist"]) > 0 and n > 1
    ctx.count(key=repr(sorted(spec.items())), nontrivial=nontrivial,
              kind="%s/%s/%s" % (spec["wlabel"], spec["attrs"], "patch_num" if spec["patch_num"] else "centers"))
    ctx.bump("n_rel_cs:" + ("lt" if n < cs else "eq" if n == cs else "mult" if n % cs == 0 else "rem"))
    for h in spec["hist"]:
        ctx.bump("history:" + h[0])
    if not spec["hist"]:
        ctx.bump("history:none")
    ctx.sample(dict(spec=spec, events=log, history_events=hist_log, nstored=nstored), limit=3)
    return term, dterm, replay


def specs(ctx):
    rng = ctx.rng
    combos = []
    for cs in [1, 2, 3, 5, 8, 16]:
        for n in sorted({1, cs - 1, cs, cs + 1, 2 * cs, 2 * cs + 1, 3 * cs - 1} - {0}):
            combos.append((n, cs))
    total = ctx.n(100, 1500)
    out = []
    i = 0
    while len(out) < total:
        n, cs = combos[i % len(combos)]
        i += 1
        if rng.random() < 0.75:
            window, wlabel = WINDOWS[rng.randrange(len(WINDOWS))]
        else:
            ra0 = rng.randrange(-2880, 2880) / 8.0
            ra1 = ra0 + rng.choice([0.125, 1.0, 10.0, 90.0, 360.0])
            d0 = rng.randrange(-720, 712) / 8.0
            d1 = min(90.0, d0 + rng.choice([1.0, 10.0, 45.0, 180.0]))
            window, wlabel = (ra0, ra1, d0, d1), "random"
        attrs = rng.choice(["none", "w", "z", "both", "both", "both"])
        m = rng.choice([1, 2, 5, 17]) if attrs != "none" else 0
        ncent = rng.choice([1, 1, 2, 3]) if n >= 16 else 1   # a centre without any point must be refused (C09/C12)
        centers = []
        for _ in range(ncent):
            centers.append([window[0] + (window[1] - window[0]) * rng.randrange(0, 9) / 8.0,
                            max(-90.0, min(90.0, window[2] + (window[3] - window[2]) * rng.randrange(0, 9) / 8.0))])
        patch_num, probe_size = None, None
        if n >= 10 and rng.random() < 0.5:
            patch_num = 2 if (n >= 20 and rng.random() < 0.5) else 1
            probe_size = rng.randrange(10 * patch_num, n + 1)
        seed = rng.choice([0, 1, 12345, rng.randrange(2 ** 31), rng.randrange(2 ** 62)])
        out.append(dict(n=n, cs=cs, seed=seed, window=list(window), wlabel=wlabel, attrs=attrs, m=m,
                        centers=centers, patch_num=patch_num, probe_size=probe_size,
                        hist=gen_history(rng, True), direct=rng.choice([1, 2, 5])))
    return out


# ---------------------------------------------------------------------------------------------
# attribute tables with arbitrary content: non-finite entries, duplicates, one row, dtypes,
# containers, layouts
# ---------------------------------------------------------------------------------------------
FLOAT_DT = ("f8", "f4", "f2")
INT_DT = ("i8", "i4", "u1", "bool")
NF_PATTERNS = ("none", "disjoint_equal", "disjoint_unequal", "same_rows", "overlap_equal", "w_only", "z_only",
               "all_w", "all_z", "all_both")
DUP_PATTERNS = ("none", "dup_w", "dup_z", "dup_rows", "const")
CONTAINERS = ("ndarray", "list", "tuple", "series")
LAYOUTS = ("plain", "strided", "readonly", "reversed_view")


def f64bits(x):
    return struct.unpack("<Q", struct.pack("<d", float(x)))[0]


def fv(x):
    """value of a float64 as a Coq term of type fval (NaN is one value, -0.0 = 0.0)"""
    x = float(x)
    if math.isnan(x):
        return "FNaN"
    if math.isinf(x):
        return "FPInf" if x > 0 else "FNInf"
    return "(FFin %s)" % fq.q(x)


def base_column(col, dtype, m, fine=False):
    """m distinct finite values, exactly representable in the dtype (strings, so that a spec is JSON); the weights
    increase with the row number, the redshifts do not (a per-column reordering must break rows); fine = float64
    values that need the whole mantissa (no narrower dtype holds them)"""
    perm = [(7 * j + 3) % 32 for j in range(m)]
    if dtype == "bool":
        return [str(float(j % 2 == 0)) for j in range(m)]
    if dtype in INT_DT:
        return [str(float(j + 1 if col == "w" else 100 + perm[j])) for j in range(m)]
    if fine and dtype == "f8":
        return [repr((j + 1) * 0.5 + 2.0 ** -40 if col == "w" else 0.1 * (perm[j] + 1)) for j in range(m)]
    return [repr((j + 1) * 0.5 if col == "w" else (perm[j] + 1) / 1024.0) for j in range(m)]


def nf_rows(rng, pattern, m, mode):
    """rows of the weights / redshifts column that hold a non-finite entry"""
    rows = list(range(m))
    rng.shuffle(rows)
    c = rng.choice([1, 1, 2, 3])
    if pattern == "none":
        rw, rz = [], []
    elif pattern == "disjoint_equal":
        c = max(1, min(c, m // 2))
        rw, rz = rows[:c], rows[c:2 * c]
    elif pattern == "disjoint_unequal":
        a, b = rng.choice([(1, 2), (2, 1), (1, 3), (3, 1), (2, 3)])
        rw, rz = rows[:a], rows[a:a + b]
    elif pattern == "same_rows":
        rw = rz = rows[:min(c, m)]
    elif pattern == "overlap_equal":
        rw, rz = rows[0:2], rows[1:3]
    elif pattern == "w_only":
        rw, rz = rows[:min(c, m)], []
    elif pattern == "z_only":
        rw, rz = [], rows[:min(c, m)]
    elif pattern == "all_w":
        rw, rz = rows, []
    elif pattern == "all_z":
        rw, rz = [], rows
    else:
        rw, rz = rows, rows
    if mode == "w":
        rz = []
    if mode == "z":
        rw = []
    return sorted(rw), sorted(rz)


def make_table(rng, m, mode, nf, dup, wdt, zdt, container, layout, zero=False, fine=False):
    """a JSON-able description of one supplied table"""
    w = base_column("w", wdt, m, fine)
    z = base_column("z", zdt, m, fine)
    if zero and m >= 2:
        if wdt in FLOAT_DT:
            w[rng.randrange(m)] = rng.choice(["-0.0", "0.0"])
        if zdt in FLOAT_DT:
            z[rng.randrange(m)] = rng.choice(["-0.0", "0.0"])
    if dup == "dup_w":
        w = [w[j % 2] for j in range(m)]
    elif dup == "dup_z":
        z = [z[j % 2] for j in range(m)]
    elif dup == "dup_rows":
        h = max(1, (m + 1) // 2)
        w, z = [w[j % h] for j in range(m)], [z[j % h] for j in range(m)]
    elif dup == "const":
        w, z = [w[0]] * m, [z[0]] * m
    rw, rz = nf_rows(rng, nf, m, mode)
    if wdt not in FLOAT_DT:
        rw = []
    if zdt not in FLOAT_DT:
        rz = []
    for j in rw:
        w[j] = rng.choice(["nan", "nan", "inf", "-inf"])
    for j in rz:
        z[j] = rng.choice(["nan", "nan", "inf", "-inf"])
    if not rw and not rz:
        nf = "none"
    return dict(m=m, mode=mode, nf=nf, dup=dup, wdtype=wdt, zdtype=zdt, container=container, layout=layout,
                w=w if mode in ("w", "both") else None, z=z if mode in ("z", "both") else None,
                nf_rows_w=rw, nf_rows_z=rz)


def build_column(vals, dtype, container, layout):
    """(object handed to the generator, the same samples widened to float64)"""
    if vals is None:
        return None, None
    arr = np.array([float(v) for v in vals], dtype=dtype)
    wide = np.array(arr, dtype="f8")
    if layout == "strided":
        buf = np.zeros(2 * len(arr) + 1, dtype=dtype)
        buf[1::2] = arr
        arr = buf[1::2]
    elif layout == "reversed_view":
        arr = np.array(arr[::-1])[::-1]
    elif layout == "readonly":
        arr.setflags(write=False)
    if container == "list":
        arr = arr.tolist()
    elif container == "tuple":
        arr = tuple(arr.tolist())
    elif container == "series":
        import pandas as pd
        arr = pd.Series(np.array(arr))
    return arr, wide


def table_kwargs(table):
    w, ww = build_column(table["w"], table["wdtype"], table["container"], table["layout"])
    z, zw = build_column(table["z"], table["zdtype"], table["container"], table["layout"])
    kw = {}
    if w is not None:
        kw["weights"] = w
    if z is not None:
        kw["redshifts"] = z
    return kw, ww, zw


def twin_kwargs(table):
    idx = np.arange(table["m"], dtype="f8")
    kw = {}
    if table["w"] is not None:
        kw["weights"] = idx.copy()
    if table["z"] is not None:
        kw["redshifts"] = idx.copy()
    return kw


def table_plain(table):
    return (table["nf"] == "none" and table["dup"] == "none" and table["m"] > 1 and table["container"] == "ndarray"
            and table["layout"] == "plain" and table["wdtype"] == "f8" and table["zdtype"] == "f8"
            and not table["nf_rows_w"] and not table["nf_rows_z"])


def refusal_label(table, exc):
    """a refusal of an input the property does not promise to accept, or None"""
    if table["container"] != "ndarray" and isinstance(exc, (TypeError, ValueError, IndexError, KeyError)):
        return "refused:" + table["container"]
    used = [d for d, v in ((table["wdtype"], table["w"]), (table["zdtype"], table["z"])) if v is not None]
    if any(d in ("f2", "bool") for d in used) and isinstance(exc, (TypeError, ValueError)):
        return "refused:dtype"
    if (table["nf_rows_w"] or table["nf_rows_z"]) and isinstance(exc, ValueError):
        return "refused:nonfinite"
    return None


def attr_specs(ctx):
    rng = random.Random(ctx.rng.getrandbits(64))
    out = []

    def add(table, **over):
        window, wlabel = WINDOWS[rng.randrange(len(WINDOWS))]
        cs = rng.choice([2, 3, 5, 8])
        n = rng.choice([1, cs, cs + 1, 2 * cs + 1, 3 * cs - 1, 4 * cs])
        ncent = 2 if (n >= 16 and rng.random() < 0.4) else 1
        centers = [[window[0] + (window[1] - window[0]) * rng.randrange(0, 9) / 8.0,
                    max(-90.0, min(90.0, window[2] + (window[3] - window[2]) * rng.randrange(0, 9) / 8.0))]
                   for _ in range(ncent)]
        spec = dict(table=table, window=list(window), wlabel=wlabel,
                    seed=rng.choice([0, 1, 12345, rng.randrange(2 ** 31), rng.randrange(2 ** 62)]),
                    calls=[rng.choice([1, 2, 5, 16]), rng.choice([1, 3, 8])], n=n, cs=cs, centers=centers)
        spec.update(over)
        out.append(spec)

    # ---- a fixed grid: every placement of non-finite entries, every duplicate pattern, every dtype / container ----
    for nf in NF_PATTERNS:
        for m in (2, 5) if nf not in ("disjoint_unequal", "overlap_equal") else (5,):
            add(make_table(rng, m, "both", nf, "none", "f8", "f8", "ndarray", "plain"))
    add(make_table(rng, 17, "both", "disjoint_equal", "none", "f8", "f8", "ndarray", "plain"), calls=[16, 8], n=33, cs=8)
    add(make_table(rng, 3, "both", "disjoint_equal", "none", "f4", "f4", "ndarray", "plain"))
    add(make_table(rng, 1, "both", "none", "none", "f8", "f8", "ndarray", "plain"))
    add(make_table(rng, 5, "both", "none", "none", "f8", "f8", "ndarray", "plain", fine=True))
    add(make_table(rng, 8, "both", "disjoint_equal", "none", "f8", "f8", "ndarray", "plain", fine=True))
    add(make_table(rng, 1, "both", "all_both", "none", "f8", "f8", "ndarray", "plain"))
    for dup in DUP_PATTERNS[1:]:
        add(make_table(rng, 5, "both", "none", dup, "f8", "f8", "ndarray", "plain"))
        add(make_table(rng, 5, "both", "disjoint_equal", dup, "f8", "f8", "ndarray", "plain"))
    for dt in ("f4", "f2", "i8", "i4", "u1", "bool"):
        add(make_table(rng, 5, "both", "none", "none", dt, dt, "ndarray", "plain"))
    add(make_table(rng, 5, "both", "z_only", "none", "i8", "f4", "ndarray", "plain"))
    add(make_table(rng, 5, "both", "w_only", "none", "f4", "i4", "ndarray", "plain"))
    for cont in CONTAINERS[1:]:
        add(make_table(rng, 3, "both", "none", "none", "f8", "f8", cont, "plain"))
        add(make_table(rng, 3, "both", "disjoint_equal", "none", "f8", "f8", cont, "plain"))
    for lay in LAYOUTS[1:]:
        add(make_table(rng, 5, "both", "disjoint_equal", "none", "f8", "f8", "ndarray", lay))
    for mode in ("w", "z"):
        add(make_table(rng, 3, mode, "same_rows", "none", "f8", "f8", "ndarray", "plain"))
        add(make_table(rng, 1, mode, "none", "none", "f4", "f4", "ndarray", "plain"))
    # ---- random combinations ----
    total = ctx.n(90, 600)
    while len(out) < total:
        mode = rng.choice(["both", "both", "both", "both", "w", "z"])
        m = rng.choice([1, 2, 3, 3, 5, 8, 17])
        nf = rng.choice(NF_PATTERNS + ("disjoint_equal", "disjoint_equal", "none"))
        dup = rng.choice(DUP_PATTERNS + ("none", "none", "none"))
        wdt = rng.choice(FLOAT_DT + ("f8", "f8", "f4") + INT_DT[:3]) if rng.random() < 0.95 else "bool"
        zdt = wdt if rng.random() < 0.6 else rng.choice(FLOAT_DT + ("f8", "f4") + INT_DT[:3])
        cont = rng.choice(CONTAINERS) if rng.random() < 0.2 else "ndarray"
        lay = rng.choice(LAYOUTS) if rng.random() < 0.3 else "plain"
        add(make_table(rng, m, mode, nf, dup, wdt, zdt, cont, lay, zero=rng.random() < 0.15, fine=rng.random() < 0.3))
    return out


def attr_columns(arr, table):
    """stored (weights, redshifts) of one structured array as float lists; a missing column is the constant 0"""
    names = arr.dtype.names
    w = [float(x) for x in arr["weights"]] if "weights" in names else [0.0] * len(arr)
    z = [float(x) for x in arr["redshifts"]] if "redshifts" in names else [0.0] * len(arr)
    return w, z


def attr_term(k, subject, twin, fresh, table, ww, zw, lims, ctx):
    """subject / twin / fresh: lists of structured arrays (one per call or per stored patch, same order)"""
    m = table["m"]
    src_w = list(ww) if ww is not None else [0.0] * m
    src_z = list(zw) if zw is not None else [0.0] * m
    ras = [float(x) for a in subject for x in a["ra"]]
    decs = [float(x) for a in subject for x in a["dec"]]
    coords_same = (len(subject) == len(twin) and
                   all(len(a) == len(b) and a["ra"].tobytes() == b["ra"].tobytes() and a["dec"].tobytes() == b["dec"].tobytes()
                       for a, b in zip(subject, twin)))
    tcol = "weights" if table["w"] is not None else "redshifts"
    tidx = []
    for b in twin:
        for x in b[tcol]:
            x = float(x)
            tidx.append(int(x) if (math.isfinite(x) and x == int(x) and 0 <= x < 4000) else 4999)
    pw, pz = [], []
    for a in subject:
        w, z = attr_columns(a, table)
        pw += w
        pz += z
    repro = (len(subject) == len(fresh) and
             all(a.dtype == b.dtype and a.tobytes() == b.tobytes() for a, b in zip(subject, fresh)))
    cras, cdecs = clamp_near_ties(ctx, ras, decs, lims)
    term = "c16_attr_case %s %s %s %s %s %s %s %s %s %s %s %s %s %s %s %s %s %s" % (
        fq.nat(k), fq.nat(sum(len(a) for a in subject)), fq.nat(m),
        fq.q(lims[0]), fq.q(lims[1]), fq.q(lims[2]), fq.q(lims[3]), fq.qlist(cras), fq.qlist(cdecs),
        fq.lst(src_w, fv), fq.lst(src_z, fv),
        fq.zlist([f64bits(x) for x in src_w]), fq.zlist([f64bits(x) for x in src_z]),
        fq.nlist(tidx), fq.b(coords_same),
        fq.lst([fq.pair(fv(a), fv(b)) for a, b in zip(pw, pz)]),
        fq.lst([fq.pair(fq.z(f64bits(a)), fq.z(f64bits(b))) for a, b in zip(pw, pz)]),
        fq.b(repro))
    shown = dict(source_rows=[(repr(a), repr(b)) for a, b in zip(src_w, src_z)],
                 stored_pairs=[(repr(a), repr(b)) for a, b in zip(pw, pz)][:40],
                 twin_indices=tidx[:40], coords_same=coords_same, repro=repro)
    return term, shown


def attr_case(ctx, spec, idx, Plain):
    """-> list of (phase, term, replay) ; raises what the implementation raises on the SUBJECT only
    through AttrRefused / a plain exception"""
    table = spec["table"]
    window = spec["window"]
    lims = tuple(float(np.deg2rad(x)) for x in window)
    centers = impl.AngularCoordinates(np.deg2rad(np.asarray(spec["centers"], dtype="f8")))
    seed, n, cs = spec["seed"], spec["n"], spec["cs"]
    kw, ww, zw = table_kwargs(table)
    out = []
    with warnings.catch_warnings():
        warnings.simplefilter("ignore")
        # ---- the twin and the subject, driven identically ----
        twin = Plain(*window, seed=seed, **twin_kwargs(table))
        tw_calls = [twin(k) for k in spec["calls"]]
        gen = Plain(*window, seed=seed, **kw)
        sub_calls = [gen(k) for k in spec["calls"]]
        kw2, _, _ = table_kwargs(table)
        fresh = Plain(*window, seed=seed, **kw2)
        fr_calls = [fresh(k) for k in spec["calls"]]
        term, shown = attr_term(sum(spec["calls"]), sub_calls, tw_calls, fr_calls, table, ww, zw, lims, ctx)
        out.append(("direct", term, dict(spec=spec, phase="direct calls gen(k) for k in spec.calls", **shown)))
        # ---- the same (used) generators through Catalog.from_random ----
        recs = []
        for g, name in ((twin, "atw"), (gen, "asu"), (fresh, "afr")):
            d = impl.fresh_dir(ctx, "%s_%d" % (name, idx))
            try:
                cat = impl.Catalog.from_random(d, g, n, patch_centers=centers, chunksize=cs, max_workers=1)
                r = impl.patch_records(cat)
            finally:
                shutil.rmtree(d, ignore_errors=True)
            recs.append(r)
        tw, su, fr = recs
        order = sorted(su)
        term, shown = attr_term(n, [su[p] for p in order], [tw[p] for p in order if p in tw] if sorted(tw) == order else [],
                                [fr[p] for p in order if p in fr] if sorted(fr) == order else [], table, ww, zw, lims, ctx)
        out.append(("catalog", term, dict(spec=spec, phase="Catalog.from_random(n, chunksize=cs, patch_centers)", **shown)))
    return out


ATTR_FAILS = [
    (2, "c16-size", "the number of generated / stored records differs from the requested number"),
    (4, "c16-outside-window", "a point lies outside the requested RA/Dec window"),
    (8, "c16-attributes-not-joint", "a (weight, redshift) pair is not one row of the supplied samples (rows compared as "
        "values, NaN = NaN)"),
    (16, "c16-not-reproducible", "the records differ from those of a fresh generator with the same seed and the same samples"),
]


def run_attr_cases(ctx, Plain):
    terms, metas = [], []
    for idx, spec in enumerate(attr_specs(ctx)):
        table = spec["table"]
        key = "attr:" + repr(sorted((k, repr(v)) for k, v in spec.items()))
        kind = "attr/%s/%s/%s+%s/%s/%s" % (table["mode"], table["nf"], table["wdtype"], table["zdtype"],
                                          table["container"], table["dup"])
        try:
            res = attr_case(ctx, spec, idx, Plain)
        except Exception as e:
            if isinstance(e, ValueError) and ("contains no data" in str(e) or "patch centers and patch IDs with data do not match" in str(e)):
                ctx.bump("skipped_empty_centre")
                continue
            label = refusal_label(table, e)
            if label is not None:
                ctx.bump(label)
                ctx.bump("%s:%s" % (label, type(e).__name__))
                ctx.count(key=key, kind="attr/refused")
                continue
            ctx.count(key=key, kind="raised")
            ctx.fail("c16-raises:%s" % type(e).__name__,
                     "generating randoms from a valid attribute table raised %s: %s" % (type(e).__name__, e),
                     dict(spec=spec, traceback=traceback.format_exc()[-1500:]), case=("attr", idx))
            continue
        ctx.count(key=key, nontrivial=not table_plain(table) and max(spec["calls"]) > 1, kind=kind)
        ctx.bump("attr_nf:" + table["nf"])
        ctx.bump("attr_dup:" + table["dup"])
        ctx.bump("attr_container:" + table["container"])
        ctx.bump("attr_dtype:%s+%s" % (table["wdtype"], table["zdtype"]))
        ctx.sample(dict(attr_spec=spec), limit=5)
        for phase, term, replay in res:
            terms.append(term)
            metas.append((idx, phase, replay))
    codes = ctx.shards("Attr_C16", HEADER, terms, shard=60)
    for (idx, phase, replay), c in zip(metas, codes):
        if not c:
            continue
        for bit, sig, what in ATTR_FAILS:
            if c & bit:
                ctx.fail("%s:table-%s" % (sig, phase), "attribute table, %s: %s (code %d)" % (phase, what, c), replay,
                         case=("attr", idx))
        if c & 1:
            ctx.disagree("Attr_C16", ("attr", idx), dict(code=c, phase=phase, replay=replay))


# ---------------------------------------------------------------------------------------------
# several generator objects alive at once: 2-4 generators with different attribute sets, tables,
# windows and seeds, constructed before (or while) the others are used; their use is interleaved
# down to single chunks of open readers.  Model (Randoms.v, World): generators are independent
# values - C16_generators_independent.  Every object is laid next to the SAME object (same
# constructor arguments, same own operations) used alone.
# ---------------------------------------------------------------------------------------------
MULTI_MODES = ("none", "w", "z", "both")


def multi_tables(g):
    """the samples of one object; the rows of different objects are disjoint (base), so a row that
    comes from another object's table is no row of this one"""
    mode, m, base = g["attrs"], g["m"], g["base"]
    w = np.arange(base + 1, base + m + 1, dtype="f8") if mode in ("w", "both") else None
    z = (np.arange(base + 1, base + m + 1, dtype="f8") / 1024.0) if mode in ("z", "both") else None
    return w, z


def multi_new(cls, g):
    w, z = multi_tables(g)
    kw = {}
    if w is not None:
        kw["weights"] = w
    if z is not None:
        kw["redshifts"] = z
    gen = cls(*g["window"], seed=g["seed"], **kw)
    gen.vlog.clear()      # the constructor's reseed(seed) is not an operation of the schedule
    return gen


def multi_ops(rng):
    """the operations of ONE object, in its own order (without the object number)"""
    ops = []
    for _ in range(rng.choice([1, 2, 2, 3, 4])):
        kind = rng.choice(["call", "call", "df", "probe", "full", "reader", "reader", "catalog", "catalog",
                           "catalog_pn", "reseed", "setseed"])
        if kind in ("call", "df"):
            ops.append([kind, rng.choice([1, 2, 3, 7, 16])])
        elif kind == "probe":
            k = rng.choice([1, 2, 5])
            ops.append(["probe", k, k + rng.choice([0, 1, 9]), rng.choice([1, 2, 4])])
        elif kind == "full":
            cs = rng.choice([1, 2, 3, 5])
            ops.append(["full", rng.choice([1, cs, cs + 1, 2 * cs + 1]), cs])
        elif kind == "reader":   # a reader that stays open while the other objects are used: one item per chunk
            cs = rng.choice([1, 2, 3, 5])
            n = rng.choice([cs, cs + 1, 2 * cs, 2 * cs + 1, 3 * cs + 1])
            nchunks = -(-n // cs)
            ops.append(["open", n, cs])
            for j in range(rng.choice([nchunks, nchunks, rng.randrange(1, nchunks + 1)])):
                ops.append(["next", j, n, cs])
        elif kind == "catalog":
            cs = rng.choice([2, 3, 5])
            ops.append(["catalog", rng.choice([1, cs, cs + 1, 2 * cs + 1, 3 * cs - 1]), cs])
        elif kind == "catalog_pn":
            n = rng.choice([10, 11, 16, 21])
            ops.append(["catalog_pn", n, rng.choice([3, 5, 8]), rng.randrange(10, n + 1)])
        elif kind == "reseed":
            ops.append(["reseed"])
        else:
            ops.append(["setseed", rng.choice([0, 0, 1, 12345, 2 ** 32, rng.randrange(0, 2 ** 31), rng.randrange(2 ** 62)])])   # every legal seed VALUE, the falsy one too
    return ops


def multi_gen_spec(rng, gi, mode, window=None, seed=None):
    if window is None:
        window, wlabel = WINDOWS[rng.randrange(len(WINDOWS))]
    else:
        window, wlabel = window
    if seed is None:
        seed = rng.choice([0, 1, 12345, rng.randrange(2 ** 31), rng.randrange(2 ** 62)])
    return dict(attrs=mode, m=(rng.choice([1, 2, 5, 17]) if mode != "none" else 0), base=32 * gi,
                window=list(window), wlabel=wlabel, seed=seed)


def multi_specs(ctx):
    rng = random.Random(ctx.rng.getrandbits(64))
    out = []
    # ---- a fixed grid: every ordered pair of different attribute sets; both objects exist before either is used ----
    for a in MULTI_MODES:
        for b in MULTI_MODES:
            if a == b:
                continue
            gens = [multi_gen_spec(rng, 0, a), multi_gen_spec(rng, 1, b)]
            cs = rng.choice([2, 3, 5])
            sched = [["new", 0], ["new", 1],
                     [0, "call", rng.choice([2, 5, 16])], [1, "call", rng.choice([2, 5, 16])],
                     [0, "catalog", rng.choice([cs + 1, 2 * cs + 1]), cs], [1, "catalog", rng.choice([cs, 3 * cs - 1]), cs],
                     [1, "probe", 2, 5, 2], [0, "probe", 2, 5, 2]]
            out.append(dict(gens=gens, sched=sched, created="early", solo_first=rng.random() < 0.5))
    # ---- random worlds ----
    total = ctx.n(40, 400)
    while len(out) < total:
        G = rng.choice([2, 2, 3, 3, 4])
        modes = rng.sample(MULTI_MODES, G) if rng.random() < 0.8 else [rng.choice(MULTI_MODES) for _ in range(G)]
        gens = []
        for gi in range(G):
            share_w = gi > 0 and rng.random() < 0.3
            share_s = gi > 0 and rng.random() < 0.3
            gens.append(multi_gen_spec(rng, gi, modes[gi],
                                       window=(gens[0]["window"], gens[0]["wlabel"]) if share_w else None,
                                       seed=gens[0]["seed"] if share_s else None))
        created = rng.choice(["early", "early", "early", "staggered", "staggered"])
        seqs = [[[gi] + op for op in multi_ops(rng)] for gi in range(G)]
        sched = []
        if created == "early":
            order = list(range(G))
            rng.shuffle(order)
            sched += [["new", gi] for gi in order]
        else:
            seqs = [[["new", gi]] + sq for gi, sq in enumerate(seqs)]
        ptr = [0] * G
        while any(ptr[gi] < len(seqs[gi]) for gi in range(G)):
            gi = rng.choice([g for g in range(G) if ptr[g] < len(seqs[g])])
            sched.append(seqs[gi][ptr[gi]])
            ptr[gi] += 1
        # every object is used once more when all of them exist
        order = list(range(G))
        rng.shuffle(order)
        for gi in order:
            if rng.random() < 0.5:
                sched.append([gi, "call", rng.choice([1, 2, 5])])
            else:
                cs = rng.choice([2, 3, 5])
                sched.append([gi, "catalog", rng.choice([cs, cs + 1, 2 * cs + 1]), cs])
        out.append(dict(gens=gens, sched=sched, created=created, solo_first=rng.random() < 0.5))
    return out


def multi_ops_term(item):
    """the operations of the model (on one object) behind one item of a schedule"""
    kind, a = item[1], item[2:]
    if kind in ("call", "df"):
        return "[Draw %s]" % fq.nat(a[0])
    if kind == "reseed":
        return "[Reseed]"
    if kind == "setseed":
        return "[SetSeed tt]"
    if kind == "probe":
        return "[Reseed; Probe %s]" % fq.nat(a[0])
    if kind == "full":
        return "[Reseed; Pass %s %s]" % (fq.nat(a[0]), fq.nat(a[1]))
    if kind == "open":
        return "[Reseed; Reseed]"
    if kind == "next":
        return "[Draw (nth %s (random_sizes %s %s) 0)]" % (fq.nat(a[0]), fq.nat(a[1]), fq.nat(a[2]))
    if kind == "catalog":
        return "(from_random_ops %s %s None)" % (fq.nat(a[0]), fq.nat(a[1]))
    if kind == "catalog_pn":
        return "(from_random_ops %s %s (Some %s))" % (fq.nat(a[0]), fq.nat(a[1]), fq.nat(a[2]))
    raise ValueError(item)


class MultiRunner:
    """runs a schedule on real generator objects; per object the list of results of its items:
    dict(item, arrays, header) or dict(item, raised, msg); an object that raised is left alone afterwards"""

    def __init__(self, ctx, cls, gens, tag):
        self.ctx, self.cls, self.gspecs, self.tag = ctx, cls, gens, tag
        self.gens, self.readers, self.dead = {}, {}, set()
        self.results = {gi: [] for gi in range(len(gens))}
        self.ndirs = 0

    def centre(self, gi):
        w = self.gspecs[gi]["window"]
        return impl.AngularCoordinates(np.deg2rad(np.asarray([[(w[0] + w[1]) / 2.0, (w[2] + w[3]) / 2.0]], dtype="f8")))

    def catalog(self, gi, gen, n, cs, **kw):
        self.ndirs += 1
        d = impl.fresh_dir(self.ctx, "%s_%d" % (self.tag, self.ndirs))
        try:
            cat = impl.Catalog.from_random(d, gen, n, chunksize=cs, max_workers=1, **kw)
            stored = impl.patch_records(cat)
            header = (bool(cat.has_weights), bool(cat.has_redshifts), int(sum(cat.get_num_records())))
        finally:
            shutil.rmtree(d, ignore_errors=True)
        return [stored[p] for p in sorted(stored)], header

    def apply(self, gi, item):
        from yaw.catalog.readers import RandomReader
        gen, kind, a = self.gens[gi], item[1], item[2:]
        if kind == "call":
            return [gen(a[0])], None
        if kind == "df":
            df = gen.generate_dataframe(a[0], degrees=False)
            arr = np.empty(len(df), dtype=[(str(c), "f8") for c in df.columns])
            for c in df.columns:
                arr[str(c)] = np.asarray(df[c], dtype="f8")
            return [arr], None
        if kind == "reseed":
            gen.reseed()
            return [], None
        if kind == "setseed":
            gen.reseed(a[0])
            return [], None
        if kind == "probe":
            return [RandomReader(gen, a[1], a[2]).get_probe(a[0])], None
        if kind == "full":
            return [np.array(c) for c in RandomReader(gen, a[0], a[1])], None
        if kind == "open":
            self.readers[gi] = iter(RandomReader(gen, a[0], a[1]))
            return [], None
        if kind == "next":
            return [np.array(next(self.readers[gi]))], None
        if kind == "catalog":
            return self.catalog(gi, gen, a[0], a[1], patch_centers=self.centre(gi))
        if kind == "catalog_pn":
            return self.catalog(gi, gen, a[0], a[1], patch_num=1, probe_size=a[2])
        raise ValueError(item)

    def run(self, sched):
        for item in sched:
            if item[0] == "new":
                self.gens[item[1]] = multi_new(self.cls, self.gspecs[item[1]])
                continue
            gi = item[0]
            if gi in self.dead:
                continue
            try:
                with warnings.catch_warnings():
                    warnings.simplefilter("ignore")
                    arrays, header = self.apply(gi, item)
            except Exception as e:
                self.results[gi].append(dict(item=item, raised=type(e).__name__, msg=str(e)[:300],
                                             traceback=traceback.format_exc()[-1200:]))
                self.dead.add(gi)
                continue
            self.results[gi].append(dict(item=item, arrays=arrays, header=header))
        return self


def multi_same(item, a, b):
    """the records of one item, bit for bit (patch_num: k-means centres are an oracle, the union of the patches)"""
    if a["header"] != b["header"]:
        return False
    if item[1] == "catalog_pn":
        return ([x.dtype for x in a["arrays"]][:1] == [x.dtype for x in b["arrays"]][:1]
                and sorted(r for x in a["arrays"] for r in hexrows(x)) == sorted(r for x in b["arrays"] for r in hexrows(x)))
    return (len(a["arrays"]) == len(b["arrays"])
            and all(x.dtype == y.dtype and x.tobytes() == y.tobytes() for x, y in zip(a["arrays"], b["arrays"])))


def multi_fields(res, col, want):
    """does the group carry the column: the adverse observation counts (a catalog header that claims a column its
    records lack, or the reverse, is a column in the wrong state)"""
    seen = [col in (x.dtype.names or ()) for x in res["arrays"]]
    if res["header"] is not None:
        seen.append(res["header"][0 if col == "weights" else 1])
    if not seen:
        return want
    return all(seen) if want else any(seen)


def multi_case(ctx, spec, idx, Logged):
    """-> list of (gi, term or None, replay, raises) for the objects of one world"""
    gens, sched = spec["gens"], spec["sched"]
    G = len(gens)

    def solo_all():
        res = {}
        for gi in range(G):    # one object at a time: constructed, used on its own operations, dropped
            r = MultiRunner(ctx, Logged, gens, "ms%d_%d" % (idx, gi)).run([["new", gi]] + [it for it in sched if it[0] == gi])
            res[gi] = (r.results[gi], list(r.gens[gi].vlog))
            del r
        return res

    solo = solo_all() if spec["solo_first"] else None
    world = MultiRunner(ctx, Logged, gens, "mw%d" % idx).run(sched)
    multi = {gi: (world.results[gi], list(world.gens[gi].vlog)) for gi in range(G)}
    del world
    if solo is None:
        solo = solo_all()
    out = []
    for gi in range(G):
        g = gens[gi]
        hw, hz = g["attrs"] in ("w", "both"), g["attrs"] in ("z", "both")
        lims = tuple(float(np.deg2rad(x)) for x in g["window"])
        (mres, mlog), (sres, slog) = multi[gi], solo[gi]
        raises, groups, shown = [], [], []
        ras, decs, pairs = [], [], []
        w, z = multi_tables(g)
        for a, b in zip(mres, sres):
            if "raised" in a or "raised" in b:
                for r, where in ((a, "other-generators-alive"), (b, "alone")):
                    if "raised" in r:
                        raises.append(dict(where=where, item=r["item"], raised=r["raised"], msg=r["msg"], traceback=r["traceback"]))
                break
            item = a["item"]
            nobs = sum(len(x) for x in a["arrays"])
            fw, fz = multi_fields(a, "weights", hw), multi_fields(a, "redshifts", hz)
            same = multi_same(item, a, b)
            groups.append("MO %s %s %s %s %s" % (multi_ops_term(item), fq.nat(nobs), fq.b(fw), fq.b(fz), fq.b(same)))
            shown.append(dict(item=item, records=nobs, has_weights=fw, has_redshifts=fz, header=a["header"], same_as_alone=same,
                              fields=[list(x.dtype.names or ()) for x in a["arrays"]][:3],
                              fields_alone=[list(x.dtype.names or ()) for x in b["arrays"]][:3],
                              rows=[r for x in a["arrays"] for r in hexrows(x)][:3],
                              rows_alone=[r for x in b["arrays"] for r in hexrows(x)][:3]))
            for x in a["arrays"]:
                names = x.dtype.names or ()
                if "ra" in names and "dec" in names:
                    ras += [float(v) for v in x["ra"]]
                    decs += [float(v) for v in x["dec"]]
                if (hw or hz) and fw == hw and fz == hz:
                    for rec in x:
                        pairs.append(fq.pair(fq.q(rec["weights"]) if "weights" in names else "0%Q",
                                             fq.q(rec["redshifts"]) if "redshifts" in names else "0%Q"))
        cras, cdecs = clamp_near_ties(ctx, ras, decs, lims)
        if hw or hz:
            wt = fq.qlist(w if w is not None else [0] * g["m"])
            zt = fq.qlist(z if z is not None else [0] * g["m"])
        else:
            wt, zt = "[]", "[]"
        replay = dict(spec=spec, object=gi, object_spec=g, groups=shown, events=mlog, events_alone=slog)
        term = None
        if not raises:
            term = "c16_multi_gen %s %s %s %s %s %s %s %s %s %s %s %s %s %s" % (
                fq.b(hw), fq.b(hz), fq.lst(groups), events_term(mlog), events_term(slog),
                fq.q(lims[0]), fq.q(lims[1]), fq.q(lims[2]), fq.q(lims[3]), fq.qlist(cras), fq.qlist(cdecs),
                wt, zt, fq.lst(pairs))
        out.append((gi, term, replay, raises))
    return out


MULTI_FAILS = [
    (2, "c16-size", "a call / pass / catalog of this generator holds another number of records than requested"),
    (4, "c16-outside-window", "a point of this generator lies outside ITS requested RA/Dec window"),
    (8, "c16-attributes-not-joint", "a (weight, redshift) pair is not one row of the samples supplied to THIS generator"),
    (16, "c16-not-reproducible", "the records differ from those of the same generator (same arguments, same seed, same own "
         "operations) used alone: constructing / using other generators changed them"),
    (32, "c16-attributes-missing", "the records / the catalog do not carry exactly the attributes (weights, redshifts) this "
         "generator was given"),
]


def run_multi_cases(ctx, Logged):
    terms, metas = [], []
    for idx, spec in enumerate(multi_specs(ctx)):
        key = "multi:" + repr(spec)
        modes = [g["attrs"] for g in spec["gens"]]
        try:
            res = multi_case(ctx, spec, idx, Logged)
        except Exception as e:   # the harness itself, not an operation of a schedule (those are caught per item)
            ctx.count(key=key, kind="raised")
            ctx.fail("c16-raises:%s:several-generators" % type(e).__name__,
                     "driving several generators raised %s: %s" % (type(e).__name__, e),
                     dict(spec=spec, traceback=traceback.format_exc()[-1500:]), case=("multi", idx))
            continue
        ctx.count(key=key, nontrivial=len(set(modes)) > 1, kind="multi/%d/%s" % (len(modes), spec["created"]))
        ctx.bump("multi_objects:%d" % len(modes))
        ctx.bump("multi_created:" + spec["created"])
        for it in spec["sched"]:
            if it[0] != "new":
                ctx.bump("multi_op:" + it[1])
        ctx.sample(dict(multi_spec=spec), limit=2)
        for gi, term, replay, raises in res:
            for r in raises:
                ctx.fail("c16-raises:%s:%s" % (r["raised"], r["where"]),
                         "a valid request to generator %d (%s) raised %s: %s" % (gi, r["where"], r["raised"], r["msg"]),
                         dict(replay, raised=r), case=("multi", idx, gi))
            if term is not None:
                terms.append(term)
                metas.append((idx, gi, replay))
    codes = ctx.shards("Multi_C16", HEADER, terms, shard=60)
    for (idx, gi, replay), c in zip(metas, codes):
        if not c:
            continue
        for bit, sig, what in MULTI_FAILS:
            if c & bit:
                ctx.fail(sig + ":other-generators-alive", "generator %d of %d alive at once: %s (code %d)"
                         % (gi, len(replay["spec"]["gens"]), what, c), replay, case=("multi", idx, gi))
        if c & 1:
            ctx.disagree("Multi_C16", ("multi", idx, gi), dict(code=c, replay=replay))


def uniformity_report(ctx, Plain, pool):
    """chi-square of area uniformity on an equal-area grid (ra x sin dec); statistic only"""
    rep = {"pooled_case_points_4x4": pool.chi2(), "large_samples_8x8": []}
    for window in ([0.0, 360.0, -90.0, 90.0], [350.0, 370.0, -90.0, -60.0], [0.0, 10.0, -5.0, 5.0],
                   [-10.0, 10.0, 60.0, 90.0]):
        seed = ctx.rng.randrange(2 ** 31)
        out = Plain(*window, seed=seed)(ctx.n(20000, 100000))
        p = Pool2D(8)
        p.add(out["ra"], out["dec"], tuple(float(np.deg2rad(x)) for x in window))
        r = p.chi2()
        r.update(window=window, seed=seed)
        rep["large_samples_8x8"].append(r)
    # the same statistic on catalogs created in several chunks (what users make): chunks must be independent draws
    import shutil
    for window, n, cs in (([0.0, 360.0, -90.0, 90.0], ctx.n(40000, 120000), 5000), ([20.0, 40.0, -30.0, 10.0], ctx.n(24000, 60000), 1500)):
        seed = ctx.rng.randrange(2 ** 31)
        cache = impl.fresh_dir(ctx, "uniform_chunked")
        centre = impl.AngularCoordinates(np.deg2rad([[(window[0] + window[1]) / 2.0, (window[2] + window[3]) / 2.0]]))
        cat = impl.Catalog.from_random(cache, Plain(*window, seed=seed), n, patch_centers=centre, chunksize=cs, max_workers=1)
        recs = np.concatenate([arr for arr in impl.patch_records(cat).values()])
        shutil.rmtree(cache, ignore_errors=True)
        p = Pool2D(8)
        p.add(recs["ra"], recs["dec"], tuple(float(np.deg2rad(x)) for x in window))
        r = p.chi2()
        distinct = len(set(zip(recs["ra"].tolist(), recs["dec"].tolist())))
        r.update(window=window, seed=seed, chunked=dict(n=n, chunksize=cs, chunks=-(-n // cs), distinct_points=distinct))
        rep["large_samples_8x8"].append(r)
    ps = [r["p_value"] for r in rep["large_samples_8x8"] if r and r.get("p_value") is not None]
    rep["min_p_value"] = min(ps) if ps else None
    rep["note"] = ("a statistic, not a theorem; only a p-value below 1e-12 on a 20000+ point sample (probability of a false "
                   "alarm per run < 1e-11) is reported as a failure of 'uniformly distributed in area'")
    ctx.extra["area_uniformity_chi2"] = rep
    worst = [r for r in rep["large_samples_8x8"] if r and r.get("p_value") is not None and r["p_value"] < 1e-12]
    if worst:
        ctx.fail("c16-area-not-uniform", "points are grossly non-uniform in area (chi-square p < 1e-12 on an 8x8 equal-area grid): %s"
                 % [(r["window"], r.get("chi2"), r.get("chunked")) for r in worst], dict(samples=worst))
    ctx.log("area uniformity (statistic only): pooled %s ; min p over large samples %s"
            % (rep["pooled_case_points_4x4"], rep["min_p_value"]))


FAILS = [
    (2, "c16-size", "the number of stored records / the sizes of the generator calls of the pass differ from the requested number"),
    (4, "c16-outside-window", "a stored point lies outside the requested RA/Dec window"),
    (8, "c16-attributes-not-joint", "a stored (weight, redshift) pair is not one row of the supplied samples"),
    (16, "c16-not-reproducible", "the points differ from those of a fresh generator with the same seed (earlier use of the generator changed them)"),
    (32, "c16-seed-ignored", "two different seeds produced identical points"),
]


def run(ctx):
    Logged, Plain = make_logged()
    impl.set_threads(1)
    pool = Pool2D(4)
    terms, dterms, replays = [], [], []
    for idx, spec in enumerate(specs(ctx)):
        try:
            term, dterm, replay = one_case(ctx, spec, idx, Logged, Plain, pool)
        except Exception as e:  # a valid request must not raise
            if isinstance(e, ValueError) and spec.get("centers") and ("contains no data" in str(e) or "patch centers and patch IDs with data do not match" in str(e)):
                # one of the given centres attracted no random point: creation must refuse (C09/C12)
                ctx.bump("skipped_empty_centre")
                continue
            ctx.count(key=repr(sorted(spec.items())), kind="raised")
            ctx.fail("c16-raises:%s" % type(e).__name__,
                     "creating a random catalog for a valid request raised %s: %s" % (type(e).__name__, e),
                     dict(spec=spec, traceback=traceback.format_exc()[-1500:]), case=idx)
            continue
        terms.append(term)
        dterms.append(dterm)
        replays.append((idx, replay))
    codes = ctx.shards("Cases_C16", HEADER, terms, shard=50)
    for (idx, replay), c in zip(replays, codes):
        if not c:
            continue
        for bit, sig, what in FAILS:
            if c & bit:
                ctx.fail(sig, "%s (code %d)" % (what, c), replay, case=idx)
        if c & 1 or c & 64:
            ctx.disagree("Cases_C16", idx, dict(code=c, replay=replay))
    dcodes = ctx.shards("Direct_C16", HEADER, dterms, shard=200)
    for (idx, replay), c in zip(replays, dcodes):
        if not c:
            continue
        for bit, sig, what in FAILS[:3]:
            if c & bit:
                ctx.fail(sig + "-direct", "direct call gen(k): %s (code %d)" % (what, c), replay, case=("direct", idx))
    run_attr_cases(ctx, Plain)
    run_multi_cases(ctx, Logged)
    from props import c16_ambient
    c16_ambient.run_ambient_cases(ctx, sys.modules[__name__], Logged, Plain)
    try:
        uniformity_report(ctx, Plain, pool)
    except Exception as e:  # the statistic is never a failure
        ctx.extra["area_uniformity_chi2"] = {"error": "%s: %s" % (type(e).__name__, e)}
