"""C03 — jackknife sample k is the statistic with patch k left out.

Tie: (a) random small dyadic / integer count and weight arrays (bins 1-4, patches 2-7, auto and
cross, sparse and dense) are put into the real containers (PatchedCounts, PatchedSumWeights,
NormalisedCounts, CorrFunc, and real small catalogs -> HistData.from_catalog); the observed
`.sample_patch_sum()`, `.sample().samples/.covariance/.error`, `RedshiftData.from_corrfuncs().samples`,
`HistData.samples` are compared inside Coq with Model/Jackknife.v + Model/Estimators.v: with the
model of the code (total - row - col + diag, ...) and with the specification (the statistic
recomputed with patch k deleted from every array).  (b) symbolic traces of the real
sample_patch_sum / get_array / NormalisedCounts.sample_patch_sum are re-proved equal to the
specification by `ring` on every run.  (c) samples with undefined entries: bins whose objects /
pairs sit in ONE patch (leaving that patch out gives 0/0 or x/0), empty bins, negative radicands
of the n(z) formula, and directly built CorrData / RedshiftData / HistData with NaN / +-inf cells:
.covariance / .error are compared entry-wise with Model/Jackknife.v:cov_opt (for every pair of bins
that is finite in ALL samples: the delete-one covariance over ALL N samples; Props/C03:
C03_cov_opt_defined, C03_cov_code_columns, C03_cov_drop_refuted).
(d) magnitudes: every scenario above again on arrays far from order one - counts, weights, both (object weights of
2^-40..2^-8 or 2^+8..2^+40 per catalog, so that counts carry the product), a common factor per bin (CorrFunc * c), every
bin of every member on a scale of its own, per-patch spreads; samples of directly built containers, CorrData handed to
RedshiftData.from_corrdata and catalog weights of histograms multiplied by 2^-100..2^+100.  All factors are powers of
two, so the float64 sums stay exact and the Q model is compared as before (Props/C03: C03_loo_homogeneous,
C03_normalisation_homogeneous, C03_nc_sample_weight_invariant, C03_threshold_refuted).  (e) the real pipeline:
small catalogs with weights of order one, 2^-40..2^-20 and 2^+20..2^+40, with and without rweight -> crosscorrelate /
autocorrelate -> CorrFunc.sample() / RedshiftData.from_corrfuncs(): the samples against the model on the pair counts the
measurement stored, and sample k against the measurement repeated on the catalogs without patch k (c03_rerun_case).  (f) derived containers: the container that is
sampled was selected / combined first - .patches[...] with index lists in any order (unsorted, negative, numpy arrays,
permutations, rotations), reversed and stepped slices, masks, applied once or twice; .bins[...] and iteration over bins
before or after; + another container, sum([...]), * scalar; to_file / from_file, pickle, deepcopy - through PatchedCounts,
PatchedSumWeights, NormalisedCounts, CorrFunc (generated and measured) and RedshiftData.from_corrfuncs.  The model gets the
arrays AS CONSTRUCTED plus the list of operations (Model/Jackknife.v: deriv, derive): sample k must be the statistic of the
original data restricted to the selected patches without the k-th selected one (Props/C03: C03_selection_loo,
C03_selection_sample, C03_selection_nc_sample_is_recount, C03_selection_twice, C03_selection_mixed_order_refuted).
"""
import math
import os

import numpy as np

from lib import floatq as fq
from lib import impl
from props import _jk_common as jk

ALLOWED_AXIOMS = []
TRUSTED = [
    "symbolic-trace translator (harness/props/_jk_common.py: operator-overloading symbols in numpy object arrays; "
    "assumes the traced functions branch only on structure, not on values; containers built with __new__ so that no "
    "astype(float64) runs)",
    "numpy kernels (einsum, tile, triu, cov, sqrt, histogram) and pandas are exercised, not modelled; float64 sums of the "
    "generated small dyadic numbers are exact, quotients are compared with a relative 2^-48 bound (forward error bound "
    "for the estimator, 2^-44 of the natural scale for the covariance)",
    "per-patch histograms handed to the model are computed by the harness from redshifts placed strictly inside bins "
    "(bin-edge membership is C10's subject)",
    "real-pipeline cases: the pair counts and sums of weights the measurement stored in the CorrFunc are taken as the data of "
    "the model; that these are the pair counts of the catalogs is C01 / C10's subject.  With rweight the stored counts are "
    "not dyadic: the float64 leave-one-out sums round, the comparison uses 2^-40 of the forward error scale instead of 2^-48",
    "derived containers: an index expression (slice with any step, list, integer array, mask) is resolved to patch / bin "
    "positions by numpy itself (np.arange(n)[item]) and handed to the model as a list of positions (what an index expression "
    "selects is C17's subject); the addend of a sum is built by the harness with the sums of weights the caller's own "
    "bookkeeping (numpy indexing of the constructor arguments) gives; files, pickle and deepcopy are modelled as the identity",
]
ASSUMPTIONS = [
    "histogram rows are compared for max_workers=1 (row order under parallel completion is C05's subject)",
    "where an exact denominator is zero (empty normalisation) the quotient is undefined and nothing is compared",
    "covariance entries of a bin that has a non-finite sample have no value in the property's formula: that the "
    "implementation reports a non-finite float there is part of the model tie (ctx.disagree), not of the property",
    "containers with a single sample (one patch) are outside the property (patches >= 2)",
    "magnitudes: all factors are powers of two between 2^-100 and 2^+100 (no float64 underflow / overflow in sums, products "
    "and covariances); sample k of a real measurement is compared with the measurement repeated without patch k only where "
    "both are numbers (a leave-one-out sum that is exactly 0 in one order of summation can be a rounding residual in another)",
    "derived containers: selections keep >= 2 different patches and >= 1 bin, no patch is selected twice, bins are selected in "
    "ascending order; an operation the implementation refuses is counted (derived_refused/*), not alarmed; samples that are the "
    "leave-one-out statistics of the selected patches in ASCENDING order instead of the caller's order are reported as a broken "
    "tie (c03_derived_patch_order), not as a failing input: which patch sits at position k of a selection is C17's subject",
]
RULE = ("cases = one container (PatchedCounts | PatchedSumWeights | NormalisedCounts | CorrFunc with a subset of dr/rd/rr | "
        "triple of CorrFuncs for n(z) | catalog for a histogram) with its arrays; distinct by all array entries; "
        "non-trivial when patches >= 2 and the samples differ between at least two patches (so that a permuted, "
        "mis-signed or incomplete leave-one-out sum changes the output); magnitude cases (kind label .../mag:<profile>) are the "
        "same kinds of case on power-of-two scaled arrays, pipeline cases (kind pipeline/...) are real measurements; the "
        "histograms loo-count-magnitude/* and sample-magnitude/* say which decades the smallest non-zero leave-one-out "
        "pair-count sum and the samples reached; derived cases (kind derived/<container>/<operations>/<kind of patch index>) are "
        "a container as constructed plus the operations performed before sampling, distinct by arrays and operations; the "
        "counters derived_selection_order:* say how many of them selected patches in a non-ascending order")

KNOWN_HIST_SIG = "c03-hist-samples-reversed"


# ----------------------------------------------------------------------------- handlers
def h_sps(ctx):
    def h(c, case, replay):
        if c & 2:
            ctx.fail("c03-sps-sample-not-loo", "PatchedCounts.sample_patch_sum(): sample k is not the sum with patch k "
                     "left out (code %d)" % c, replay, case=case)
        if c & 1:
            ctx.disagree("c03_sps_case", case, dict(code=c, replay=replay))
    return h


def h_weights(ctx):
    def h(c, case, replay):
        if c & 2:
            ctx.fail("c03-weights-sample-not-loo", "PatchedSumWeights.sample_patch_sum(): sample k is not the "
                     "normalisation recomputed without patch k (code %d)" % c, replay, case=case)
        if c & 4:
            ctx.fail("c03-weights-total", "PatchedSumWeights total is not W1*W2 (cross) / the upper-triangle sum (auto) "
                     "(code %d)" % c, replay, case=case)
        if c & 1:
            ctx.disagree("c03_weights_case", case, dict(code=c, replay=replay))
    return h


def h_nc(ctx):
    def h(c, case, replay):
        if c & 2:
            ctx.fail("c03-nc-sample-not-recount", "NormalisedCounts.sample_patch_sum(): sample k is not the normalised "
                     "count recomputed without patch k (code %d)" % c, replay, case=case)
        if c & 1:
            ctx.disagree("c03_nc_case", case, dict(code=c, replay=replay))
    return h


def h_corr(ctx):
    def h(c, case, replay):
        if c & 2:
            ctx.fail("c03-corr-sample-not-recount", "CorrFunc.sample().samples[k] is not the estimator of the pair counts "
                     "with patch k removed (code %d)" % c, replay, case=case)
        if c & 1:
            ctx.disagree("c03_corr_case", case, dict(code=c, replay=replay))
    return h


def h_cov(ctx):
    def h(c, case, replay):
        if c & 1:
            ctx.fail("c03-covariance-not-jackknife", "covariance is not (N-1)/N sum_k (x_k - mean)(x_k - mean)^T of the "
                     "container's own samples (code %d)" % c, replay, case=case)
        if c & 2:
            ctx.fail("c03-covariance-asymmetric", "covariance matrix is not symmetric (code %d)" % c, replay, case=case)
        if c & 4:
            ctx.fail("c03-error-not-diag-root", "error is not the non-negative root of the covariance diagonal (code %d)" % c,
                     replay, case=case)
        if c & 8:
            ctx.fail("c03-covariance-not-psd", "v^T C v < 0 for a probe vector (code %d)" % c, replay, case=case)
    return h


def h_covopt(ctx):
    def h(c, case, replay):
        if c & 2:
            ctx.fail("c03-covariance-defined-bins-not-jackknife", "some samples are undefined (non-finite) in some bin; for a "
                     "pair of bins that is finite in ALL samples the covariance is not (N-1)/N sum_k (x_k - mean)(x_k - mean)^T "
                     "over all N of the container's own samples (code %d)" % c, replay, case=case)
        if c & 4:
            ctx.fail("c03-covariance-asymmetric", "covariance matrix is not symmetric on the bins that are finite in all "
                     "samples (code %d)" % c, replay, case=case)
        if c & 8:
            ctx.fail("c03-error-not-diag-root", "error is not the non-negative root of the covariance diagonal on the bins "
                     "that are finite in all samples (code %d)" % c, replay, case=case)
        if c & 16:
            ctx.fail("c03-covariance-not-psd", "v^T C v < 0 for a probe vector supported on the bins that are finite in all "
                     "samples (code %d)" % c, replay, case=case)
        if c & 1:
            ctx.disagree("c03_covopt_case", case, dict(code=c, replay=replay, detail="covariance / error are numbers on "
                         "other entries than those where both bins are finite in all samples"))
    return h


def h_nz(ctx):
    def h(c, case, replay):
        if c & 2:
            ctx.fail("c03-nz-sample-formula", "RedshiftData.from_corrfuncs().samples[k] is not the n(z) formula applied to "
                     "jackknife sample k of the correlation functions (code %d)" % c, replay, case=case)
        # bit 0 (the value) belongs to C04
    return h


def h_hist(ctx):
    def h(c, case, replay):
        if c & 2:
            if c & 8:
                ctx.fail(KNOWN_HIST_SIG, "HistData.from_catalog().samples: row k is the histogram without patch N-1-k "
                         "(reverse patch order), not without patch k", replay, case=case)
            else:
                ctx.fail("c03-hist-samples-not-loo", "HistData.from_catalog().samples[k] is not the histogram without "
                         "patch k (code %d)" % c, replay, case=case)
        if c & 4:
            ctx.fail("c03-hist-data-not-sum", "HistData.from_catalog().data is not the sum over patches (code %d)" % c,
                     replay, case=case)
        if c & 1:
            ctx.disagree("c03_hist_case", case, dict(code=c, replay=replay))
    return h


# ----------------------------------------------------------------------------- single cases
def varies(samples):
    s = np.asarray(samples, dtype=float)
    return bool(s.shape[0] >= 2 and np.all(np.isfinite(s)) and np.any(s != s[0]))


def case_sps(ctx, batch, spec):
    p = spec["pc"]
    sd = jk.build_counts(spec["edges"], p).sample_patch_sum()
    term = "c03_sps_case %s %s %s %s" % (fq.nat(spec["N"]), jk.qmat3(p["counts"]), fq.qlist(sd.data), fq.qmat(sd.samples))
    batch.add(term, h_sps(ctx), dict(kind="sps", spec=spec))
    ctx.count(key=("sps", repr(p["counts"])), nontrivial=varies(sd.samples), kind="sps/%s%s" % (spec.get("mode", "?"), mag_suffix(spec)))
    note_loo_magnitude(ctx, [p])
    ctx.sample(dict(kind="sps", counts=p["counts"], samples=sd.samples.tolist()), limit=2)


def case_weights(ctx, batch, spec):
    p = spec["pc"]
    sw = jk.build_weights(spec["edges"], p)
    arr = sw.get_array()
    sd = sw.sample_patch_sum()
    term = "c03_weights_case %s %s %s %s %s %s %s" % (
        fq.nat(spec["N"]), fq.b(p["auto"]), fq.qmat(p["w1"]), fq.qmat(p["w2"]), jk.qmat3(arr), fq.qlist(sd.data),
        fq.qmat(sd.samples))
    batch.add(term, h_weights(ctx), dict(kind="weights", spec=spec))
    ctx.count(key=("weights", p["auto"], repr(p["w1"]), repr(p["w2"])), nontrivial=varies(sd.samples),
              kind="weights/%s%s" % ("auto" if p["auto"] else "cross", mag_suffix(spec)))
    note_decade(ctx, "weights-sample-magnitude", sd.samples)


def case_nc(ctx, batch, spec):
    p = spec["pc"]
    sd = jk.quiet(jk.build_nc(spec["edges"], p).sample_patch_sum)
    term = "c03_nc_case %s %s %s %s %s %s %s" % (
        fq.nat(spec["N"]), fq.b(p["auto"]), jk.qmat3(p["counts"]), fq.qmat(p["w1"]), fq.qmat(p["w2"]),
        jk.oqlist(sd.data), jk.oqmat(sd.samples))
    batch.add(term, h_nc(ctx), dict(kind="nc", spec=spec))
    ctx.count(key=("nc", repr(p)), nontrivial=varies(sd.samples), kind="nc/%s%s" % ("auto" if p["auto"] else "cross", mag_suffix(spec)))
    note_loo_magnitude(ctx, [p])
    note_decade(ctx, "nc-sample-magnitude", sd.samples)
    if not jk.all_finite(sd.samples):
        ctx.bump("impl_nonfinite_entries")


def case_corr(ctx, batch, cov_batch, spec, obj=None, label=None):
    """CorrFunc.sample() of the container built from spec (or of `obj`, a CorrFunc of a real measurement whose stored
    arrays are spec) against the model; spec['rounded']: the stored counts are not dyadic (rweight)"""
    sub = jk.subset_of(spec)
    auto = spec["kinds"]["dd"]["auto"]
    try:
        cd = jk.quiet((obj if obj is not None else jk.build_corrfunc(spec["edges"], spec["kinds"])).sample)
    except Exception as e:  # noqa: BLE001
        ctx.count(key=("corr-raised", repr(spec)), kind="corr/raised")
        ctx.fail("c03-raises:%s" % type(e).__name__, "CorrFunc.sample() raised %s: %s for counts {%s} for which an "
                 "estimator is defined" % (type(e).__name__, e, ",".join(sub)), dict(kind="corr", spec=spec))
        return None
    checker = "c03_corr_case_tol tolp" if spec.get("rounded") else "c03_corr_case"
    batch.add("%s %s %s" % (checker, jk.corr_args(spec), jk.oqmat(cd.samples)), h_corr(ctx), dict(kind="corr", spec=spec))
    ctx.count(key=("corr", repr(spec)), nontrivial=varies(cd.samples),
              kind=label or "corr/%s/%s%s" % ("auto" if auto else "cross", "+".join(sub), mag_suffix(spec)))
    ctx.sample(dict(kind="corr", subset=sub, N=spec["N"], samples=np.asarray(cd.samples).tolist()), limit=3)
    note_loo_magnitude(ctx, [q for q in spec["kinds"].values() if q is not None])
    note_decade(ctx, "corr-sample-magnitude", cd.samples)
    B = len(spec["edges"]) - 1
    add_cov(ctx, cov_batch, cd, spec.get("probes") or jk.probes_for(ctx.rng, B), dict(kind="corr-cov", spec=spec),
            ("cov", repr(spec)), "covariance/%s" % (label or "corr" + mag_suffix(spec)))
    if not jk.all_finite(cd.samples):
        ctx.bump("impl_nonfinite_entries")
    return cd


def case_nz(ctx, batch, cov_batch, spec):
    try:
        dz, cross, ref, unk, nz = jk.run_nz(spec)
    except Exception as e:  # noqa: BLE001
        ctx.count(key=("nz-raised", repr(spec)), kind="nz/raised")
        ctx.fail("c03-raises:%s" % type(e).__name__, "RedshiftData.from_corrfuncs raised %s: %s" % (type(e).__name__, e),
                 dict(kind="nz", spec=spec))
        return
    batch.add(jk.nz_term(dz, cross, ref, unk, nz), h_nz(ctx), dict(kind="nz", spec=spec))
    ctx.count(key=("nz", repr(spec)), nontrivial=varies(nz.samples),
              kind="nz/%s%s%s" % ("ref" if ref is not None else "", "+unk" if unk is not None else "", mag_suffix(spec)))
    note_decade(ctx, "nz-sample-magnitude", nz.samples)
    add_cov(ctx, cov_batch, nz, jk.probes_for(ctx.rng, len(dz)), dict(kind="nz-cov", spec=spec), ("cov-nz", repr(spec)),
            "covariance/nz" + mag_suffix(spec))


def undefined_profile(samples):
    """-> (#bins finite in all samples, #bins non-finite in some but not all samples, #bins non-finite in all samples)"""
    f = np.isfinite(np.asarray(samples, dtype=float))
    full, none = f.all(axis=0), (~f).all(axis=0)
    return int(full.sum()), int((~full & ~none).sum()), int(none.sum())


def add_cov(ctx, cov_batch, sd, probes, replay, key, label):
    """.covariance / .error of a SampledData against the model, computed from the container's OWN samples.
    All samples finite: c03_cov_case.  Some sample non-finite (or a non-finite covariance): c03_covopt_case -
    entry-wise, every pair of bins that is finite in all samples must be the covariance over ALL N samples."""
    samples = np.asarray(sd.samples, dtype=float)
    if samples.ndim != 2 or samples.shape[0] < 2 or samples.shape[1] < 1:
        ctx.bump("cov_skipped_single_sample")      # one patch: outside the property
        return
    finite_in = jk.all_finite(samples)
    mags = np.abs(samples[np.isfinite(samples) & (samples != 0)])
    if mags.size and (mags.max() > 2.0 ** 480 or mags.min() < 2.0 ** -480):
        ctx.bump("cov_skipped_squares_outside_float64_range")   # products of deviations overflow / underflow
        return
    try:
        cov = np.atleast_2d(np.asarray(jk.quiet(lambda: sd.covariance), dtype=float))
        err = np.atleast_1d(np.asarray(jk.quiet(lambda: sd.error), dtype=float))
    except Exception as e:  # noqa: BLE001
        if finite_in:
            ctx.count(key=("cov-raised",) + tuple(key), kind=label + "/raised")
            ctx.fail("c03-raises:%s" % type(e).__name__, ".covariance / .error raised %s: %s for finite samples"
                     % (type(e).__name__, e), replay)
        else:                                       # a refusal of undefined samples is not a violation
            ctx.bump("cov_refused_undefined_samples")
            ctx.log("covariance of samples with non-finite entries refused: %s: %s" % (type(e).__name__, e))
        return
    if cov.ndim != 2 or err.ndim != 1:
        cov, err = cov.reshape((cov.shape[0], -1)), err.reshape(-1)
    if finite_in and jk.all_finite(cov) and jk.all_finite(err):
        term = "c03_cov_case %s %s %s %s" % (fq.qmat(samples), fq.qmat(cov), fq.qlist(err), fq.qmat(probes))
        cov_batch.add(term, h_cov(ctx), replay)
        ctx.count(key=key, nontrivial=varies(samples), kind=label)
        return
    term = "c03_covopt_case %s %s %s %s" % (jk.oqmat(samples), jk.oqmat(cov), jk.oqlist(err), fq.qmat(probes))
    cov_batch.add(term, h_covopt(ctx), replay)
    full, part, none = undefined_profile(samples)
    fin = samples[:, np.isfinite(samples).all(axis=0)]
    # non-trivial: an undefined bin next to a bin that is finite in all samples and varies between them
    # (an estimate from fewer samples, or with another prefactor, is then a different number)
    nontrivial = bool(full >= 1 and part + none >= 1 and np.any(fin != fin[0]))
    ctx.count(key=key, nontrivial=nontrivial,
              kind="%s/undefined:%s" % (label, "some-samples" if part else ("whole-bin" if none else "covariance-only")))
    ctx.bump("cov_cases_with_undefined_samples")
    if part and full and int(np.isfinite(samples).all(axis=1).sum()) >= 2:
        ctx.bump("cov_cases_undefined_in_some_samples_with_2+_complete_samples")
    ctx.sample(dict(kind="cov-undefined", label=label, samples=[[repr(float(x)) for x in r] for r in samples],
                    covariance=[[repr(float(x)) for x in r] for r in cov]), limit=2)


def case_direct(ctx, cov_batch, spec):
    """a CorrData / RedshiftData / HistData built directly from (binning, data, samples)"""
    cls = dict(CorrData=jk.CorrData, RedshiftData=jk.RedshiftData, HistData=jk.HistData)[spec["cls"]]
    samples = np.array([[float(x) for x in r] for r in spec["samples"]], dtype=float)
    data = np.array([float(x) for x in spec["data"]], dtype=float)
    try:
        sd = cls(jk.Binning(spec["edges"], closed="right"), data, samples)
    except Exception as e:  # noqa: BLE001  a refusal of such values is not a violation
        ctx.bump("direct_refused:%s" % type(e).__name__)
        return
    if not jk.same_bits(sd.samples, samples):
        ctx.bump("direct_samples_altered")      # C04's subject; the covariance is compared with the container's own samples
    B = samples.shape[1]
    add_cov(ctx, cov_batch, sd, spec.get("probes") or jk.probes_for(ctx.rng, B), dict(kind="direct", spec=spec),
            ("cov-direct", repr(spec["cls"]), repr(spec["samples"])), "covariance/direct-%s%s" % (spec["cls"], mag_suffix(spec)))
    note_decade(ctx, "direct-sample-magnitude", samples)


def case_hist(ctx, batch, cov_batch, spec, tag):
    edges, rows, obs = spec["edges"], spec["rows"], spec["obs"]
    try:
        import zlib
        hsh = zlib.crc32(repr((tag, rows[:3], edges)).encode())
        workers = spec.get("workers") or [1, 2, 3, 4][hsh % 4]
        h = jk.hist_from_catalog(ctx, tag, edges, rows, spec["weighted"], workers=workers, sched_seed=hsh % 9973)
        ctx.bump("hist_workers:%d" % workers)
    except Exception as e:  # noqa: BLE001
        ctx.count(key=("hist-raised", repr(spec)), kind="hist/raised")
        ctx.fail("c03-raises:%s" % type(e).__name__, "HistData.from_catalog raised %s: %s" % (type(e).__name__, e),
                 dict(kind="hist", spec=spec))
        return None
    B = len(edges) - 1
    term = "c03_hist_case %s %s %s %s" % (fq.nat(B), fq.qmat(obs), fq.qlist(h.data), fq.qmat(h.samples))
    batch.add(term, h_hist(ctx), dict(kind="hist", spec=dict(spec, obs=[[float(x) for x in r] for r in obs]),
                                      impl_samples=np.asarray(h.samples).tolist()))
    loo = [[sum(obs[p][b] for p in range(len(obs)) if p != k) for b in range(B)] for k in range(len(obs))]
    ctx.count(key=("hist", repr(rows), repr(edges)), nontrivial=loo != loo[::-1], kind="hist/N%d%s" % (len(obs), mag_suffix(spec)))
    note_decade(ctx, "hist-sample-magnitude", h.samples)
    ctx.sample(dict(kind="hist", per_patch_hist=[[float(x) for x in r] for r in obs],
                    impl_samples=np.asarray(h.samples).tolist()), limit=4)
    add_cov(ctx, cov_batch, h, jk.probes_for(ctx.rng, B), dict(kind="hist-cov", spec=dict(spec, obs=None)),
            ("cov-hist", repr(rows)), "covariance/hist" + mag_suffix(spec))
    return h


# ----------------------------------------------------------------------------- generators
def gen_single(rng, what, small=False):
    B, N = jk.pick_shape(rng, small)
    mode = rng.choice(["dense", "sparse", "dyadic", "binary"])
    auto = rng.random() < 0.5
    p = jk.gen_pc(rng, B, N, auto, mode)
    return dict(edges=jk.gen_binning(rng, B), N=N, mode=mode, pc=jk.pc_plain(p))


def gen_corr(rng, small=False):
    B, N = jk.pick_shape(rng, small)
    mode = rng.choice(["dense", "dense", "sparse", "dyadic", "binary"])
    auto = rng.random() < 0.5
    defined = [s for s in jk.SUBSETS if "dr" in s or ("rr" not in s)]
    return jk.corr_plain(jk.gen_binning(rng, B), N, jk.gen_corrfunc(rng, B, N, auto, mode, rng.choice(defined)))


# ---- the class "a bin is undefined in some jackknife samples"
UNDEF_PATTERNS = ("lonely-weight", "lonely-weight", "lonely-both-sides", "two-bins", "lonely+empty", "lonely-counts",
                  "lonely-weight-keep-counts")


def _as_arrays(p):
    return dict(auto=bool(p["auto"]), counts=np.array(p["counts"], dtype=float), w1=np.array(p["w1"], dtype=float),
                w2=np.array(p["w2"], dtype=float))


def _lonely_weight(p, b, patch, side, zero_counts):
    """all objects of bin b of catalog `side` (1, 2, or 3 = both) sit in `patch`"""
    N = p["w1"].shape[1]
    sides = (1, 2) if (side == 3 or p["auto"]) else (side,)
    for sd in sides:
        w = p["w%d" % sd]
        keep = w[b, patch] if w[b, patch] != 0 else 3.0
        w[b, :] = 0.0
        w[b, patch] = keep
        if zero_counts:                       # no objects, no pairs
            for i in range(N):
                if i != patch:
                    if sd == 1:
                        p["counts"][b, i, :] = 0.0
                    else:
                        p["counts"][b, :, i] = 0.0


def _lonely_counts(p, b, patch):
    """every pair of bin b involves `patch`: without it the count is 0 (a zero denominator of the estimator)"""
    N = p["w1"].shape[1]
    for i in range(N):
        for j in range(N):
            if i != patch and j != patch:
                p["counts"][b, i, j] = 0.0


def _empty_bin(p, b):
    p["w1"][b, :] = 0.0
    if p["auto"]:
        p["w2"][b, :] = 0.0
    p["counts"][b] = 0.0


def make_undefined(rng, kinds, B, N, pattern):
    """edit a pair-count description (dict of plain pc / None) so that some bins are populated from one patch only;
    returns the edited plain description"""
    arrs = {k: None if p is None else _as_arrays(p) for k, p in kinds.items()}
    present = [k for k in ("dd",) + jk.KINDS if arrs[k] is not None]
    denom = "rr" if arrs.get("rr") is not None else ("rd" if arrs.get("dr") is None else "dr")
    b = rng.randrange(B)
    patch = rng.randrange(N)

    def some_kinds():
        r = rng.random()
        if r < 0.45:
            return present                                    # a catalog shared by all pair counts
        if r < 0.7:
            return [denom]
        return [k for k in present if rng.random() < 0.5] or [rng.choice(present)]
    if pattern in ("lonely-weight", "lonely-weight-keep-counts"):
        side = rng.choice([1, 2])
        for k in some_kinds():
            _lonely_weight(arrs[k], b, patch, side, pattern == "lonely-weight")
    elif pattern == "lonely-both-sides":                      # two different samples of one bin are undefined
        other = (patch + 1 + rng.randrange(N - 1)) % N if N > 1 else patch
        for k in some_kinds():
            _lonely_weight(arrs[k], b, patch, 1, True)
            _lonely_weight(arrs[k], b, other, 2, True)
    elif pattern == "two-bins":                               # two bins, each with its own lonely patch
        b2 = (b + 1) % B
        other = (patch + 1 + rng.randrange(N - 1)) % N if N > 1 else patch
        ks = some_kinds()
        for k in ks:
            _lonely_weight(arrs[k], b, patch, rng.choice([1, 2]), True)
            _lonely_weight(arrs[k], b2, other, rng.choice([1, 2]), True)
    elif pattern == "lonely+empty":                           # one bin undefined in one sample, another in all
        b2 = (b + 1) % B
        for k in some_kinds():
            _lonely_weight(arrs[k], b, patch, rng.choice([1, 2]), True)
            if b2 != b:
                _empty_bin(arrs[k], b2)
    elif pattern == "lonely-counts":
        _lonely_counts(arrs[denom], b, patch)
    else:
        raise KeyError(pattern)
    return {k: jk.pc_plain(p) for k, p in arrs.items()}


def gen_corr_undefined(rng, pattern=None, shape=None, auto=None):
    B, N = shape or (rng.choice([1, 2, 2, 3, 3, 4, 5]), rng.choice([2, 3, 3, 4, 5, 6, 7, 8]))
    pattern = pattern or rng.choice(UNDEF_PATTERNS)
    mode = rng.choice(["dense", "dense", "dyadic"])
    auto = (rng.random() < 0.4) if auto is None else auto
    defined = [s for s in jk.SUBSETS if "dr" in s or ("rr" not in s)]
    spec = jk.corr_plain(jk.gen_binning(rng, B), N, jk.gen_corrfunc(rng, B, N, auto, mode, rng.choice(defined)))
    spec["kinds"] = make_undefined(rng, spec["kinds"], B, N, pattern)
    spec["undefined"] = pattern
    return spec


def gen_nz_undefined(rng):
    """n(z) from a cross-correlation with a lonely bin (and autocorrelations that may have one of their own)"""
    spec = jk.gen_nz_spec(rng)
    B, N = len(spec["cross"]["edges"]) - 1, spec["cross"]["N"]
    which = rng.choice(["cross", "cross", "ref", "unk"])
    if spec[which] is None:
        which = "cross"
    pattern = rng.choice(UNDEF_PATTERNS)
    spec[which]["kinds"] = make_undefined(rng, spec[which]["kinds"], B, N, pattern)
    spec["undefined"] = "%s:%s" % (which, pattern)
    return spec


NONFINITE = ("nan", "nan", "nan", "inf", "-inf")
DIRECT_PATTERNS = ("cell", "cell", "column-cells", "column", "row", "scatter", "inf-mixed", "cell+column")


def gen_direct(rng, pattern=None, cls=None):
    """(binning, data, samples) for a directly built container: small dyadic values with non-finite cells"""
    pattern = pattern or rng.choice(DIRECT_PATTERNS)
    B = rng.choice([1, 2, 3, 3, 4, 5])
    N = rng.choice([2, 3, 4, 4, 5, 6, 8])
    scale = rng.choice([1.0, 8.0, 1024.0])
    vals = [[rng.randrange(-96, 97) / scale for _ in range(B)] for _ in range(N)]
    cells = []
    if pattern == "cell":
        cells = [(rng.randrange(N), rng.randrange(B))]
    elif pattern == "column-cells":                           # several samples of one bin
        b = rng.randrange(B)
        cells = [(k, b) for k in rng.sample(range(N), rng.randrange(1, N))]
    elif pattern == "column":                                 # a bin undefined in all samples
        b = rng.randrange(B)
        cells = [(k, b) for k in range(N)]
    elif pattern == "row":                                    # one sample undefined in all bins
        k = rng.randrange(N)
        cells = [(k, b) for b in range(B)]
    elif pattern == "scatter":                                # different bins in different samples
        cells = [(rng.randrange(N), rng.randrange(B)) for _ in range(rng.randrange(2, 4))]
    elif pattern == "inf-mixed":
        b = rng.randrange(B)
        cells = [(k, b) for k in rng.sample(range(N), min(N, 2))]
    elif pattern == "cell+column":
        b = rng.randrange(B)
        cells = [(k, b) for k in range(N)] + [(rng.randrange(N), (b + 1) % B)]
    out = [[x for x in r] for r in vals]
    for n, (k, b) in enumerate(cells):
        out[k][b] = ("inf", "-inf")[n % 2] if pattern == "inf-mixed" else rng.choice(NONFINITE)
    return dict(cls=cls or rng.choice(["CorrData", "RedshiftData", "HistData"]), edges=jk.gen_binning(rng, B),
                data=[x for x in out[0]], samples=out, pattern=pattern)


def undefined_probe(ctx, b_corr, b_nz, b_cov):
    """deterministic members of the class (independent of VERIF_SEED): every pattern once through CorrFunc.sample(),
    a sparse last bin whose reference objects sit in one of 8 patches through RedshiftData.from_corrfuncs(), and every
    cell pattern once per directly built container class"""
    import random
    prng = random.Random(30303)
    for pattern in dict.fromkeys(UNDEF_PATTERNS):
        case_corr(ctx, b_corr, b_cov, gen_corr_undefined(prng, pattern, shape=(3, 5)))
    cross = gen_corr_undefined(prng, "lonely-weight", shape=(5, 8), auto=False)
    case_nz(ctx, b_nz, b_cov, dict(cross=cross, ref=None, unk=None, undefined="cross:lonely-weight"))
    for n, pattern in enumerate(dict.fromkeys(DIRECT_PATTERNS)):
        case_direct(ctx, b_cov, gen_direct(prng, pattern, ("CorrData", "RedshiftData", "HistData")[n % 3]))


def exhaustive_binary(ctx, batch):
    """all 0/1 count matrices for N <= 3 (one bin) through PatchedCounts and NormalisedCounts"""
    edges = [0.25, 0.5]
    for N in (2, 3):
        w = [[1.0 + i for i in range(N)]]
        for m in range(2 ** (N * N)):
            counts = [[[float((m >> (i * N + j)) & 1) for j in range(N)] for i in range(N)]]
            spec = dict(edges=edges, N=N, mode="all01", pc=dict(auto=bool(m & 1), counts=counts, w1=w, w2=w))
            case_sps(ctx, batch, spec)
            if m % 4 == 0:
                case_nc(ctx, batch, spec)


def f10b_probe(ctx, batch, cov_batch):
    """deterministic probe for the known finding: 3 and 4 patches with pairwise distinct per-patch
    histograms, so that a reversed row order is visible"""
    import random
    for N, B in ((3, 3), (4, 2)):
        edges, rows, obs = jk.gen_hist_catalog(random.Random(1000 + N), N, B, weighted=True, distinct=True)
        case_hist(ctx, batch, cov_batch, dict(edges=edges, rows=rows, obs=obs, weighted=True, probe="F10b"), "f10b_%d" % N)


def large_n_probe(ctx):
    """patch counts around the integer-width boundaries (2^7, sqrt(2^15), 2^8, ...): the index arithmetic
    of the histogram resampling must hold for EVERY number of patches.  Checked in the form
    'sample k = data - row k' (Props/C03: hist_loo_is_data_minus_row ties it to the index model)."""
    import random
    from yaw.redshifts import resample_jackknife
    prng = random.Random(4242)
    terms, metas = [], []
    for N in ((127, 129, 181, 182, 257) if ctx.quick() else (127, 128, 129, 180, 181, 182, 183, 255, 256, 257, 400, 1000)):
        B = 2
        obs = [[float(prng.randrange(0, 9)) for _ in range(B)] for _ in range(N)]
        arr = np.asarray(obs)
        samples = resample_jackknife(arr)
        data = arr.sum(axis=0)
        terms.append("code [list_eqb qlist_eqb (map (zipsub %s) %s) %s]" % (fq.qlist(data), fq.qmat(obs), fq.qmat(samples)))
        metas.append(dict(kind="hist-large-N", N=N, B=B, seed=4242))
        ctx.count(key=("hist-large", N), nontrivial=True, kind="hist/largeN")
    header = ("From Verif Require Import Prelude.\nOpen Scope Q_scope.\n"
              "Fixpoint zipsub (a b : list Q) : list Q := match a, b with x :: xs, y :: ys => (x - y) :: zipsub xs ys | _, _ => [] end.\n")
    codes = ctx.shards("Cases_C03_largeN", header, terms, shard=3)
    for meta, c in zip(metas, codes):
        if c:
            ctx.fail("c03-hist-samples-not-loo", "resample_jackknife with %d patches: sample k is not the histogram without patch k"
                     % meta["N"], meta, case=("largeN", meta["N"]))


def traces(ctx):
    jobs = []
    for N in (2, 3, 4):
        for B in (1, 2):
            jobs.append(("sample_patch_sum N=%d B=%d" % (N, B), lambda N=N, B=B: jk.trace_sps(N, B)))
            for auto in (False, True):
                jobs.append(("PatchedSumWeights N=%d B=%d auto=%s" % (N, B, auto),
                             lambda N=N, B=B, auto=auto: jk.trace_weights(N, B, auto)))
                jobs.append(("NormalisedCounts N=%d B=%d auto=%s" % (N, B, auto),
                             lambda N=N, B=B, auto=auto: jk.trace_nc(N, B, auto)))
    jk.run_traces(ctx, jobs)


# ----------------------------------------------------------------------------- magnitudes
# The generators above keep counts and weights between 1e-1 and 1e+2.  Pair counts are sums of products of object
# weights (times a scale weight), histograms are sums of weights: their unit is arbitrary.  Here every kind of case is
# repeated on arrays multiplied by powers of two (exact in float64 and in Q): counts alone, weights alone, both
# consistently (object weights of one catalog times 2^e: counts carry the product), a common factor per bin, every
# bin of every member on its own scale, patches of a bin spread over 2^0..2^6.
HEADER_X = jk.HEADER + (
    "Definition tolp : Q := 1 # 1099511627776.   (* 2^-40: stored pair counts that are not dyadic (rweight) *)\n"
    "Definition c03_corr_case_tol (tol : Q) (N : nat) (dd : pc) (dr rd rr : option pc) (samples : list (list oq)) : nat :=\n"
    "  code [ res_mat_ok tol (corr_samples N dd dr rd rr) samples; res_mat_ok tol (corr_recount N dd dr rd rr) samples ].\n"
    # ---- derived containers (Model/Jackknife.v: deriv, derive, sort_steps, with_alt) lifted to the record pc
    "Definition pcd (ds : list deriv) (p : pc) : pc :=\n"
    "  let '(C, U, V) := derive ds (pc_counts p, pc_w1 p, pc_w2 p) in {| pc_auto := pc_auto p; pc_counts := C; pc_w1 := U; pc_w2 := V |}.\n"
    "Definition pc_np (p : pc) : nat := arrs_np (pc_counts p, pc_w1 p, pc_w2 p).\n"
    "Definition dp := (list deriv * pc)%type.   (* what the caller did to a member, and the member as constructed *)\n"
    "Definition dcf := (dp * option dp * option dp * option dp)%type.\n"
    "Definition dp_get (sorted : bool) (x : dp) : pc := pcd (if sorted then sort_steps (fst x) else fst x) (snd x).\n"
    "Definition dcf_eval (f : nat -> pc -> option pc -> option pc -> option pc -> list (list res)) (sorted : bool) (c : dcf) : list (list res) :=\n"
    "  let '(dd, dr, rd, rr) := c in let g := dp_get sorted in let dd' := g dd in\n"
    "  f (pc_np dd') dd' (option_map g dr) (option_map g rd) (option_map g rr).\n"
    "Definition c03_dcorr_core (tol : Q) (sorted : bool) (c : dcf) (samples : list (list oq)) : nat :=\n"
    "  code [ res_mat_ok tol (dcf_eval corr_samples sorted c) samples; res_mat_ok tol (dcf_eval corr_recount sorted c) samples ].\n"
    "Definition c03_dcorr_case (tol : Q) (c : dcf) (samples : list (list oq)) : nat :=\n"
    "  with_alt (c03_dcorr_core tol false c samples) (fun _ => c03_dcorr_core tol true c samples).\n"
    "(* RedshiftData.from_corrfuncs of derived CorrFuncs: row k is the n(z) formula of the recount without the k-th patch held *)\n"
    "Definition dnz_rows (dz : list Q) (cs : list (list res)) (rs us : option (list (list res))) (nz_s : list (list oq)) : bool :=\n"
    "  Nat.eqb (length nz_s) (length cs)\n"
    "  && forallb (fun k => meas_nz_row_ok dz (nth k cs []) (option_map (fun m => nth k m []) rs)\n"
    "                                      (option_map (fun m => nth k m []) us) (nth k nz_s [])) (seq 0 (length cs)).\n"
    "Definition c03_dnz_core (sorted : bool) (dz : list Q) (cross : dcf) (ref unk : option dcf) (nz_s : list (list oq)) : nat :=\n"
    "  code [ dnz_rows dz (dcf_eval corr_recount sorted cross) (option_map (dcf_eval corr_recount sorted) ref)\n"
    "                  (option_map (dcf_eval corr_recount sorted) unk) nz_s ].\n"
    "Definition c03_dnz_case (dz : list Q) (cross : dcf) (ref unk : option dcf) (nz_s : list (list oq)) : nat :=\n"
    "  with_alt (c03_dnz_core false dz cross ref unk nz_s) (fun _ => c03_dnz_core true dz cross ref unk nz_s).\n")


class BatchX(jk.Batch):
    """jk.Batch with the header above"""

    def run(self):
        if not self.items:
            return
        codes = self.ctx.shards(self.name, HEADER_X, [t for t, _, _ in self.items], shard=self.shard)
        for idx, ((term, handler, replay), c) in enumerate(zip(self.items, codes)):
            if c is not None and c != 0:
                handler(c, "%s#%d" % (self.name, idx), replay)


PC_PROFILES = ("counts-tiny", "counts-small", "counts-huge", "weights-tiny", "weights-huge", "object-weights-tiny",
               "object-weights-small", "object-weights-huge", "mixed")
CF_PROFILES = ("object-weights-tiny", "object-weights-small", "object-weights-huge", "object-weights-any", "rweight-like",
               "counts-common", "per-member", "survey")
DECADES = ((1e-24, "below-1e-24"), (1e-16, "1e-24..1e-16"), (1e-12, "1e-16..1e-12"), (1e-8, "1e-12..1e-8"),
           (1e-4, "1e-8..1e-4"), (1e4, "1e-4..1e+4"), (1e8, "1e+4..1e+8"), (1e16, "1e+8..1e+16"))


def mag_suffix(spec):
    return "/mag:%s" % spec["mag"]["profile"] if spec.get("mag") else ""


def decade(x):
    for lim, name in DECADES:
        if x < lim:
            return name
    return "above-1e+16"


def note_decade(ctx, name, arr):
    """evidence: the decades of the smallest non-zero and of the largest finite |entry|"""
    a = np.abs(np.asarray(arr, dtype=float)).ravel()
    a = a[np.isfinite(a) & (a > 0)]
    if a.size:
        ctx.bump("%s/smallest-nonzero:%s" % (name, decade(float(a.min()))))
        ctx.bump("%s/largest:%s" % (name, decade(float(a.max()))))


def note_loo_magnitude(ctx, pcs):
    """evidence: the decade of the smallest non-zero leave-one-out pair-count sum of the case"""
    best = None
    for p in pcs:
        C = np.asarray(p["counts"], dtype=float)
        loo = C.sum(axis=(1, 2))[:, None] - C.sum(axis=1) - C.sum(axis=2) + np.einsum("bii->bi", C)
        a = np.abs(loo[loo != 0])
        if a.size and (best is None or a.min() < best):
            best = float(a.min())
    if best is not None:
        ctx.bump("loo-count-magnitude/smallest-nonzero:%s" % decade(best))


def exp_in(rng, region):
    return {"tiny": lambda: rng.randint(-40, -20), "small": lambda: rng.randint(-19, -8), "large": lambda: rng.randint(8, 19),
            "huge": lambda: rng.randint(20, 40), "plain": lambda: 0}[region]()


def pc_bin_exps(rng, profile):
    """(counts, weights 1, weights 2) exponents of one bin of one pair-count container"""
    if profile == "counts-tiny":
        return rng.randint(-80, -27), 0, 0
    if profile == "counts-small":
        return rng.randint(-26, -8), 0, 0
    if profile == "counts-huge":
        return rng.randint(20, 80), 0, 0
    if profile == "weights-tiny":
        return 0, rng.randint(-40, -8), rng.randint(-40, -8)
    if profile == "weights-huge":
        return 0, rng.randint(8, 40), rng.randint(8, 40)
    if profile.startswith("object-weights-"):
        e1, e2 = exp_in(rng, profile.rsplit("-", 1)[1]), exp_in(rng, profile.rsplit("-", 1)[1])
        return e1 + e2, e1, e2
    return 0, 0, 0


def pc_exps(rng, B, profile):
    if profile == "mixed":
        return [pc_bin_exps(rng, rng.choice(PC_PROFILES[:-1] + ("plain",))) for _ in range(B)]
    if rng.random() < 0.5:
        return [pc_bin_exps(rng, profile)] * B
    return [pc_bin_exps(rng, profile) for _ in range(B)]


def scale_pc(rng, p, exps, ragged=False):
    """multiply bin b of the counts / weights of p (numpy arrays) by 2^exps[b][0..2]; weights shared by both samples of
    an autocorrelation stay shared; ragged: the patches of a bin additionally differ by factors 2^0..2^6"""
    same = bool(p["auto"]) and np.array_equal(p["w1"], p["w2"])
    N = p["w1"].shape[1]
    for b, (ec, e1, e2) in enumerate(exps):
        p["counts"][b] *= math.ldexp(1.0, ec)
        for w, e in ((p["w1"], e1), (p["w2"], e2)):
            for i in range(N):
                w[b, i] *= math.ldexp(1.0, e + (rng.randint(0, 6) if ragged else 0))
    if same:
        p["w2"] = p["w1"].copy()


def gen_single_mag(rng, what, small=False, profile=None):
    B, N = jk.pick_shape(rng, small)
    profile = profile or rng.choice(PC_PROFILES)
    if what == "weights" and profile.startswith("counts-"):
        profile = "weights-" + ("tiny" if profile != "counts-huge" else "huge")
    mode = rng.choice(["dense", "sparse", "dyadic", "binary"])
    p = jk.gen_pc(rng, B, N, rng.random() < 0.5, mode)
    ragged = rng.random() < 0.3
    scale_pc(rng, p, pc_exps(rng, B, profile), ragged)
    return dict(edges=jk.gen_binning(rng, B), N=N, mode=mode, pc=jk.pc_plain(p), mag=dict(profile=profile, ragged=ragged))


def cf_exps(rng, members, B, auto, profile):
    """exponents (counts, weights 1, weights 2) per member and bin of a CorrFunc"""
    if profile.startswith("object-weights-") or profile == "rweight-like":
        region = profile.rsplit("-", 1)[1]

        def cat():          # one factor per catalog: the counts carry the product
            return exp_in(rng, region if region in ("tiny", "small", "huge") else rng.choice(["tiny", "small", "large", "huge", "plain"]))
        eD1, eR1 = cat(), cat()
        eD2, eR2 = (eD1, eR1) if auto else (cat(), cat())
        cats = dict(dd=(eD1, eD2), dr=(eD1, eR2), rd=(eR1, eD2), rr=(eR1, eR2))
        # a scale weight r^alpha multiplies every pair, in every member alike
        extra = [rng.randint(-30, -5) if profile == "rweight-like" else 0 for _ in range(B)]
        return {k: [(cats[k][0] + cats[k][1] + extra[b], cats[k][0], cats[k][1]) for b in range(B)] for k in members}
    if profile == "counts-common":      # CorrFunc * c
        per_bin = [rng.choice([-1, -1, 1]) * rng.randint(10, 60) for _ in range(B)]
        if rng.random() < 0.5:
            per_bin = per_bin[:1] * B
        return {k: [(e, 0, 0) for e in per_bin] for k in members}
    if profile == "per-member":
        return {k: [pc_bin_exps(rng, rng.choice(PC_PROFILES[:-1] + ("plain",))) for _ in range(B)] for k in members}
    if profile == "survey":             # one scale per catalog and bin, randoms denser than data, counts of order one
        out = {k: [] for k in members}
        for _ in range(B):
            eD1 = rng.randint(8, 30)
            eD2 = eD1 if auto else rng.randint(8, 30)
            eR1 = eD1 + rng.randint(0, 10)
            eR2 = eR1 if auto else eD2 + rng.randint(0, 10)
            for k, e in (("dd", (0, eD1, eD2)), ("dr", (0, eD1, eR2)), ("rd", (0, eR1, eD2)), ("rr", (0, eR1, eR2))):
                if k in out:
                    out[k].append(e)
        return out
    raise KeyError(profile)


def gen_corr_mag(rng, small=False, profile=None, shape=None, edges=None, auto=None, sub=None):
    profile = profile or rng.choice(CF_PROFILES)
    B, N = shape or jk.pick_shape(rng, small)
    mode = rng.choice(["dense", "dense", "sparse", "dyadic", "binary"])
    auto = (rng.random() < 0.5) if auto is None else auto
    defined = [s for s in jk.SUBSETS if "dr" in s or ("rr" not in s)]
    d = jk.gen_corrfunc(rng, B, N, auto, mode, sub or rng.choice(defined))
    members = [k for k in ("dd",) + jk.KINDS if d[k] is not None]
    exps = cf_exps(rng, members, B, auto, profile)
    ragged = rng.random() < 0.3
    for k in members:
        scale_pc(rng, d[k], exps[k], ragged)
    spec = jk.corr_plain(edges if edges is not None else jk.gen_binning(rng, B), N, d)
    spec["mag"] = dict(profile=profile, ragged=ragged)
    return spec


def gen_nz_spec_mag(rng, small=False):
    """jk.gen_nz_spec with the three CorrFuncs drawn from the magnitude profiles (one binning, one patch number)"""
    B, N = jk.pick_shape(rng, small)
    edges = jk.gen_binning(rng, B)

    def one(auto):
        return gen_corr_mag(rng, shape=(B, N), edges=edges, auto=auto)
    return dict(cross=one(False), ref=one(True) if rng.random() < 0.7 else None, unk=one(True) if rng.random() < 0.5 else None,
                mag=dict(profile="corrfuncs"))


def span(rng):
    return rng.choice([-1, -1, 1]) * rng.choice([rng.randint(8, 26), rng.randint(27, 60), rng.randint(61, 100)])


def bin_exps(rng, B):
    """one power of two for all bins, or one per bin (some bins left as they are)"""
    if rng.random() < 0.5:
        return [span(rng)] * B
    return [span(rng) if rng.random() < 0.7 else 0 for _ in range(B)]


def gen_direct_mag(rng, pattern=None, cls=None):
    """gen_direct with the numbers of bin b multiplied by 2^e_b"""
    spec = gen_direct(rng, pattern, cls)
    B = len(spec["data"])
    exps = bin_exps(rng, B)

    def sc(x, e):
        return x if isinstance(x, str) else x * math.ldexp(1.0, e)
    spec["samples"] = [[sc(x, e) for x, e in zip(r, exps)] for r in spec["samples"]]
    spec["data"] = [sc(x, e) for x, e in zip(spec["data"], exps)]
    spec["mag"] = dict(profile="samples-scaled", exps=exps)
    return spec


def gen_nz_direct(rng, scaled=True):
    """CorrData (values and samples) of a cross-correlation and of optional autocorrelations, handed to
    RedshiftData.from_corrdata: estimator values of any size (a measured w can be 1e-9 as well as 1e+6)"""
    B = rng.choice([1, 2, 3, 4])
    N = rng.choice([2, 3, 4, 5, 7])
    edges = jk.gen_binning(rng, B)

    def cd(positive):
        exps = bin_exps(rng, B) if scaled else [0] * B

        def val(e):
            m = rng.randrange(1, 200) if positive and rng.random() < 0.93 else rng.randrange(-200, 200)
            return m / 16.0 * math.ldexp(1.0, e)
        return dict(data=[val(e) for e in exps], samples=[[val(e) for e in exps] for _ in range(N)], exps=exps)
    return dict(edges=edges, cross=cd(False), ref=cd(True) if rng.random() < 0.7 else None, unk=cd(True) if rng.random() < 0.5 else None,
                mag=dict(profile="corrdata-scaled") if scaled else None)


def case_nz_direct(ctx, batch, cov_batch, spec):
    binning = jk.Binning(spec["edges"], closed="right")

    def mk(d):
        return None if d is None else jk.CorrData(binning, np.array(d["data"], dtype=float), np.array(d["samples"], dtype=float))
    cross, ref, unk = mk(spec["cross"]), mk(spec["ref"]), mk(spec["unk"])
    try:
        nz = jk.quiet(jk.RedshiftData.from_corrdata, cross, ref, unk)
    except Exception as e:  # noqa: BLE001
        ctx.count(key=("nz-direct-raised", repr(spec)), kind="nz-direct/raised")
        ctx.fail("c03-raises:%s" % type(e).__name__, "RedshiftData.from_corrdata raised %s: %s" % (type(e).__name__, e),
                 dict(kind="nz-direct", spec=spec))
        return
    dz = list(binning.dz)
    batch.add(jk.nz_term(dz, cross, ref, unk, nz), h_nz(ctx), dict(kind="nz-direct", spec=spec))
    ctx.count(key=("nz-direct", repr(spec)), nontrivial=varies(nz.samples),
              kind="nz-direct/%s%s%s" % ("ref" if ref is not None else "", "+unk" if unk is not None else "", mag_suffix(spec)))
    note_decade(ctx, "nz-sample-magnitude", nz.samples)
    add_cov(ctx, cov_batch, nz, jk.probes_for(ctx.rng, len(dz)), dict(kind="nz-direct-cov", spec=spec),
            ("cov-nz-direct", repr(spec)), "covariance/nz-direct" + mag_suffix(spec))


def gen_hist_mag(rng, N, B, region=None):
    """a weighted catalog whose weights are 2^e times small dyadic numbers (one e per catalog, or per patch e + 0..6)"""
    from fractions import Fraction
    edges, rows, obs = jk.gen_hist_catalog(rng, N, B, weighted=True)
    region = region or rng.choice(["tiny", "tiny", "small", "huge", "far"])
    e = rng.choice([-1, 1]) * rng.randint(41, 100) if region == "far" else exp_in(rng, region)
    ragged = rng.random() < 0.3
    ep = [e + (rng.randint(0, 6) if ragged else 0) for _ in range(N)]
    rows = [(ra, dec, z, p, w * math.ldexp(1.0, ep[p])) for (ra, dec, z, p, w) in rows]
    obs = [[x * Fraction(2) ** ep[p] for x in r] for p, r in enumerate(obs)]
    return dict(edges=edges, rows=rows, obs=obs, weighted=True, mag=dict(profile="weights-" + region, ragged=ragged, exps=ep))


# ----------------------------------------------------------------------------- the real pipeline
PIPE_EDGES = [0.2, 0.4, 0.6, 0.8]
PIPE_ZS = [0.25, 0.3, 0.35, 0.45, 0.5, 0.55, 0.65, 0.7, 0.75]
PIPE_MODES = ("plain", "tiny", "tiny", "small", "huge", "per-catalog")


def h_rerun(ctx):
    def h(c, case, replay):
        ctx.fail("c03-pipeline-sample-not-rerun-without-patch", "jackknife sample %d of %s(...)[0].sample() is not the value of the same "
                 "measurement repeated on the catalogs with patch %d removed (weights %s, rweight %s)"
                 % (replay["k"], replay["which"], replay["k"], replay["spec"]["mag"]["profile"], replay["spec"]["rweight"]),
                 replay, case=case)
    return h


def gen_pipeline(rng, mode=None, rweight="draw"):
    from props.c01 import offset, cluster
    npatch = rng.choice([3, 4, 4, 5])
    mode = mode or rng.choice(PIPE_MODES)
    if rweight == "draw":
        rweight = rng.choice([None, None, 1.0, -0.5, 2.0])
    names = ("ref", "unk", "rand", "rand2")
    if mode == "per-catalog":
        exps = {c: exp_in(rng, rng.choice(["tiny", "small", "plain", "huge"])) for c in names}
    else:
        e = exp_in(rng, mode)
        exps = {c: e for c in names}
    cents = [offset(40.0, 10.0, k * 0.9, (k % 2) * 0.5) for k in range(npatch)]

    def rows(n, e, with_z):
        out = []
        for k in range(npatch):
            for (ra, dec) in cluster(rng, cents[k][0], cents[k][1], n, 0.3):
                out.append([ra, dec, rng.randrange(1, 9) / 2.0 * math.ldexp(1.0, e), k, rng.choice(PIPE_ZS) if with_z else None])
        return out
    randoms = rng.choice(["ref_rand", "unk_rand", "both", "both"])
    ikind, item = gen_patch_item(rng, npatch, rng.choice(["list-unsorted", "reversed", "neg-step", "permutation", "rotation"]))
    return dict(derived=[dict(op="patches", item=item)], derived_item=ikind, npatch=npatch, cents=[list(c) for c in cents], randoms=randoms, rweight=rweight, edges=PIPE_EDGES,
                rmin=5.0, rmax=40.0, unit="arcmin",
                cats=dict(ref=rows(8, exps["ref"], True), unk=rows(7, exps["unk"], False), rand=rows(12, exps["rand"], True),
                          rand2=rows(10, exps["rand2"], False)),
                mag=dict(profile="catalog-weights-" + mode, exps=exps))


def pipe_catalogs(ctx, spec, tag, skip=None):
    """the catalogs of a pipeline scenario, without the objects and the centre of patch `skip`"""
    cents = [c for k, c in enumerate(spec["cents"]) if k != skip]
    centers = impl.AngularCoordinates(np.deg2rad(np.asarray(cents)))
    out = {}
    for name, rows in spec["cats"].items():
        rows = [r for r in rows if r[3] != skip]
        cols = dict(ra=[r[0] for r in rows], dec=[r[1] for r in rows], w=[r[2] for r in rows])
        kw = dict(ra_name="ra", dec_name="dec", weight_name="w", patch_centers=centers, max_workers=1)
        if rows and rows[0][4] is not None:
            cols["z"] = [r[4] for r in rows]
            kw["redshift_name"] = "z"
        out[name] = impl.Catalog.from_dataframe(impl.fresh_dir(ctx, "pipe_%s_%s" % (tag, name)), impl.make_df(cols), **kw)
    return out


def pipe_measure(spec, cats):
    import yaw
    cfg = impl.Configuration.create(rmin=spec["rmin"], rmax=spec["rmax"], unit=spec["unit"], edges=spec["edges"],
                                    rweight=spec["rweight"], max_workers=1)
    kw = {}
    if spec["randoms"] in ("ref_rand", "both"):
        kw["ref_rand"] = cats["rand"]
    if spec["randoms"] in ("unk_rand", "both"):
        kw["unk_rand"] = cats["rand2"]
    cross = jk.quiet(yaw.crosscorrelate, cfg, cats["ref"], cats["unk"], max_workers=1, **kw)[0]
    auto = jk.quiet(yaw.autocorrelate, cfg, cats["ref"], cats["rand"], max_workers=1)[0]
    return dict(crosscorrelate=cross, autocorrelate=auto)


def cf_spec(cf, spec):
    """the pair counts and sums of weights a measured CorrFunc stores, as a case description"""
    kinds = {}
    for k in ("dd",) + jk.KINDS:
        nc = getattr(cf, k)
        kinds[k] = None if nc is None else jk.pc_plain(dict(auto=bool(nc.counts.auto), counts=nc.counts.counts,
                                                            w1=nc.sum_weights.sum_weights1, w2=nc.sum_weights.sum_weights2))
    return dict(edges=[float(x) for x in cf.binning.edges], N=int(cf.num_patches), kinds=kinds, rounded=spec["rweight"] is not None,
                mag=spec["mag"], origin="measured")


def patches_as_generated(spec, cf):
    """the sums of weights per bin and patch of the reference sample are those of the generated clusters"""
    edges, N = spec["edges"], spec["npatch"]
    want = np.zeros((len(edges) - 1, N))
    for ra, dec, w, k, z in spec["cats"]["ref"]:
        for b in range(len(edges) - 1):
            if edges[b] < z <= edges[b + 1]:
                want[b, k] += w
    return cf.num_patches == N and np.array_equal(want, np.asarray(cf.dd.sum_weights.sum_weights1, dtype=float))


def case_pipeline(ctx, b_corr, b_nz, b_cov, b_rerun, spec, tag, ks=None, b_der=None):
    import shutil
    profile = "%s/%s" % (spec["mag"]["profile"], "rweight" if spec["rweight"] is not None else "no-rweight")
    try:
        try:
            res = pipe_measure(spec, pipe_catalogs(ctx, spec, tag))
        except Exception as e:  # noqa: BLE001  a refusal of these catalogs is not a violation of the property
            ctx.bump("pipeline_refused:%s" % type(e).__name__)
            ctx.log("pipeline scenario refused: %s: %s" % (type(e).__name__, str(e)[:200]))
            return
        cds = {}
        for which, cf in res.items():
            cds[which] = case_corr(ctx, b_corr, b_cov, cf_spec(cf, spec), obj=cf, label="pipeline/%s/%s" % (which, profile))
            # the measured CorrFunc, patches selected, then sampled (dyadic stored counts only: the model of rounded
            # counts costs seconds per case and is exercised above)
            if b_der is not None and spec.get("derived") and spec["rweight"] is None:
                case_dcorr(ctx, b_der, None, dict(cf_spec(cf, spec), ops=spec["derived"], pattern="patches",
                                                  item_kind=spec["derived_item"], pipeline=spec), obj=cf,
                           label="derived/pipeline/%s/%s/%s" % (which, spec["derived_item"], profile))
        if cds["crosscorrelate"] is not None:
            for use_ref in (True, False):
                ref = cds["autocorrelate"] if use_ref else None
                if use_ref and ref is None:
                    continue
                nz = jk.quiet(jk.RedshiftData.from_corrfuncs, res["crosscorrelate"], res["autocorrelate"] if use_ref else None)
                dz = list(res["crosscorrelate"].binning.dz)
                b_nz.add(jk.nz_term(dz, cds["crosscorrelate"], ref, None, nz), h_nz(ctx), dict(kind="pipeline", spec=spec))
                ctx.count(key=("pipeline-nz", repr(spec), use_ref), nontrivial=varies(nz.samples),
                          kind="pipeline/nz%s/%s" % ("+ref" if use_ref else "", profile))
                add_cov(ctx, b_cov, nz, jk.probes_for(ctx.rng, len(dz)), dict(kind="pipeline", spec=spec),
                        ("cov-pipeline-nz", repr(spec), use_ref), "covariance/pipeline-nz")
        # sample k against the measurement repeated without patch k
        if not patches_as_generated(spec, res["crosscorrelate"]):
            ctx.bump("pipeline_patches_not_as_generated")
            return
        tol = "tolp" if spec["rweight"] is not None else "tol48"
        for k in (ks if ks is not None else [ctx.rng.randrange(spec["npatch"])]):
            try:
                red = pipe_measure(spec, pipe_catalogs(ctx, spec, "%s_wo%d" % (tag, k), skip=k))
            except Exception as e:  # noqa: BLE001
                ctx.bump("pipeline_rerun_refused:%s" % type(e).__name__)
                continue
            for which, cf in red.items():
                if cds[which] is None:
                    continue
                again = jk.quiet(cf.sample).data
                mine = np.asarray(cds[which].samples)[k]
                b_rerun.add("c03_rerun_case %s %s %s" % (tol, jk.oqlist(mine), jk.oqlist(again)), h_rerun(ctx),
                            dict(kind="pipeline", spec=spec, k=k, which=which))
                num = np.isfinite(np.asarray(again, dtype=float))     # where the repeated measurement is a number
                ctx.count(key=("pipeline-rerun", repr(spec), k, which), nontrivial=bool(num.any()),
                          kind="pipeline/rerun-without-patch/%s/%s" % (which, profile))
                ctx.bump("pipeline_rerun_entries:compared", int(num.sum()))
                ctx.bump("pipeline_rerun_entries:rerun-undefined-not-compared", int((~num).sum()))
    finally:
        for d in os.listdir(ctx.workdir):
            if d.startswith("pipe_%s_" % tag):
                shutil.rmtree(os.path.join(ctx.workdir, d), ignore_errors=True)


def magnitude_probe(ctx, b_raw, b_corr, b_nz, b_cov, b_hist, b_rerun, b_der=None):
    """deterministic members of the class (independent of VERIF_SEED): every profile once through every container, and
    real measurements with catalog weights of 2^-30 and with rweight"""
    import random
    prng = random.Random(50505)
    for profile in PC_PROFILES:
        case_sps(ctx, b_raw, gen_single_mag(prng, "sps", profile=profile))
        case_weights(ctx, b_raw, gen_single_mag(prng, "weights", profile=profile))
        case_nc(ctx, b_raw, gen_single_mag(prng, "nc", profile=profile))
    for profile in CF_PROFILES:
        for auto in (False, True):
            case_corr(ctx, b_corr, b_cov, gen_corr_mag(prng, profile=profile, shape=(2, 4), auto=auto))
    case_nz(ctx, b_nz, b_cov, gen_nz_spec_mag(prng))
    case_nz_direct(ctx, b_nz, b_cov, gen_nz_direct(prng))
    for n, cls in enumerate(("CorrData", "RedshiftData", "HistData")):
        case_direct(ctx, b_cov, gen_direct_mag(prng, DIRECT_PATTERNS[n], cls))
    for n, region in enumerate(("tiny", "huge")):
        case_hist(ctx, b_hist, b_cov, gen_hist_mag(prng, 4, 3, region), "mag_probe_%d" % n)
    for n, (mode, rweight) in enumerate((("tiny", None), ("plain", 1.0), ("tiny", -0.5))):
        case_pipeline(ctx, b_corr, b_nz, b_cov, b_rerun, gen_pipeline(prng, mode, rweight), "probe%d" % n, b_der=b_der)


# ----------------------------------------------------------------------------- derived containers
# Every case above samples a container exactly as it was constructed (or measured).  Callers select first: .patches[...]
# with a list in any order, a reversed / stepped slice, a mask; .bins[...]; sums; scalar multiples; a file written and read
# back - and sample afterwards.  The property then speaks about the container that is sampled: its k-th patch is the k-th
# SELECTED one and sample k is the statistic of the original data restricted to the selection without its k-th entry
# (Model/Jackknife.v: deriv / derive; Props/C03: C03_selection_loo, C03_selection_sample,
# C03_selection_nc_sample_is_recount, C03_selection_twice, C03_selection_mixed_order_refuted).  The model receives the
# arrays of the container AS CONSTRUCTED and the list of operations; it never sees what the derived container stores.
PATCH_ITEMS = ("list-unsorted", "reversed", "neg-step", "step", "range", "list-sorted", "list-negative", "array-unsorted",
               "mask", "rotation", "permutation")
PATCH_ITEMS_DRAW = PATCH_ITEMS + ("list-unsorted", "list-unsorted", "reversed", "neg-step", "permutation", "rotation")
BIN_ITEMS = ("int", "range", "step", "list", "mask", "all")
D_PATTERNS = ("patches", "patches", "patches-twice", "bins+patches", "patches+bins", "add+patches", "patches+add", "mul+patches",
              "patches+mul", "sum+patches", "copy+patches", "patches+copy", "iter-bins+patches", "no-selection")
COPIES = dict(corr=("file", "file", "pickle", "deepcopy"), nc=("pickle", "deepcopy"), sps=("pickle", "deepcopy"),
              weights=("pickle", "deepcopy"))


class Refused(Exception):
    """the implementation refused an operation of a derivation (not a violation of this property)"""


def py_item(it):
    tag = it[0]
    if tag == "int":
        return int(it[1])
    if tag == "slice":
        return slice(it[1], it[2], it[3])
    if tag == "list":
        return [int(i) for i in it[1]]
    if tag == "array":
        return np.array(it[1], dtype=np.int64)
    if tag == "mask":
        return np.array(it[1], dtype=bool)
    raise KeyError(tag)


def resolve(it, n):
    """the positions an index expression selects on an axis of length n (numpy's own reading of it)"""
    return [int(i) for i in np.atleast_1d(np.arange(n)[py_item(it)])]


def gen_patch_item(rng, n, kind=None):
    """-> (kind, item): an index expression on an axis of n >= 2 patches that keeps at least two different ones"""
    kind = kind or rng.choice(PATCH_ITEMS_DRAW)
    m = rng.randint(2, n)
    ids = rng.sample(range(n), m)
    if ids == sorted(ids):
        ids.reverse()
    it = None
    if kind in ("list-unsorted", "array-unsorted"):
        it = ["list" if kind == "list-unsorted" else "array", ids]
    elif kind == "list-sorted":
        it = ["list", sorted(ids)]
    elif kind == "list-negative":
        it = ["list", [i - n if (j == 0 or rng.random() < 0.5) else i for j, i in enumerate(ids)]]
    elif kind == "reversed":
        it = ["slice", None, None, -1]
    elif kind == "neg-step":
        it = ["slice", rng.choice([None, n - 1, -1, n - 2 if n > 3 else None]), rng.choice([None, None, 0 if n > 3 else None]),
              -2 if n > 4 and rng.random() < 0.5 else -1]
    elif kind == "step":
        it = ["slice", rng.choice([None, 0, 1 if n > 3 else 0]), None, 2]
    elif kind == "range":
        a = rng.randrange(0, n - 1)
        it = ["slice", a, rng.randint(a + 2, n), None]
    elif kind == "mask":
        it = ["mask", [i in ids for i in range(n)]]
    elif kind == "rotation":
        s = rng.randrange(1, n)
        it = ["list", list(range(s, n)) + list(range(s))]
    elif kind == "permutation":
        perm = list(range(n))
        while perm == sorted(perm):
            rng.shuffle(perm)
        it = ["list", perm]
    sel = resolve(it, n) if it is not None else []
    if len(sel) < 2 or len(set(sel)) != len(sel):
        it = ["slice", None, None, -1]
    return kind, it


def gen_bin_item(rng, B, kind=None):
    """a non-empty selection of bins in ascending order (a Binning has increasing edges)"""
    kind = kind or rng.choice(BIN_ITEMS)
    if kind == "int" or B == 1:
        return ["int", rng.choice([rng.randrange(B), -1])]
    if kind == "range":
        a = rng.randrange(0, B)
        return ["slice", a, rng.randint(a + 1, B), None]
    if kind == "step":
        return ["slice", rng.choice([None, 0, 1]) if B > 2 else None, None, 2]
    if kind == "list":
        return ["list", sorted(rng.sample(range(B), rng.randint(1, B)))]
    if kind == "mask":
        keep = rng.sample(range(B), rng.randint(1, B))
        return ["mask", [b in keep for b in range(B)]]
    return ["slice", None, None, None]


def gen_ops(rng, what, B, N, auto, names, pattern=None, item_kind=None):
    """a list of operations a caller performs between construction and sampling; names: the members that need an addend
    (['pc'] for a raw container, the kinds of a CorrFunc).  Keeps >= 2 patches and >= 1 bin."""
    pattern = pattern or rng.choice(D_PATTERNS)
    if what == "weights" and pattern in ("add+patches", "patches+add", "mul+patches", "patches+mul", "sum+patches"):
        pattern = "patches-twice"            # sums of weights have no arithmetic
    shape = [B, N]
    kinds_used = []

    def patches():
        k, it = gen_patch_item(rng, shape[1], item_kind if not kinds_used else None)
        kinds_used.append(k)
        shape[1] = len(resolve(it, shape[1]))
        return dict(op="patches", item=it)

    def bins():
        it = gen_bin_item(rng, shape[0])
        shape[0] = len(resolve(it, shape[0]))
        return dict(op="bins", item=it)

    def iter_bins():
        b = rng.randrange(shape[0])
        shape[0] = 1
        return dict(op="iter_bins", b=b)

    def add(how):
        how = "+" if what == "corr" else how          # CorrFunc has no __radd__: sum([...]) of CorrFuncs is not offered
        return dict(op="add", how=how, other={k: jk.tolist(jk.gen_counts(rng, shape[0], shape[1], "dense", auto)) for k in names})

    def mul():
        return dict(op="mul", c=rng.choice([2.0, 0.5, 3, 0.25, 8.0]))

    def copy():
        return dict(op="copy", how=rng.choice(COPIES[what]))
    steps = {"patches": [patches], "patches-twice": [patches, patches], "bins+patches": [bins, patches],
             "patches+bins": [patches, bins], "add+patches": [lambda: add("+"), patches], "patches+add": [patches, lambda: add("+")],
             "mul+patches": [mul, patches], "patches+mul": [patches, mul], "sum+patches": [lambda: add("sum"), patches],
             "copy+patches": [copy, patches], "patches+copy": [patches, copy], "iter-bins+patches": [iter_bins, patches],
             "no-selection": [rng.choice([mul, copy, bins, lambda: add("+")]) if what != "weights" else rng.choice([copy, bins]),
                              rng.choice([mul, copy]) if what != "weights" else copy]}[pattern]
    ops = [f() for f in steps]
    return ops, pattern, (kinds_used[0] if kinds_used else "none")


def d_step(kind, arg):
    if kind == "patches":
        return "(D_patches %s)" % fq.nlist(arg)
    if kind == "bins":
        return "(D_bins %s)" % fq.nlist(arg)
    if kind == "add":
        return "(D_add %s)" % jk.qmat3(arg)
    return "(D_mul %s)" % fq.q(arg)


def derive_real(ctx, what, edges, members, ops, obj=None):
    """perform `ops` on the real container built from `members` ({'pc': plain pc} for what in sps / weights / nc, the kinds
    of a CorrFunc for 'corr'; obj: a CorrFunc of a real measurement that stores these arrays).
    -> (derived object, {member: Coq list of deriv}, some patch selection was not ascending)"""
    import copy as _copy
    import pickle as _pickle
    if what == "corr":
        names = [k for k in jk.ALLK if members[k] is not None]
        obj = obj if obj is not None else jk.build_corrfunc(edges, members)
    else:
        names = ["pc"]
        obj = dict(sps=jk.build_counts, weights=jk.build_weights, nc=jk.build_nc)[what](edges, members["pc"])
    auto = bool(members[names[0]]["auto"])
    # the caller's own bookkeeping of the sums of weights (an addend must come with the same ones)
    w = {k: (np.array(members[k]["w1"], dtype=float), np.array(members[k]["w2"], dtype=float)) for k in names}
    B, N = w[names[0]][0].shape
    steps = {k: [] for k in names}
    unsorted = False

    def addend(k, counts):
        pc = jk.PatchedCounts(obj.binning, np.array(counts, dtype=float), auto=auto)
        if what == "sps":
            return pc
        return jk.NormalisedCounts(pc, jk.PatchedSumWeights(obj.binning, w[k][0].copy(), w[k][1].copy(), auto=auto))
    for n, op in enumerate(ops):
        name = op["op"]
        try:
            if name == "patches":
                sel = resolve(op["item"], N)
                obj = obj.patches[py_item(op["item"])]
                w = {k: (a[:, sel], b[:, sel]) for k, (a, b) in w.items()}
                N = len(sel)
                unsorted = unsorted or sel != sorted(sel)
                for k in names:
                    steps[k].append(d_step("patches", sel))
            elif name in ("bins", "iter_bins"):
                if name == "bins":
                    sel = resolve(op["item"], B)
                    obj = obj.bins[py_item(op["item"])]
                else:
                    sel = [int(op["b"])]
                    obj = list(obj.bins)[sel[0]]
                w = {k: (a[sel], b[sel]) for k, (a, b) in w.items()}
                B = len(sel)
                for k in names:
                    steps[k].append(d_step("bins", sel))
            elif name == "add":
                if what == "corr":
                    other = jk.CorrFunc(**{k: addend(k, op["other"][k]) for k in names})
                else:
                    other = addend("pc", op["other"]["pc"])
                obj = sum([obj, other]) if op["how"] == "sum" else obj + other
                for k in names:
                    steps[k].append(d_step("add", op["other"][k]))
            elif name == "mul":
                obj = obj * op["c"]
                for k in names:
                    steps[k].append(d_step("mul", op["c"]))
            elif name == "copy":
                if op["how"] == "file":
                    path = os.path.join(ctx.workdir, "derived_%d.hdf" % os.getpid())
                    try:
                        obj.to_file(path)
                        obj = jk.CorrFunc.from_file(path)
                    finally:
                        if os.path.exists(path):
                            os.remove(path)
                elif op["how"] == "pickle":
                    obj = _pickle.loads(_pickle.dumps(obj))
                else:
                    obj = _copy.deepcopy(obj)
            else:
                raise KeyError(name)
        except KeyError:
            raise
        except Exception as e:  # noqa: BLE001
            raise Refused("operation %d (%s) refused: %s: %s" % (n, name, type(e).__name__, str(e)[:160]))
    return obj, {k: "[" + "; ".join(v) + "]" for k, v in steps.items()}, unsorted


def h_derived(ctx, name, spec_bits, sig, text):
    """codes of the c03_d*_case checkers: bit 6 = the samples are those of the derivation with every patch selection in
    ascending order (the container holds other patches at position k than the caller selected - consistently; which
    patch sits where in a selection is C17's subject: a broken tie); spec_bits = the property is false on this input"""
    def h(c, case, replay):
        if c & 64:
            ctx.disagree("c03_derived_patch_order", case, dict(code=c, replay=replay, detail="the samples are the leave-one-out "
                         "statistics of the selected patches taken in ascending order, not in the order the caller selected them"))
            return
        if c & spec_bits:
            ctx.fail(sig, text + " (code %d)" % c, replay, case=case)
        if c & ~spec_bits & 63:
            ctx.disagree(name, case, dict(code=c, replay=replay))
    return h


def d_label(what, pattern, item_kind, spec):
    return "derived/%s/%s/%s%s" % (what, pattern, item_kind, mag_suffix(spec))


def d_prepare(ctx, what, spec, members, obj=None):
    """-> (derived object, steps) or None when the implementation refused the derivation"""
    try:
        der, steps, unsorted = jk.quiet(derive_real, ctx, what, spec["edges"], members, spec["ops"], obj)
    except Refused as e:
        ctx.bump("derived_refused/%s" % what)
        ctx.log("derivation refused (%s): %s" % (what, e))
        return None
    ctx.bump("derived_cases/%s" % what)
    ctx.bump("derived_selection_order:%s" % ("not-ascending" if unsorted else "ascending"))
    return der, steps


def case_dsps(ctx, batch, spec):
    p = spec["pc"]
    got = d_prepare(ctx, "sps", spec, dict(pc=p))
    if got is None:
        return
    der, steps = got
    sd = der.sample_patch_sum()
    term = "c03_dsps_case %s %s %s %s" % (steps["pc"], jk.qmat3(p["counts"]), fq.qlist(sd.data), fq.qmat(sd.samples))
    batch.add(term, h_derived(ctx, "c03_dsps_case", 2, "c03-derived-sps-sample-not-loo",
                              "PatchedCounts after %s: sample k of sample_patch_sum() is not the sum over the patches the container "
                              "holds without its k-th one" % spec["pattern"]), dict(kind="d-sps", spec=spec))
    ctx.count(key=("d-sps", repr(spec)), nontrivial=varies(sd.samples), kind=d_label("sps", spec["pattern"], spec["item_kind"], spec))


def case_dweights(ctx, batch, spec):
    p = spec["pc"]
    got = d_prepare(ctx, "weights", spec, dict(pc=p))
    if got is None:
        return
    der, steps = got
    arr, sd = der.get_array(), der.sample_patch_sum()
    term = "c03_dweights_case %s %s %s %s %s %s %s" % (steps["pc"], fq.b(p["auto"]), fq.qmat(p["w1"]), fq.qmat(p["w2"]), jk.qmat3(arr),
                                                       fq.qlist(sd.data), fq.qmat(sd.samples))
    batch.add(term, h_derived(ctx, "c03_dweights_case", 2 | 4, "c03-derived-weights-sample-not-loo",
                              "PatchedSumWeights after %s: sample k of sample_patch_sum() is not the normalisation of the patches the "
                              "container holds without its k-th one" % spec["pattern"]), dict(kind="d-weights", spec=spec))
    ctx.count(key=("d-weights", repr(spec)), nontrivial=varies(sd.samples),
              kind=d_label("weights", spec["pattern"], spec["item_kind"], spec))


def case_dnc(ctx, batch, spec):
    p = spec["pc"]
    got = d_prepare(ctx, "nc", spec, dict(pc=p))
    if got is None:
        return
    der, steps = got
    sd = jk.quiet(der.sample_patch_sum)
    term = "c03_dnc_case %s %s %s %s %s %s %s" % (steps["pc"], fq.b(p["auto"]), jk.qmat3(p["counts"]), fq.qmat(p["w1"]), fq.qmat(p["w2"]),
                                                  jk.oqlist(sd.data), jk.oqmat(sd.samples))
    batch.add(term, h_derived(ctx, "c03_dnc_case", 2, "c03-derived-nc-sample-not-recount",
                              "NormalisedCounts after %s: sample k of sample_patch_sum() is not the normalised count of the patches the "
                              "container holds without its k-th one (pair counts and sums of weights of the SAME patches)"
                              % spec["pattern"]), dict(kind="d-nc", spec=spec))
    ctx.count(key=("d-nc", repr(spec)), nontrivial=varies(sd.samples), kind=d_label("nc", spec["pattern"], spec["item_kind"], spec))


def dcf_term(kinds, steps):
    def one(k):
        return "(%s, %s)" % (steps[k], jk.pc_term(kinds[k]))
    return "(%s, %s, %s, %s)" % ((one("dd"),) + tuple("None" if kinds[k] is None else "(Some %s)" % one(k) for k in jk.KINDS))


def case_dcorr(ctx, batch, cov_batch, spec, obj=None, label=None):
    """CorrFunc.sample() of the CorrFunc built from spec['kinds'] (or of obj, a measured one that stores them) after spec['ops']"""
    got = d_prepare(ctx, "corr", spec, spec["kinds"], obj)
    if got is None:
        return None
    der, steps = got
    try:
        cd = jk.quiet(der.sample)
    except Exception as e:  # noqa: BLE001
        ctx.count(key=("d-corr-raised", repr(spec)), kind="derived/corr/raised")
        ctx.fail("c03-raises:%s" % type(e).__name__, "CorrFunc.sample() raised %s: %s after %s" % (type(e).__name__, e, spec["pattern"]),
                 dict(kind="d-corr", spec=spec))
        return None
    term = "c03_dcorr_case %s %s %s" % ("tolp" if spec.get("rounded") else "tol48", dcf_term(spec["kinds"], steps), jk.oqmat(cd.samples))
    batch.add(term, h_derived(ctx, "c03_dcorr_case", 2, "c03-derived-corr-sample-not-recount",
                              "CorrFunc after %s: sample k of sample() is not the estimator of the pair counts of the patches the "
                              "container holds without its k-th one" % spec["pattern"]),
              dict(kind="d-corr", spec=spec) if obj is None else dict(kind="pipeline", spec=spec["pipeline"]))
    ctx.count(key=("d-corr", repr(spec["kinds"]), repr(spec["ops"])), nontrivial=varies(cd.samples),
              kind=label or d_label("corr/%s" % ("auto" if spec["kinds"]["dd"]["auto"] else "cross"), spec["pattern"], spec["item_kind"], spec))
    ctx.sample(dict(kind="d-corr", ops=[dict(o, other="...") if "other" in o else o for o in spec["ops"]],
                    samples=np.asarray(cd.samples).tolist()), limit=2)
    if cov_batch is not None:
        add_cov(ctx, cov_batch, cd, jk.probes_for(ctx.rng, np.asarray(cd.samples).shape[1]), dict(kind="d-corr", spec=spec),
                ("cov-d-corr", repr(spec)), "covariance/derived-corr")
    return cd


def case_dnz(ctx, batch, cov_batch, spec):
    """RedshiftData.from_corrfuncs of CorrFuncs that went through the same operations"""
    cfs, terms = {}, {}
    for which in ("cross", "ref", "unk"):
        sub = spec[which]
        if sub is None:
            cfs[which], terms[which] = None, "None"
            continue
        got = d_prepare(ctx, "corr", dict(edges=sub["edges"], ops=spec["ops"]), sub["kinds"])
        if got is None:
            return
        cfs[which] = got[0]
        terms[which] = dcf_term(sub["kinds"], got[1]) if which == "cross" else "(Some %s)" % dcf_term(sub["kinds"], got[1])
    try:
        nz = jk.quiet(jk.RedshiftData.from_corrfuncs, cfs["cross"], cfs["ref"], cfs["unk"])
    except Exception as e:  # noqa: BLE001
        ctx.count(key=("d-nz-raised", repr(spec)), kind="derived/nz/raised")
        ctx.fail("c03-raises:%s" % type(e).__name__, "RedshiftData.from_corrfuncs raised %s: %s after %s" % (type(e).__name__, e, spec["pattern"]),
                 dict(kind="d-nz", spec=spec))
        return
    dz = list(cfs["cross"].binning.dz)
    term = "c03_dnz_case %s %s %s %s %s" % (fq.qlist(dz), terms["cross"], terms["ref"], terms["unk"], jk.oqmat(nz.samples))
    batch.add(term, h_derived(ctx, "c03_dnz_case", 1, "c03-derived-nz-sample-not-recount",
                              "RedshiftData.from_corrfuncs of CorrFuncs after %s: sample k is not the n(z) formula of the correlation "
                              "functions recomputed from the patches they hold without the k-th one" % spec["pattern"]),
              dict(kind="d-nz", spec=spec))
    ctx.count(key=("d-nz", repr(spec)), nontrivial=varies(nz.samples),
              kind=d_label("nz/%s%s" % ("ref" if cfs["ref"] is not None else "", "+unk" if cfs["unk"] is not None else ""),
                           spec["pattern"], spec["item_kind"], spec))
    add_cov(ctx, cov_batch, nz, jk.probes_for(ctx.rng, len(dz)), dict(kind="d-nz", spec=spec), ("cov-d-nz", repr(spec)),
            "covariance/derived-nz")


def gen_dsingle(rng, what, small=False, pattern=None, item_kind=None, shape=None, auto=None, mag=False):
    spec = gen_single_mag(rng, what, small) if mag else gen_single(rng, what, small)
    if shape is not None or auto is not None:
        B, N = shape or (len(spec["edges"]) - 1, spec["N"])
        a = spec["pc"]["auto"] if auto is None else auto
        spec = dict(edges=jk.gen_binning(rng, B), N=N, mode="dense", pc=jk.pc_plain(jk.gen_pc(rng, B, N, a, "dense")))
    B, N = len(spec["edges"]) - 1, spec["N"]
    spec["ops"], spec["pattern"], spec["item_kind"] = gen_ops(rng, what, B, N, spec["pc"]["auto"], ["pc"], pattern, item_kind)
    return spec


def gen_dcorr(rng, small=False, pattern=None, item_kind=None, shape=None, auto=None, mag=False):
    if mag:
        spec = gen_corr_mag(rng, small, shape=shape, auto=auto)
    elif shape is not None or auto is not None:
        B, N = shape or jk.pick_shape(rng, small)
        a = (rng.random() < 0.5) if auto is None else auto
        defined = [s for s in jk.SUBSETS if "dr" in s or ("rr" not in s)]
        spec = jk.corr_plain(jk.gen_binning(rng, B), N, jk.gen_corrfunc(rng, B, N, a, rng.choice(["dense", "dense", "dyadic"]), rng.choice(defined)))
    else:
        spec = gen_corr(rng, small)
    B, N = len(spec["edges"]) - 1, spec["N"]
    names = [k for k in jk.ALLK if spec["kinds"][k] is not None]
    spec["ops"], spec["pattern"], spec["item_kind"] = gen_ops(rng, "corr", B, N, spec["kinds"]["dd"]["auto"], names, pattern, item_kind)
    return spec


NZ_PATTERNS = ("patches", "patches", "patches-twice", "bins+patches", "patches+bins", "mul+patches", "copy+patches", "patches+copy")


def gen_dnz(rng, small=False, pattern=None, item_kind=None):
    """the three CorrFuncs of an n(z) estimate, all taken through the same operations (no addends)"""
    spec = jk.gen_nz_spec(rng, small)
    B, N = len(spec["cross"]["edges"]) - 1, spec["cross"]["N"]
    spec["ops"], spec["pattern"], spec["item_kind"] = gen_ops(rng, "corr", B, N, False, [], pattern or rng.choice(NZ_PATTERNS), item_kind)
    return spec


def derived_probe(ctx, b_raw, b_der, b_cov):
    """deterministic members of the class (independent of VERIF_SEED): every kind of patch index once through
    NormalisedCounts and once through CorrFunc (auto and cross alternating), every pattern of operations once through
    CorrFunc, selections through the raw containers and through RedshiftData.from_corrfuncs"""
    import random
    prng = random.Random(80808)
    for n, kind in enumerate(PATCH_ITEMS):
        case_dnc(ctx, b_raw, gen_dsingle(prng, "nc", pattern="patches", item_kind=kind, shape=(2, 7 - n % 3), auto=bool(n % 2)))
        case_dcorr(ctx, b_der, b_cov, gen_dcorr(prng, pattern="patches", item_kind=kind, shape=(2, 5 + n % 3), auto=not n % 2))
    for n, pattern in enumerate(dict.fromkeys(D_PATTERNS)):
        case_dcorr(ctx, b_der, None, gen_dcorr(prng, pattern=pattern, item_kind=("list-unsorted", "reversed", "neg-step")[n % 3],
                                               shape=(3, 5), auto=bool(n % 2)))
    for kind in ("list-unsorted", "reversed", "neg-step", "permutation"):
        case_dsps(ctx, b_raw, gen_dsingle(prng, "sps", pattern="patches", item_kind=kind, shape=(2, 5)))
        case_dweights(ctx, b_raw, gen_dsingle(prng, "weights", pattern="patches", item_kind=kind, shape=(2, 5)))
    for kind, pattern in (("list-unsorted", "patches"), ("reversed", "bins+patches"), ("rotation", "patches-twice")):
        case_dnz(ctx, b_der, b_cov, gen_dnz(prng, pattern=pattern, item_kind=kind))


# ----------------------------------------------------------------------------- entry points
def large_container_probe(ctx):
    """Very large count containers (element counts on both sides of 2^24 .. 2^27; thorough: 2^28): what count_pairs / from_hdf
    allocate with zeros() must hold pair counts in double precision whatever its size - the leave-one-out samples are differences
    of sums of these cells.  A few cells are written and read back bit for bit; the jackknife of the sparse container is compared
    with the delete-one recount of exactly those cells."""
    from yaw.binning import Binning
    from yaw.correlation.paircounts import PatchedCounts
    rng = ctx.rng
    sizes = [(1, 4100), (1, 5800), (1, 8200), (2, 8200)] + ([] if ctx.quick() else [(1, 11600), (1, 16400), (64, 1030)])
    for nb, npatch in sizes:
        binning = Binning([0.1 * k for k in range(nb + 1)], closed="right")
        pc = PatchedCounts.zeros(binning, npatch, auto=False)
        cells = {}
        for value in (2.0 ** 24 + 1.0, 2.0 ** 31 + 3.0, 2.0 ** 53 - 1.0, 0.1, 1.0 / 3.0):
            i, j = rng.randrange(npatch), rng.randrange(npatch)
            pc.set_patch_pair(i, j, np.full(nb, value))
            cells[(i, j)] = value
        bad = [(ij, v, float(pc.counts[0, ij[0], ij[1]])) for ij, v in cells.items() if float(pc.counts[0, ij[0], ij[1]]).hex() != float(v).hex()]
        ctx.count(key=("large-container", nb, npatch), nontrivial=True, kind="large-container/2^%d-elements" % int(np.log2(nb * npatch * npatch)))
        if bad or pc.counts.dtype != np.float64:
            ctx.fail("c03-large-container-loses-precision", "PatchedCounts.zeros(%d bins, %d patches) holds its cells as %s: written %r, read back %r"
                     % (nb, npatch, pc.counts.dtype, bad[0][1] if bad else None, bad[0][2] if bad else None),
                     dict(bins=nb, patches=npatch, dtype=str(pc.counts.dtype), cells=[[list(ij), v, g] for ij, v, g in bad]), case=("large", nb, npatch))
            continue
        # delete-one totals of the sparse container: total minus row k minus column k plus the diagonal cell
        total = sum(cells.values())
        ks = sorted({i for i, _ in cells} | {j for _, j in cells})[:3] + [rng.randrange(npatch)]
        got = np.asarray(pc.sample_patch_sum().samples)[:, 0]
        if True:
            for k in ks:
                want = sum(v for (i, j), v in cells.items() if i != k and j != k)
                if abs(got[k] - want) > 2e-16 * 8 * abs(total):
                    ctx.fail("c03-large-container-sample-not-recount", "jackknife sample %d of a %d-patch container with five non-zero cells is %r, "
                             "the recount without patch %d gives %r" % (k, npatch, float(got[k]), k, want),
                             dict(bins=nb, patches=npatch, k=k, cells=[[list(ij), v] for ij, v in cells.items()]), case=("large-sample", nb, npatch, k))
                    break
        del pc


def run(ctx):
    large_container_probe(ctx)
    rng = ctx.rng
    traces(ctx)
    ctx.log("traces done")
    b_raw = jk.Batch(ctx, "Cases_C03_raw", shard=60)
    b_corr = BatchX(ctx, "Cases_C03_corr", shard=20)
    b_cov = jk.Batch(ctx, "Cases_C03_cov", shard=12)
    b_nz = jk.Batch(ctx, "Cases_C03_nz", shard=40)
    b_hist = jk.Batch(ctx, "Cases_C03_hist", shard=80)
    b_rerun = BatchX(ctx, "Cases_C03_rerun", shard=80)
    b_der = BatchX(ctx, "Cases_C03_derived", shard=8)
    f10b_probe(ctx, b_hist, b_cov)
    large_n_probe(ctx)
    undefined_probe(ctx, b_corr, b_nz, b_cov)
    magnitude_probe(ctx, b_raw, b_corr, b_nz, b_cov, b_hist, b_rerun, b_der)
    derived_probe(ctx, b_raw, b_der, b_cov)
    small = not ctx.quick()          # thorough: many cases, mostly small shapes

    def few():
        return small and rng.random() < 0.7
    for _ in range(ctx.n(50, 900)):
        case_sps(ctx, b_raw, gen_single(rng, "sps", few()))
    for _ in range(ctx.n(40, 600)):
        case_weights(ctx, b_raw, gen_single(rng, "weights", few()))
    for _ in range(ctx.n(50, 900)):
        case_nc(ctx, b_raw, gen_single(rng, "nc", few()))
    for _ in range(ctx.n(100, 1700)):
        case_corr(ctx, b_corr, b_cov, gen_corr(rng, few()))
    for _ in range(ctx.n(30, 450)):
        case_nz(ctx, b_nz, b_cov, jk.gen_nz_spec(rng, few()))
    for _ in range(ctx.n(30, 450)):
        case_corr(ctx, b_corr, b_cov, gen_corr_undefined(rng))
    for _ in range(ctx.n(12, 150)):
        case_nz(ctx, b_nz, b_cov, gen_nz_undefined(rng))
    for _ in range(ctx.n(40, 500)):
        case_direct(ctx, b_cov, gen_direct(rng))
    for i in range(ctx.n(40, 450)):
        N = rng.choice([2, 3, 3, 4, 5, 7])
        B = rng.choice([1, 2, 3, 4])
        weighted = rng.random() < 0.7
        edges, rows, obs = jk.gen_hist_catalog(rng, N, B, weighted=weighted)
        case_hist(ctx, b_hist, b_cov, dict(edges=edges, rows=rows, obs=obs, weighted=weighted), "h%d" % i)
    # ---- magnitudes: the same scenarios on power-of-two scaled arrays
    for _ in range(ctx.n(25, 400)):
        case_sps(ctx, b_raw, gen_single_mag(rng, "sps", few()))
    for _ in range(ctx.n(25, 300)):
        case_weights(ctx, b_raw, gen_single_mag(rng, "weights", few()))
    for _ in range(ctx.n(35, 500)):
        case_nc(ctx, b_raw, gen_single_mag(rng, "nc", few()))
    for _ in range(ctx.n(40, 800)):       # (quick: mostly few patches - the model adds unreduced fractions of 2^-80)
        case_corr(ctx, b_corr, b_cov, gen_corr_mag(rng, few() or (ctx.quick() and rng.random() < 0.85)))
    for _ in range(ctx.n(12, 200)):
        case_nz(ctx, b_nz, b_cov, gen_nz_spec_mag(rng, ctx.quick() or few()))
    for _ in range(ctx.n(24, 300)):
        case_nz_direct(ctx, b_nz, b_cov, gen_nz_direct(rng, scaled=rng.random() < 0.75))
    for _ in range(ctx.n(24, 300)):
        case_direct(ctx, b_cov, gen_direct_mag(rng))
    for i in range(ctx.n(14, 150)):
        case_hist(ctx, b_hist, b_cov, gen_hist_mag(rng, rng.choice([2, 3, 3, 4, 5, 7]), rng.choice([1, 2, 3, 4])), "hm%d" % i)
    # ---- the real pipeline
    for i in range(ctx.n(7, 40)):
        spec = gen_pipeline(rng)
        case_pipeline(ctx, b_corr, b_nz, b_cov, b_rerun, spec, "p%d" % i,
                      ks=None if ctx.quick() else list(range(spec["npatch"])), b_der=b_der)
    # ---- derived containers: selected / added / multiplied / re-read before sampling
    mag_patterns = ("patches", "patches-twice", "bins+patches", "patches+mul", "mul+patches", "copy+patches")
    for _ in range(ctx.n(10, 200)):
        case_dsps(ctx, b_raw, gen_dsingle(rng, "sps", few()))
    for _ in range(ctx.n(8, 150)):
        case_dweights(ctx, b_raw, gen_dsingle(rng, "weights", few()))
    for _ in range(ctx.n(14, 300)):
        case_dnc(ctx, b_raw, gen_dsingle(rng, "nc", few()))
    for _ in range(ctx.n(22, 500)):
        case_dcorr(ctx, b_der, b_cov, gen_dcorr(rng, few()))
    for _ in range(ctx.n(6, 120)):
        case_dnc(ctx, b_raw, gen_dsingle(rng, "nc", few(), pattern=rng.choice(mag_patterns), mag=True))
    for _ in range(ctx.n(6, 120)):
        case_dcorr(ctx, b_der, None, gen_dcorr(rng, few() or ctx.quick(), pattern=rng.choice(mag_patterns), mag=True))
    for _ in range(ctx.n(8, 150)):
        case_dnz(ctx, b_der, b_cov, gen_dnz(rng, ctx.quick() or few()))
    if not ctx.quick():
        exhaustive_binary(ctx, b_raw)
    batches = (b_hist, b_raw, b_corr, b_der, b_nz, b_cov, b_rerun)
    ctx.log("implementation runs done; evaluating %d cases in Coq" % sum(len(b.items) for b in batches))
    for b in batches:
        b.run()
        ctx.log("%s evaluated" % b.name)


def replay(ctx, body):
    r = body.get("replay", body)
    spec, kind = r["spec"], r["kind"]
    b, bc = BatchX(ctx, "Replay_C03"), jk.Batch(ctx, "Replay_C03_cov")
    if kind == "sps":
        case_sps(ctx, b, spec)
    elif kind == "weights":
        case_weights(ctx, b, spec)
    elif kind == "nc":
        case_nc(ctx, b, spec)
    elif kind in ("corr", "corr-cov"):
        case_corr(ctx, b, bc, spec)
    elif kind in ("nz", "nz-cov"):
        case_nz(ctx, b, bc, spec)
    elif kind in ("nz-direct", "nz-direct-cov"):
        case_nz_direct(ctx, b, bc, spec)
    elif kind == "pipeline":
        case_pipeline(ctx, b, b, bc, b, spec, "replay", ks=[r["k"]] if "k" in r else list(range(spec["npatch"])), b_der=b)
    elif kind == "d-sps":
        case_dsps(ctx, b, spec)
    elif kind == "d-weights":
        case_dweights(ctx, b, spec)
    elif kind == "d-nc":
        case_dnc(ctx, b, spec)
    elif kind == "d-corr":
        case_dcorr(ctx, b, bc, spec)
    elif kind == "d-nz":
        case_dnz(ctx, b, bc, spec)
    elif kind == "direct":
        case_direct(ctx, bc, spec)
    elif kind in ("hist", "hist-cov"):
        from fractions import Fraction
        if spec.get("obs"):
            spec = dict(spec, obs=[[Fraction(x) for x in row] for row in spec["obs"]])
            case_hist(ctx, b, bc, spec, "replay")
    b.run()
    bc.run()
