"""C03 — jackknife sample k is the statistic with patch k left out.

Tie: (a) random small dyadic / integer count and weight arrays (bins 1-4, patches 2-7, auto and
cross, sparse and dense) are put into the real containers (PatchedCounts, PatchedSumWeights,
NormalisedCounts, CorrFunc, and real small catalogs -> HistData.from_catalog); the observed
`.sample_patch_sum()`, `.sample().samples/.covariance/.error`, `RedshiftData.from_corrfuncs().samples`,
`HistData.samples` are compared inside Coq with Model/Jackknife.v + Model/Estimators.v: with the
model of the code (total - row - col + diag, ...) and with the specification (the statistic
recomputed with patch k deleted from every array).  (b) symbolic traces of the real
sample_patch_sum / get_array / NormalisedCounts.sample_patch_sum are re-proved equal to the
specification by `ring` on every run.  (c) samples with undefined entries: bins whose objects /
pairs sit in ONE patch (leaving that patch out gives 0/0 or x/0), empty bins, negative radicands
of the n(z) formula, and directly built CorrData / RedshiftData / HistData with NaN / +-inf cells:
.covariance / .error are compared entry-wise with Model/Jackknife.v:cov_opt (for every pair of bins
that is finite in ALL samples: the delete-one covariance over ALL N samples; Props/C03:
C03_cov_opt_defined, C03_cov_code_columns, C03_cov_drop_refuted).
"""
import numpy as np

from lib import floatq as fq
from props import _jk_common as jk

ALLOWED_AXIOMS = []
TRUSTED = [
    "symbolic-trace translator (harness/props/_jk_common.py: operator-overloading symbols in numpy object arrays; "
    "assumes the traced functions branch only on structure, not on values; containers built with __new__ so that no "
    "astype(float64) runs)",
    "numpy kernels (einsum, tile, triu, cov, sqrt, histogram) and pandas are exercised, not modelled; float64 sums of the "
    "generated small dyadic numbers are exact, quotients are compared with a relative 2^-48 bound (forward error bound "
    "for the estimator, 2^-44 of the natural scale for the covariance)",
    "per-patch histograms handed to the model are computed by the harness from redshifts placed strictly inside bins "
    "(bin-edge membership is C10's subject)",
]
ASSUMPTIONS = [
    "histogram rows are compared for max_workers=1 (row order under parallel completion is C05's subject)",
    "where an exact denominator is zero (empty normalisation) the quotient is undefined and nothing is compared",
    "covariance entries of a bin that has a non-finite sample have no value in the property's formula: that the "
    "implementation reports a non-finite float there is part of the model tie (ctx.disagree), not of the property",
    "containers with a single sample (one patch) are outside the property (patches >= 2)",
]
RULE = ("cases = one container (PatchedCounts | PatchedSumWeights | NormalisedCounts | CorrFunc with a subset of dr/rd/rr | "
        "triple of CorrFuncs for n(z) | catalog for a histogram) with its arrays; distinct by all array entries; "
        "non-trivial when patches >= 2 and the samples differ between at least two patches (so that a permuted, "
        "mis-signed or incomplete leave-one-out sum changes the output)")

KNOWN_HIST_SIG = "c03-hist-samples-reversed"


# ----------------------------------------------------------------------------- handlers
def h_sps(ctx):
    def h(c, case, replay):
        if c & 2:
            ctx.fail("c03-sps-sample-not-loo", "PatchedCounts.sample_patch_sum(): sample k is not the sum with patch k "
                     "left out (code %d)" % c, replay, case=case)
        if c & 1:
            ctx.disagree("c03_sps_case", case, dict(code=c, replay=replay))
    return h


def h_weights(ctx):
    def h(c, case, replay):
        if c & 2:
            ctx.fail("c03-weights-sample-not-loo", "PatchedSumWeights.sample_patch_sum(): sample k is not the "
                     "normalisation recomputed without patch k (code %d)" % c, replay, case=case)
        if c & 4:
            ctx.fail("c03-weights-total", "PatchedSumWeights total is not W1*W2 (cross) / the upper-triangle sum (auto) "
                     "(code %d)" % c, replay, case=case)
        if c & 1:
            ctx.disagree("c03_weights_case", case, dict(code=c, replay=replay))
    return h


def h_nc(ctx):
    def h(c, case, replay):
        if c & 2:
            ctx.fail("c03-nc-sample-not-recount", "NormalisedCounts.sample_patch_sum(): sample k is not the normalised "
                     "count recomputed without patch k (code %d)" % c, replay, case=case)
        if c & 1:
            ctx.disagree("c03_nc_case", case, dict(code=c, replay=replay))
    return h


def h_corr(ctx):
    def h(c, case, replay):
        if c & 2:
            ctx.fail("c03-corr-sample-not-recount", "CorrFunc.sample().samples[k] is not the estimator of the pair counts "
                     "with patch k removed (code %d)" % c, replay, case=case)
        if c & 1:
            ctx.disagree("c03_corr_case", case, dict(code=c, replay=replay))
    return h


def h_cov(ctx):
    def h(c, case, replay):
        if c & 1:
            ctx.fail("c03-covariance-not-jackknife", "covariance is not (N-1)/N sum_k (x_k - mean)(x_k - mean)^T of the "
                     "container's own samples (code %d)" % c, replay, case=case)
        if c & 2:
            ctx.fail("c03-covariance-asymmetric", "covariance matrix is not symmetric (code %d)" % c, replay, case=case)
        if c & 4:
            ctx.fail("c03-error-not-diag-root", "error is not the non-negative root of the covariance diagonal (code %d)" % c,
                     replay, case=case)
        if c & 8:
            ctx.fail("c03-covariance-not-psd", "v^T C v < 0 for a probe vector (code %d)" % c, replay, case=case)
    return h


def h_covopt(ctx):
    def h(c, case, replay):
        if c & 2:
            ctx.fail("c03-covariance-defined-bins-not-jackknife", "some samples are undefined (non-finite) in some bin; for a "
                     "pair of bins that is finite in ALL samples the covariance is not (N-1)/N sum_k (x_k - mean)(x_k - mean)^T "
                     "over all N of the container's own samples (code %d)" % c, replay, case=case)
        if c & 4:
            ctx.fail("c03-covariance-asymmetric", "covariance matrix is not symmetric on the bins that are finite in all "
                     "samples (code %d)" % c, replay, case=case)
        if c & 8:
            ctx.fail("c03-error-not-diag-root", "error is not the non-negative root of the covariance diagonal on the bins "
                     "that are finite in all samples (code %d)" % c, replay, case=case)
        if c & 16:
            ctx.fail("c03-covariance-not-psd", "v^T C v < 0 for a probe vector supported on the bins that are finite in all "
                     "samples (code %d)" % c, replay, case=case)
        if c & 1:
            ctx.disagree("c03_covopt_case", case, dict(code=c, replay=replay, detail="covariance / error are numbers on "
                         "other entries than those where both bins are finite in all samples"))
    return h


def h_nz(ctx):
    def h(c, case, replay):
        if c & 2:
            ctx.fail("c03-nz-sample-formula", "RedshiftData.from_corrfuncs().samples[k] is not the n(z) formula applied to "
                     "jackknife sample k of the correlation functions (code %d)" % c, replay, case=case)
        # bit 0 (the value) belongs to C04
    return h


def h_hist(ctx):
    def h(c, case, replay):
        if c & 2:
            if c & 8:
                ctx.fail(KNOWN_HIST_SIG, "HistData.from_catalog().samples: row k is the histogram without patch N-1-k "
                         "(reverse patch order), not without patch k", replay, case=case)
            else:
                ctx.fail("c03-hist-samples-not-loo", "HistData.from_catalog().samples[k] is not the histogram without "
                         "patch k (code %d)" % c, replay, case=case)
        if c & 4:
            ctx.fail("c03-hist-data-not-sum", "HistData.from_catalog().data is not the sum over patches (code %d)" % c,
                     replay, case=case)
        if c & 1:
            ctx.disagree("c03_hist_case", case, dict(code=c, replay=replay))
    return h


# ----------------------------------------------------------------------------- single cases
def varies(samples):
    s = np.asarray(samples, dtype=float)
    return bool(s.shape[0] >= 2 and np.all(np.isfinite(s)) and np.any(s != s[0]))


def case_sps(ctx, batch, spec):
    p = spec["pc"]
    sd = jk.build_counts(spec["edges"], p).sample_patch_sum()
    term = "c03_sps_case %s %s %s %s" % (fq.nat(spec["N"]), jk.qmat3(p["counts"]), fq.qlist(sd.data), fq.qmat(sd.samples))
    batch.add(term, h_sps(ctx), dict(kind="sps", spec=spec))
    ctx.count(key=("sps", repr(p["counts"])), nontrivial=varies(sd.samples), kind="sps/%s" % spec.get("mode", "?"))
    ctx.sample(dict(kind="sps", counts=p["counts"], samples=sd.samples.tolist()), limit=2)


def case_weights(ctx, batch, spec):
    p = spec["pc"]
    sw = jk.build_weights(spec["edges"], p)
    arr = sw.get_array()
    sd = sw.sample_patch_sum()
    term = "c03_weights_case %s %s %s %s %s %s %s" % (
        fq.nat(spec["N"]), fq.b(p["auto"]), fq.qmat(p["w1"]), fq.qmat(p["w2"]), jk.qmat3(arr), fq.qlist(sd.data),
        fq.qmat(sd.samples))
    batch.add(term, h_weights(ctx), dict(kind="weights", spec=spec))
    ctx.count(key=("weights", p["auto"], repr(p["w1"]), repr(p["w2"])), nontrivial=varies(sd.samples),
              kind="weights/%s" % ("auto" if p["auto"] else "cross"))


def case_nc(ctx, batch, spec):
    p = spec["pc"]
    sd = jk.quiet(jk.build_nc(spec["edges"], p).sample_patch_sum)
    term = "c03_nc_case %s %s %s %s %s %s %s" % (
        fq.nat(spec["N"]), fq.b(p["auto"]), jk.qmat3(p["counts"]), fq.qmat(p["w1"]), fq.qmat(p["w2"]),
        jk.oqlist(sd.data), jk.oqmat(sd.samples))
    batch.add(term, h_nc(ctx), dict(kind="nc", spec=spec))
    ctx.count(key=("nc", repr(p)), nontrivial=varies(sd.samples), kind="nc/%s" % ("auto" if p["auto"] else "cross"))
    if not jk.all_finite(sd.samples):
        ctx.bump("impl_nonfinite_entries")


def case_corr(ctx, batch, cov_batch, spec):
    sub = jk.subset_of(spec)
    auto = spec["kinds"]["dd"]["auto"]
    try:
        cd = jk.quiet(jk.build_corrfunc(spec["edges"], spec["kinds"]).sample)
    except Exception as e:  # noqa: BLE001
        ctx.count(key=("corr-raised", repr(spec)), kind="corr/raised")
        ctx.fail("c03-raises:%s" % type(e).__name__, "CorrFunc.sample() raised %s: %s for counts {%s} for which an "
                 "estimator is defined" % (type(e).__name__, e, ",".join(sub)), dict(kind="corr", spec=spec))
        return
    batch.add("c03_corr_case %s %s" % (jk.corr_args(spec), jk.oqmat(cd.samples)), h_corr(ctx), dict(kind="corr", spec=spec))
    ctx.count(key=("corr", repr(spec)), nontrivial=varies(cd.samples),
              kind="corr/%s/%s" % ("auto" if auto else "cross", "+".join(sub)))
    ctx.sample(dict(kind="corr", subset=sub, N=spec["N"], samples=np.asarray(cd.samples).tolist()), limit=3)
    B = len(spec["edges"]) - 1
    add_cov(ctx, cov_batch, cd, spec.get("probes") or jk.probes_for(ctx.rng, B), dict(kind="corr-cov", spec=spec),
            ("cov", repr(spec)), "covariance/corr")
    if not jk.all_finite(cd.samples):
        ctx.bump("impl_nonfinite_entries")


def case_nz(ctx, batch, cov_batch, spec):
    try:
        dz, cross, ref, unk, nz = jk.run_nz(spec)
    except Exception as e:  # noqa: BLE001
        ctx.count(key=("nz-raised", repr(spec)), kind="nz/raised")
        ctx.fail("c03-raises:%s" % type(e).__name__, "RedshiftData.from_corrfuncs raised %s: %s" % (type(e).__name__, e),
                 dict(kind="nz", spec=spec))
        return
    batch.add(jk.nz_term(dz, cross, ref, unk, nz), h_nz(ctx), dict(kind="nz", spec=spec))
    ctx.count(key=("nz", repr(spec)), nontrivial=varies(nz.samples),
              kind="nz/%s%s" % ("ref" if ref is not None else "", "+unk" if unk is not None else ""))
    add_cov(ctx, cov_batch, nz, jk.probes_for(ctx.rng, len(dz)), dict(kind="nz-cov", spec=spec), ("cov-nz", repr(spec)),
            "covariance/nz")


def undefined_profile(samples):
    """-> (#bins finite in all samples, #bins non-finite in some but not all samples, #bins non-finite in all samples)"""
    f = np.isfinite(np.asarray(samples, dtype=float))
    full, none = f.all(axis=0), (~f).all(axis=0)
    return int(full.sum()), int((~full & ~none).sum()), int(none.sum())


def add_cov(ctx, cov_batch, sd, probes, replay, key, label):
    """.covariance / .error of a SampledData against the model, computed from the container's OWN samples.
    All samples finite: c03_cov_case.  Some sample non-finite (or a non-finite covariance): c03_covopt_case -
    entry-wise, every pair of bins that is finite in all samples must be the covariance over ALL N samples."""
    samples = np.asarray(sd.samples, dtype=float)
    if samples.ndim != 2 or samples.shape[0] < 2 or samples.shape[1] < 1:
        ctx.bump("cov_skipped_single_sample")      # one patch: outside the property
        return
    finite_in = jk.all_finite(samples)
    try:
        cov = np.atleast_2d(np.asarray(jk.quiet(lambda: sd.covariance), dtype=float))
        err = np.atleast_1d(np.asarray(jk.quiet(lambda: sd.error), dtype=float))
    except Exception as e:  # noqa: BLE001
        if finite_in:
            ctx.count(key=("cov-raised",) + tuple(key), kind=label + "/raised")
            ctx.fail("c03-raises:%s" % type(e).__name__, ".covariance / .error raised %s: %s for finite samples"
                     % (type(e).__name__, e), replay)
        else:                                       # a refusal of undefined samples is not a violation
            ctx.bump("cov_refused_undefined_samples")
            ctx.log("covariance of samples with non-finite entries refused: %s: %s" % (type(e).__name__, e))
        return
    if cov.ndim != 2 or err.ndim != 1:
        cov, err = cov.reshape((cov.shape[0], -1)), err.reshape(-1)
    if finite_in and jk.all_finite(cov) and jk.all_finite(err):
        term = "c03_cov_case %s %s %s %s" % (fq.qmat(samples), fq.qmat(cov), fq.qlist(err), fq.qmat(probes))
        cov_batch.add(term, h_cov(ctx), replay)
        ctx.count(key=key, nontrivial=varies(samples), kind=label)
        return
    term = "c03_covopt_case %s %s %s %s" % (jk.oqmat(samples), jk.oqmat(cov), jk.oqlist(err), fq.qmat(probes))
    cov_batch.add(term, h_covopt(ctx), replay)
    full, part, none = undefined_profile(samples)
    fin = samples[:, np.isfinite(samples).all(axis=0)]
    # non-trivial: an undefined bin next to a bin that is finite in all samples and varies between them
    # (an estimate from fewer samples, or with another prefactor, is then a different number)
    nontrivial = bool(full >= 1 and part + none >= 1 and np.any(fin != fin[0]))
    ctx.count(key=key, nontrivial=nontrivial,
              kind="%s/undefined:%s" % (label, "some-samples" if part else ("whole-bin" if none else "covariance-only")))
    ctx.bump("cov_cases_with_undefined_samples")
    if part and full and int(np.isfinite(samples).all(axis=1).sum()) >= 2:
        ctx.bump("cov_cases_undefined_in_some_samples_with_2+_complete_samples")
    ctx.sample(dict(kind="cov-undefined", label=label, samples=[[repr(float(x)) for x in r] for r in samples],
                    covariance=[[repr(float(x)) for x in r] for r in cov]), limit=2)


def case_direct(ctx, cov_batch, spec):
    """a CorrData / RedshiftData / HistData built directly from (binning, data, samples)"""
    cls = dict(CorrData=jk.CorrData, RedshiftData=jk.RedshiftData, HistData=jk.HistData)[spec["cls"]]
    samples = np.array([[float(x) for x in r] for r in spec["samples"]], dtype=float)
    data = np.array([float(x) for x in spec["data"]], dtype=float)
    try:
        sd = cls(jk.Binning(spec["edges"], closed="right"), data, samples)
    except Exception as e:  # noqa: BLE001  a refusal of such values is not a violation
        ctx.bump("direct_refused:%s" % type(e).__name__)
        return
    if not jk.same_bits(sd.samples, samples):
        ctx.bump("direct_samples_altered")      # C04's subject; the covariance is compared with the container's own samples
    B = samples.shape[1]
    add_cov(ctx, cov_batch, sd, spec.get("probes") or jk.probes_for(ctx.rng, B), dict(kind="direct", spec=spec),
            ("cov-direct", repr(spec["cls"]), repr(spec["samples"])), "covariance/direct-%s" % spec["cls"])


def case_hist(ctx, batch, cov_batch, spec, tag):
    edges, rows, obs = spec["edges"], spec["rows"], spec["obs"]
    try:
        h = jk.hist_from_catalog(ctx, tag, edges, rows, spec["weighted"])
    except Exception as e:  # noqa: BLE001
        ctx.count(key=("hist-raised", repr(spec)), kind="hist/raised")
        ctx.fail("c03-raises:%s" % type(e).__name__, "HistData.from_catalog raised %s: %s" % (type(e).__name__, e),
                 dict(kind="hist", spec=spec))
        return None
    B = len(edges) - 1
    term = "c03_hist_case %s %s %s %s" % (fq.nat(B), fq.qmat(obs), fq.qlist(h.data), fq.qmat(h.samples))
    batch.add(term, h_hist(ctx), dict(kind="hist", spec=dict(spec, obs=[[float(x) for x in r] for r in obs]),
                                      impl_samples=np.asarray(h.samples).tolist()))
    loo = [[sum(obs[p][b] for p in range(len(obs)) if p != k) for b in range(B)] for k in range(len(obs))]
    ctx.count(key=("hist", repr(rows), repr(edges)), nontrivial=loo != loo[::-1], kind="hist/N%d" % len(obs))
    ctx.sample(dict(kind="hist", per_patch_hist=[[float(x) for x in r] for r in obs],
                    impl_samples=np.asarray(h.samples).tolist()), limit=4)
    add_cov(ctx, cov_batch, h, jk.probes_for(ctx.rng, B), dict(kind="hist-cov", spec=dict(spec, obs=None)),
            ("cov-hist", repr(rows)), "covariance/hist")
    return h


# ----------------------------------------------------------------------------- generators
def gen_single(rng, what, small=False):
    B, N = jk.pick_shape(rng, small)
    mode = rng.choice(["dense", "sparse", "dyadic", "binary"])
    auto = rng.random() < 0.5
    p = jk.gen_pc(rng, B, N, auto, mode)
    return dict(edges=jk.gen_binning(rng, B), N=N, mode=mode, pc=jk.pc_plain(p))


def gen_corr(rng, small=False):
    B, N = jk.pick_shape(rng, small)
    mode = rng.choice(["dense", "dense", "sparse", "dyadic", "binary"])
    auto = rng.random() < 0.5
    defined = [s for s in jk.SUBSETS if "dr" in s or ("rr" not in s)]
    return jk.corr_plain(jk.gen_binning(rng, B), N, jk.gen_corrfunc(rng, B, N, auto, mode, rng.choice(defined)))


# ---- the class "a bin is undefined in some jackknife samples"
UNDEF_PATTERNS = ("lonely-weight", "lonely-weight", "lonely-both-sides", "two-bins", "lonely+empty", "lonely-counts",
                  "lonely-weight-keep-counts")


def _as_arrays(p):
    return dict(auto=bool(p["auto"]), counts=np.array(p["counts"], dtype=float), w1=np.array(p["w1"], dtype=float),
                w2=np.array(p["w2"], dtype=float))


def _lonely_weight(p, b, patch, side, zero_counts):
    """all objects of bin b of catalog `side` (1, 2, or 3 = both) sit in `patch`"""
    N = p["w1"].shape[1]
    sides = (1, 2) if (side == 3 or p["auto"]) else (side,)
    for sd in sides:
        w = p["w%d" % sd]
        keep = w[b, patch] if w[b, patch] != 0 else 3.0
        w[b, :] = 0.0
        w[b, patch] = keep
        if zero_counts:                       # no objects, no pairs
            for i in range(N):
                if i != patch:
                    if sd == 1:
                        p["counts"][b, i, :] = 0.0
                    else:
                        p["counts"][b, :, i] = 0.0


def _lonely_counts(p, b, patch):
    """every pair of bin b involves `patch`: without it the count is 0 (a zero denominator of the estimator)"""
    N = p["w1"].shape[1]
    for i in range(N):
        for j in range(N):
            if i != patch and j != patch:
                p["counts"][b, i, j] = 0.0


def _empty_bin(p, b):
    p["w1"][b, :] = 0.0
    if p["auto"]:
        p["w2"][b, :] = 0.0
    p["counts"][b] = 0.0


def make_undefined(rng, kinds, B, N, pattern):
    """edit a pair-count description (dict of plain pc / None) so that some bins are populated from one patch only;
    returns the edited plain description"""
    arrs = {k: None if p is None else _as_arrays(p) for k, p in kinds.items()}
    present = [k for k in ("dd",) + jk.KINDS if arrs[k] is not None]
    denom = "rr" if arrs.get("rr") is not None else ("rd" if arrs.get("dr") is None else "dr")
    b = rng.randrange(B)
    patch = rng.randrange(N)

    def some_kinds():
        r = rng.random()
        if r < 0.45:
            return present                                    # a catalog shared by all pair counts
        if r < 0.7:
            return [denom]
        return [k for k in present if rng.random() < 0.5] or [rng.choice(present)]
    if pattern in ("lonely-weight", "lonely-weight-keep-counts"):
        side = rng.choice([1, 2])
        for k in some_kinds():
            _lonely_weight(arrs[k], b, patch, side, pattern == "lonely-weight")
    elif pattern == "lonely-both-sides":                      # two different samples of one bin are undefined
        other = (patch + 1 + rng.randrange(N - 1)) % N if N > 1 else patch
        for k in some_kinds():
            _lonely_weight(arrs[k], b, patch, 1, True)
            _lonely_weight(arrs[k], b, other, 2, True)
    elif pattern == "two-bins":                               # two bins, each with its own lonely patch
        b2 = (b + 1) % B
        other = (patch + 1 + rng.randrange(N - 1)) % N if N > 1 else patch
        ks = some_kinds()
        for k in ks:
            _lonely_weight(arrs[k], b, patch, rng.choice([1, 2]), True)
            _lonely_weight(arrs[k], b2, other, rng.choice([1, 2]), True)
    elif pattern == "lonely+empty":                           # one bin undefined in one sample, another in all
        b2 = (b + 1) % B
        for k in some_kinds():
            _lonely_weight(arrs[k], b, patch, rng.choice([1, 2]), True)
            if b2 != b:
                _empty_bin(arrs[k], b2)
    elif pattern == "lonely-counts":
        _lonely_counts(arrs[denom], b, patch)
    else:
        raise KeyError(pattern)
    return {k: jk.pc_plain(p) for k, p in arrs.items()}


def gen_corr_undefined(rng, pattern=None, shape=None, auto=None):
    B, N = shape or (rng.choice([1, 2, 2, 3, 3, 4, 5]), rng.choice([2, 3, 3, 4, 5, 6, 7, 8]))
    pattern = pattern or rng.choice(UNDEF_PATTERNS)
    mode = rng.choice(["dense", "dense", "dyadic"])
    auto = (rng.random() < 0.4) if auto is None else auto
    defined = [s for s in jk.SUBSETS if "dr" in s or ("rr" not in s)]
    spec = jk.corr_plain(jk.gen_binning(rng, B), N, jk.gen_corrfunc(rng, B, N, auto, mode, rng.choice(defined)))
    spec["kinds"] = make_undefined(rng, spec["kinds"], B, N, pattern)
    spec["undefined"] = pattern
    return spec


def gen_nz_undefined(rng):
    """n(z) from a cross-correlation with a lonely bin (and autocorrelations that may have one of their own)"""
    spec = jk.gen_nz_spec(rng)
    B, N = len(spec["cross"]["edges"]) - 1, spec["cross"]["N"]
    which = rng.choice(["cross", "cross", "ref", "unk"])
    if spec[which] is None:
        which = "cross"
    pattern = rng.choice(UNDEF_PATTERNS)
    spec[which]["kinds"] = make_undefined(rng, spec[which]["kinds"], B, N, pattern)
    spec["undefined"] = "%s:%s" % (which, pattern)
    return spec


NONFINITE = ("nan", "nan", "nan", "inf", "-inf")
DIRECT_PATTERNS = ("cell", "cell", "column-cells", "column", "row", "scatter", "inf-mixed", "cell+column")


def gen_direct(rng, pattern=None, cls=None):
    """(binning, data, samples) for a directly built container: small dyadic values with non-finite cells"""
    pattern = pattern or rng.choice(DIRECT_PATTERNS)
    B = rng.choice([1, 2, 3, 3, 4, 5])
    N = rng.choice([2, 3, 4, 4, 5, 6, 8])
    scale = rng.choice([1.0, 8.0, 1024.0])
    vals = [[rng.randrange(-96, 97) / scale for _ in range(B)] for _ in range(N)]
    cells = []
    if pattern == "cell":
        cells = [(rng.randrange(N), rng.randrange(B))]
    elif pattern == "column-cells":                           # several samples of one bin
        b = rng.randrange(B)
        cells = [(k, b) for k in rng.sample(range(N), rng.randrange(1, N))]
    elif pattern == "column":                                 # a bin undefined in all samples
        b = rng.randrange(B)
        cells = [(k, b) for k in range(N)]
    elif pattern == "row":                                    # one sample undefined in all bins
        k = rng.randrange(N)
        cells = [(k, b) for b in range(B)]
    elif pattern == "scatter":                                # different bins in different samples
        cells = [(rng.randrange(N), rng.randrange(B)) for _ in range(rng.randrange(2, 4))]
    elif pattern == "inf-mixed":
        b = rng.randrange(B)
        cells = [(k, b) for k in rng.sample(range(N), min(N, 2))]
    elif pattern == "cell+column":
        b = rng.randrange(B)
        cells = [(k, b) for k in range(N)] + [(rng.randrange(N), (b + 1) % B)]
    out = [[x for x in r] for r in vals]
    for n, (k, b) in enumerate(cells):
        out[k][b] = ("inf", "-inf")[n % 2] if pattern == "inf-mixed" else rng.choice(NONFINITE)
    return dict(cls=cls or rng.choice(["CorrData", "RedshiftData", "HistData"]), edges=jk.gen_binning(rng, B),
                data=[x for x in out[0]], samples=out, pattern=pattern)


def undefined_probe(ctx, b_corr, b_nz, b_cov):
    """deterministic members of the class (independent of VERIF_SEED): every pattern once through CorrFunc.sample(),
    a sparse last bin whose reference objects sit in one of 8 patches through RedshiftData.from_corrfuncs(), and every
    cell pattern once per directly built container class"""
    import random
    prng = random.Random(30303)
    for pattern in dict.fromkeys(UNDEF_PATTERNS):
        case_corr(ctx, b_corr, b_cov, gen_corr_undefined(prng, pattern, shape=(3, 5)))
    cross = gen_corr_undefined(prng, "lonely-weight", shape=(5, 8), auto=False)
    case_nz(ctx, b_nz, b_cov, dict(cross=cross, ref=None, unk=None, undefined="cross:lonely-weight"))
    for n, pattern in enumerate(dict.fromkeys(DIRECT_PATTERNS)):
        case_direct(ctx, b_cov, gen_direct(prng, pattern, ("CorrData", "RedshiftData", "HistData")[n % 3]))


def exhaustive_binary(ctx, batch):
    """all 0/1 count matrices for N <= 3 (one bin) through PatchedCounts and NormalisedCounts"""
    edges = [0.25, 0.5]
    for N in (2, 3):
        w = [[1.0 + i for i in range(N)]]
        for m in range(2 ** (N * N)):
            counts = [[[float((m >> (i * N + j)) & 1) for j in range(N)] for i in range(N)]]
            spec = dict(edges=edges, N=N, mode="all01", pc=dict(auto=bool(m & 1), counts=counts, w1=w, w2=w))
            case_sps(ctx, batch, spec)
            if m % 4 == 0:
                case_nc(ctx, batch, spec)


def f10b_probe(ctx, batch, cov_batch):
    """deterministic probe for the known finding: 3 and 4 patches with pairwise distinct per-patch
    histograms, so that a reversed row order is visible"""
    import random
    for N, B in ((3, 3), (4, 2)):
        edges, rows, obs = jk.gen_hist_catalog(random.Random(1000 + N), N, B, weighted=True, distinct=True)
        case_hist(ctx, batch, cov_batch, dict(edges=edges, rows=rows, obs=obs, weighted=True, probe="F10b"), "f10b_%d" % N)


def large_n_probe(ctx):
    """patch counts around the integer-width boundaries (2^7, sqrt(2^15), 2^8, ...): the index arithmetic
    of the histogram resampling must hold for EVERY number of patches.  Checked in the form
    'sample k = data - row k' (Props/C03: hist_loo_is_data_minus_row ties it to the index model)."""
    import random
    from yaw.redshifts import resample_jackknife
    prng = random.Random(4242)
    terms, metas = [], []
    for N in ((127, 129, 181, 182, 257) if ctx.quick() else (127, 128, 129, 180, 181, 182, 183, 255, 256, 257, 400, 1000)):
        B = 2
        obs = [[float(prng.randrange(0, 9)) for _ in range(B)] for _ in range(N)]
        arr = np.asarray(obs)
        samples = resample_jackknife(arr)
        data = arr.sum(axis=0)
        terms.append("code [list_eqb qlist_eqb (map (zipsub %s) %s) %s]" % (fq.qlist(data), fq.qmat(obs), fq.qmat(samples)))
        metas.append(dict(kind="hist-large-N", N=N, B=B, seed=4242))
        ctx.count(key=("hist-large", N), nontrivial=True, kind="hist/largeN")
    header = ("From Verif Require Import Prelude.\nOpen Scope Q_scope.\n"
              "Fixpoint zipsub (a b : list Q) : list Q := match a, b with x :: xs, y :: ys => (x - y) :: zipsub xs ys | _, _ => [] end.\n")
    codes = ctx.shards("Cases_C03_largeN", header, terms, shard=3)
    for meta, c in zip(metas, codes):
        if c:
            ctx.fail("c03-hist-samples-not-loo", "resample_jackknife with %d patches: sample k is not the histogram without patch k"
                     % meta["N"], meta, case=("largeN", meta["N"]))


def traces(ctx):
    jobs = []
    for N in (2, 3, 4):
        for B in (1, 2):
            jobs.append(("sample_patch_sum N=%d B=%d" % (N, B), lambda N=N, B=B: jk.trace_sps(N, B)))
            for auto in (False, True):
                jobs.append(("PatchedSumWeights N=%d B=%d auto=%s" % (N, B, auto),
                             lambda N=N, B=B, auto=auto: jk.trace_weights(N, B, auto)))
                jobs.append(("NormalisedCounts N=%d B=%d auto=%s" % (N, B, auto),
                             lambda N=N, B=B, auto=auto: jk.trace_nc(N, B, auto)))
    jk.run_traces(ctx, jobs)


# ----------------------------------------------------------------------------- entry points
def run(ctx):
    rng = ctx.rng
    traces(ctx)
    ctx.log("traces done")
    b_raw = jk.Batch(ctx, "Cases_C03_raw", shard=60)
    b_corr = jk.Batch(ctx, "Cases_C03_corr", shard=30)
    b_cov = jk.Batch(ctx, "Cases_C03_cov", shard=12)
    b_nz = jk.Batch(ctx, "Cases_C03_nz", shard=40)
    b_hist = jk.Batch(ctx, "Cases_C03_hist", shard=80)
    f10b_probe(ctx, b_hist, b_cov)
    large_n_probe(ctx)
    undefined_probe(ctx, b_corr, b_nz, b_cov)
    small = not ctx.quick()          # thorough: many cases, mostly small shapes
    for _ in range(ctx.n(50, 900)):
        case_sps(ctx, b_raw, gen_single(rng, "sps", small and rng.random() < 0.7))
    for _ in range(ctx.n(40, 600)):
        case_weights(ctx, b_raw, gen_single(rng, "weights", small and rng.random() < 0.7))
    for _ in range(ctx.n(50, 900)):
        case_nc(ctx, b_raw, gen_single(rng, "nc", small and rng.random() < 0.7))
    for _ in range(ctx.n(100, 1700)):
        case_corr(ctx, b_corr, b_cov, gen_corr(rng, small and rng.random() < 0.7))
    for _ in range(ctx.n(30, 450)):
        case_nz(ctx, b_nz, b_cov, jk.gen_nz_spec(rng, small and rng.random() < 0.7))
    for _ in range(ctx.n(30, 450)):
        case_corr(ctx, b_corr, b_cov, gen_corr_undefined(rng))
    for _ in range(ctx.n(12, 150)):
        case_nz(ctx, b_nz, b_cov, gen_nz_undefined(rng))
    for _ in range(ctx.n(40, 500)):
        case_direct(ctx, b_cov, gen_direct(rng))
    for i in range(ctx.n(40, 450)):
        N = rng.choice([2, 3, 3, 4, 5, 7])
        B = rng.choice([1, 2, 3, 4])
        weighted = rng.random() < 0.7
        edges, rows, obs = jk.gen_hist_catalog(rng, N, B, weighted=weighted)
        case_hist(ctx, b_hist, b_cov, dict(edges=edges, rows=rows, obs=obs, weighted=weighted), "h%d" % i)
    if not ctx.quick():
        exhaustive_binary(ctx, b_raw)
    ctx.log("implementation runs done; evaluating %d cases in Coq" % sum(len(b.items) for b in (b_hist, b_raw, b_corr, b_nz, b_cov)))
    for b in (b_hist, b_raw, b_corr, b_nz, b_cov):
        b.run()
        ctx.log("%s evaluated" % b.name)


def replay(ctx, body):
    r = body.get("replay", body)
    spec, kind = r["spec"], r["kind"]
    b, bc = jk.Batch(ctx, "Replay_C03"), jk.Batch(ctx, "Replay_C03_cov")
    if kind == "sps":
        case_sps(ctx, b, spec)
    elif kind == "weights":
        case_weights(ctx, b, spec)
    elif kind == "nc":
        case_nc(ctx, b, spec)
    elif kind in ("corr", "corr-cov"):
        case_corr(ctx, b, bc, spec)
    elif kind in ("nz", "nz-cov"):
        case_nz(ctx, b, bc, spec)
    elif kind == "direct":
        case_direct(ctx, bc, spec)
    elif kind in ("hist", "hist-cov"):
        from fractions import Fraction
        if spec.get("obs"):
            spec = dict(spec, obs=[[Fraction(x) for x in row] for row in spec["obs"]])
            case_hist(ctx, b, bc, spec, "replay")
    b.run()
    bc.run()
