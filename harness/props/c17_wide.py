"""C17 — selection on containers with MANY patches / bins, by index expressions of every representation.

The documented algebra speaks about the VALUES of the indices.  x.patches[I] is the sub-matrix [I x I] of the pair counts
(and the entries I of the sums of weights) of the ORIGINAL container whatever the number of patches and whatever object
carries the index values: a python int, a numpy integer scalar, a slice (bounds python ints or numpy scalars), a python list
of ints / of numpy scalars, an integer array of any dtype (int8 .. int64, uint8 .. uint64; contiguous, strided, byte-swapped,
read-only), a boolean mask (array or list).  Index arithmetic carried out in the dtype of the caller's array (int16 is the
library's own patch-id dtype) overflows from 12 (int8), 17 (uint8), 182 (int16) patches on; Model/ContainersWide.v states
the selection over unbounded integers, Proofs/ContainersWideP.v refutes the narrow arithmetic.

Families (shape x class x axis x representation x index values):
  shapes   many patches (100 .. 400, thorough .. 2000) with 1-3 bins; 12 .. 99 patches (the range of the 8-bit types);
           many bins (100 .. 400, thorough .. 2000) with 1-3 patches; small
  classes  PatchedCounts, PatchedSumWeights, NormalisedCounts, CorrFunc (both axes), CorrData (bins)
  values   uniform / from the top of the representable range / boundary values of the dtype and of the axis; negative,
           repeated, unsorted, empty, out of range (must be rejected), masks of another length (must be rejected)
Oracles (never a value the library produced for the call under test):
  (a) Coq: the containers are POSITION-CODED by construction (counts[b][i][j] = off + (b P + i) P + j, C17_wide_code_injective:
      equal entries only at equal positions), so c17_wide_case evaluates the model's selection on the FUNCTION of the position
      and compares every leaf (counts, sum_weights of every member; binning, auto) of a small result with it;
  (b) plain numpy fancy indexing of the raw construction arrays with positions resolved by this module into int64 (every
      case, also large selections and randomly valued containers);
  (c) laws: (x + y).sel = x.sel + y.sel = reference selection of the raw sums; jackknife sample m of x.patches[I] = the
      statistic of x.patches[I without its m-th entry] (leave-one-more-out, C17_slice_commutes_sample_patches*).
  A verdict of (a) that differs from the verdict of (b) is a broken correspondence.
Also: no selection changes the container or the caller's index object.

Signatures: c17-<class>-<axis>-wrong-selection:<form>, ...-counts-and-weights-select-different-patches:<form>,
...-selection-raises:<form>, ...-not-rejected:<form>, ...-rejects-with-<exception>:<form>, ...-malformed-selection:<form>,
...-selection-of-sum-differs:<form>, ...-selection-sample-differs:<form>, ...-selection-mutates-container:<form>,
...-selection-mutates-index:<form>   (<form> = int, numpy-scalar, 0d-array, slice, list, list-of-numpy-scalars,
<dtype>-array, bool-mask, bool-list).
"""
import copy
import json

import numpy as np

from lib import floatq as fq
from lib import impl  # noqa: F401

from yaw.binning import Binning
from yaw.correlation.corrdata import CorrData
from yaw.correlation.corrfunc import CorrFunc
from yaw.correlation.paircounts import NormalisedCounts, PatchedCounts, PatchedSumWeights

from props import c17 as base

HEADER = "From Verif Require Import Prelude Containers ContainersWide.\nOpen Scope Q_scope.\n"
SHARD = "Cases_C17_wide"
INT_DTYPES = ("int8", "int16", "int32", "int64", "uint8", "uint16", "uint32", "uint64")
REJECT = base.REJECT
CLS = base.CLS
MEMBER_NO = {"dd": 0, "dr": 1, "rd": 2, "rr": 3}
OFF_STEP = 2 ** 26          # > 3 * 2000 * 2000 entries of one member
COQ_ENTRIES = 1600          # a result leaf with more entries is judged by the numpy reference only


# ----------------------------------------------------------------------------------------
# raw construction arrays (the reference never reads them back from the container)
# ----------------------------------------------------------------------------------------
def dtype_range(dt):
    info = np.iinfo(np.dtype(dt))
    return int(info.min), int(info.max)


def raw_leaf_arrays(case, mi):
    """raw arrays of member number mi: dict(counts (nb, P, P), sw1, sw2 (nb, P)) as float64"""
    nb, P = case["nb"], case["P"]
    if case["values"] == "coded":
        off = mi * OFF_STEP
        return dict(counts=off + np.arange(nb * P * P, dtype=np.float64).reshape(nb, P, P),
                    sw1=(1 + off) + np.arange(nb * P, dtype=np.float64).reshape(nb, P),
                    sw2=(OFF_STEP // 2 + off) + np.arange(nb * P, dtype=np.float64).reshape(nb, P))
    rs = np.random.RandomState((case["vseed"] * 7 + mi) % (2 ** 32))
    return dict(counts=rs.randint(0, 64, size=(nb, P, P)) / 8.0,
                sw1=rs.randint(1, 17, size=(nb, P)) / 4.0,
                sw2=rs.randint(1, 17, size=(nb, P)) / 4.0)


def raw_sd_arrays(case):
    nb, M = case["nb"], case["P"]
    if case["values"] == "coded":
        return dict(data=np.arange(nb, dtype=np.float64), samples=(OFF_STEP // 2) + np.arange(M * nb, dtype=np.float64).reshape(M, nb))
    rs = np.random.RandomState(case["vseed"] % (2 ** 32))
    return dict(data=rs.randint(-64, 65, size=nb) / 8.0, samples=rs.randint(-64, 65, size=(M, nb)) / 8.0)


def leaf_names(case):
    """[(name, kind 'pc'/'sw'/'sd', member number)] of the leaves of the container of a case"""
    t = case["t"]
    if t == "pc":
        return [("counts", "pc", 0)]
    if t == "sw":
        return [("sum_weights", "sw", 0)]
    if t == "nc":
        return [("counts", "pc", 0), ("sum_weights", "sw", 0)]
    if t == "cf":
        out = []
        for m in ["dd"] + list(case["members"]):
            out += [(m + ".counts", "pc", MEMBER_NO[m]), (m + ".sum_weights", "sw", MEMBER_NO[m])]
        return out
    return [("data", "sd", 0)]


def raw_of(case, second=False):
    """{leaf name: dict of raw arrays}.  second: the other summand of the sum law (other counts, same sums of weights)"""
    out = {}
    for name, kind, mi in leaf_names(case):
        if kind == "sd":
            out[name] = raw_sd_arrays(case)
            continue
        a = raw_leaf_arrays(case, mi)
        if kind == "pc":
            c = a["counts"]
            out[name] = dict(counts=(np.flip(c, axis=2) * 2.0 + 3.0) if second else c)
        else:
            out[name] = dict(sw1=a["sw1"], sw2=a["sw2"])
    return out


def build(case, raw):
    b = Binning(np.array(case["edges"], dtype=np.float64), closed=case["closed"])
    t, auto = case["t"], case["auto"]

    def pc(name):
        return PatchedCounts(b, raw[name]["counts"].copy(), auto=auto)

    def sw(name):
        return PatchedSumWeights(b, raw[name]["sw1"].copy(), raw[name]["sw2"].copy(), auto=auto)
    if t == "pc":
        return pc("counts")
    if t == "sw":
        return sw("sum_weights")
    if t == "nc":
        return NormalisedCounts(pc("counts"), sw("sum_weights"))
    if t == "cf":
        mem = {m: NormalisedCounts(pc(m + ".counts"), sw(m + ".sum_weights")) for m in ["dd"] + list(case["members"])}
        return CorrFunc(mem["dd"], dr=mem.get("dr"), rd=mem.get("rd"), rr=mem.get("rr"))
    return CorrData(b, raw["data"]["data"].copy(), raw["data"]["samples"].copy())


def get_leaf(obj, name):
    """the leaf object `name` of a container (None: that member is absent)"""
    for part in name.split("."):
        if part in ("data",):
            return obj
        if part == "counts" and isinstance(obj, PatchedCounts):
            return obj
        if part == "sum_weights" and isinstance(obj, PatchedSumWeights):
            return obj
        obj = getattr(obj, part, None)
        if obj is None:
            return None
    return obj


def leaf_arrays(leaf, kind):
    if kind == "pc":
        return dict(counts=np.asarray(leaf.counts))
    if kind == "sw":
        return dict(sw1=np.asarray(leaf.sum_weights1), sw2=np.asarray(leaf.sum_weights2))
    return dict(data=np.asarray(leaf.data), samples=np.asarray(leaf.samples))


# ----------------------------------------------------------------------------------------
# index expressions: description -> python object / model term / reference positions
# ----------------------------------------------------------------------------------------
def form_of(ix):
    k = ix["kind"]
    if k == "array":
        return ix["dtype"] + "-array"
    return {"int": "int", "npscalar": "numpy-scalar", "0d": "0d-array", "slice": "slice", "list": "list",
            "list-np": "list-of-numpy-scalars", "mask": "bool-list" if ix.get("aslist") else "bool-mask"}[k]


def strict_form(ix):
    """numpy integer scalars and 0-dimensional arrays are outside the documented index types (int, slice, list of
    indices): rejecting them with an error is accepted, a returned container must still be the right selection"""
    return ix["kind"] not in ("npscalar", "0d")


def mk_index(ix):
    k = ix["kind"]
    if k == "int":
        return int(ix["v"])
    if k == "npscalar":
        return np.dtype(ix["dtype"]).type(ix["v"])
    if k == "0d":
        return np.array(ix["v"], dtype=ix["dtype"])
    if k == "slice":
        T = np.dtype(ix["npbounds"]).type if ix.get("npbounds") else int
        return slice(*[None if v is None else T(v) for v in (ix["start"], ix["stop"], ix["step"])])
    if k == "list":
        return [int(v) for v in ix["v"]]
    if k == "list-np":
        T = np.dtype(ix["dtype"]).type
        return [T(v) for v in ix["v"]]
    if k == "array":
        a = np.array([int(v) for v in ix["v"]], dtype=ix["dtype"])
        lay = ix.get("layout", "c")
        if lay == "strided":
            big = np.zeros(2 * len(a) + 1, dtype=a.dtype)
            big[::2][:len(a)] = a
            a = big[::2][:len(a)]
        elif lay == "swapped":
            a = a.astype(a.dtype.newbyteorder())
        elif lay == "readonly":
            a.setflags(write=False)
        return a
    if k == "mask":
        m = np.zeros(ix["n"], dtype=bool)
        if ix["true"]:
            m[np.array(ix["true"], dtype=np.int64)] = True
        if ix.get("aslist"):
            return [bool(v) for v in m]
        if ix.get("layout") == "readonly":
            m.setflags(write=False)
        return m
    raise ValueError(k)


def snapshot(obj):
    if isinstance(obj, np.ndarray):
        return ("array", str(obj.dtype), obj.tolist())
    if isinstance(obj, list):
        return ("list", [(type(v).__name__, int(v)) for v in obj])
    if isinstance(obj, slice):
        return ("slice", repr(obj))
    return ("scalar", type(obj).__name__, int(obj))


def enc_wsel(ix):
    k = ix["kind"]
    if k in ("int", "npscalar", "0d"):
        return "(WSel (SInt %s))" % fq.z(ix["v"])
    if k == "slice":
        return "(WSel (SSlice %s %s %s))" % (fq.opt(ix["start"], fq.z), fq.opt(ix["stop"], fq.z),
                                             fq.nat(1 if ix["step"] is None else ix["step"]))
    if k in ("list", "list-np", "array"):
        return "(WSel (SList %s))" % fq.zlist(ix["v"])
    true = set(ix["true"])
    return "(WMask %s)" % fq.lst([fq.b(i in true) for i in range(ix["n"])])


def positions(n, ix):
    """positions an index expression selects on an axis of length n, as python ints; None = it must be rejected.
    Resolved here with python integers (no numpy arithmetic)."""
    k = ix["kind"]

    def norm(v):
        v = int(v)
        if v < 0:
            v += n
        return v if 0 <= v < n else None
    if k in ("int", "npscalar", "0d"):
        p = norm(ix["v"])
        return None if p is None else [p]
    if k == "slice":
        return list(range(*slice(ix["start"], ix["stop"], ix["step"]).indices(n)))
    if k in ("list", "list-np", "array"):
        out = [norm(v) for v in ix["v"]]
        return None if any(p is None for p in out) else out
    if ix["n"] != n:
        return None
    return sorted(set(int(v) for v in ix["true"]))


def expected(case, raw, ix):
    """-> None (the selection must be rejected) or dict(edges, leaves {name: arrays}, pos)"""
    axis, t = case["axis"], case["t"]
    n = case["P"] if axis == "patches" else case["nb"]
    pos = positions(n, ix)
    if pos is None:
        return None
    if t == "sd" and ix["kind"] not in ("int", "npscalar", "0d", "slice"):
        return None                              # SampledData: only int / slice selectors
    edges = list(case["edges"])
    if axis == "bins":
        if not pos:
            return None
        edges = [edges[p] for p in pos] + [edges[pos[-1] + 1]]
        if any(not (a < b) for a, b in zip(edges, edges[1:])):
            return None
    p = np.array(pos, dtype=np.int64)
    leaves = {}
    for name, kind, _ in leaf_names(case):
        r = raw[name]
        if kind == "pc":
            leaves[name] = dict(counts=r["counts"][:, p[:, None], p[None, :]] if axis == "patches" else r["counts"][p])
        elif kind == "sw":
            leaves[name] = {w: (r[w][:, p] if axis == "patches" else r[w][p]) for w in ("sw1", "sw2")}
        else:
            leaves[name] = dict(data=r["data"][p], samples=r["samples"][:, p])
    return dict(edges=edges, leaves=leaves, pos=pos)


# ----------------------------------------------------------------------------------------
# comparison of a returned container with the reference
# ----------------------------------------------------------------------------------------
NDIM = dict(counts=3, sw1=2, sw2=2, data=1, samples=2)


def same_array(a, b):
    a, b = np.asarray(a), np.asarray(b)
    return a.shape == b.shape and bool(np.array_equal(a, b))


def first_diff(a, b):
    a, b = np.asarray(a), np.asarray(b)
    if a.shape != b.shape:
        return "shape %s instead of %s" % (a.shape, b.shape)
    w = np.argwhere(a != b)
    if not len(w):
        return "equal"
    i = tuple(int(v) for v in w[0])
    return "%d of %d entries differ, first at %s: %r instead of %r" % (len(w), a.size, i, float(a[i]), float(b[i]))


def compare(case, res, exp):
    """-> list of (leaf name, kind, what differs)"""
    bad = []
    for name, kind, _ in leaf_names(case):
        leaf = get_leaf(res, name)
        if leaf is None:
            bad.append((name, kind, "member missing in the result"))
            continue
        got = leaf_arrays(leaf, kind)
        malformed = [k for k, a in got.items() if a.ndim != NDIM[k]]
        if malformed:
            bad.append((name, "malformed", "%s has %d dimensions (shape %s) instead of %d"
                        % (malformed[0], got[malformed[0]].ndim, got[malformed[0]].shape, NDIM[malformed[0]])))
            continue
        for key, want in exp["leaves"][name].items():
            if not same_array(got[key], want):
                bad.append((name, kind, "%s: %s" % (key, first_diff(got[key], want))))
        lb = leaf.binning
        if [float(e) for e in lb.edges] != [float(e) for e in exp["edges"]] or str(lb.closed) != case["closed"]:
            bad.append((name, "binning", "binning %s / %s instead of %s / %s" % (list(lb.edges)[:6], lb.closed, exp["edges"][:6], case["closed"])))
        if kind != "sd" and bool(leaf.auto) != case["auto"]:
            bad.append((name, "auto", "auto flag changed"))
    if case["t"] == "cf":
        present = sorted(m for m in ("dr", "rd", "rr") if getattr(res, m, None) is not None)
        if present != sorted(case["members"]):
            bad.append(("members", "members", "members %s instead of %s" % (present, sorted(case["members"]))))
    return bad


def wrong_stem(case, bad):
    """'wrong-selection', or for NormalisedCounts / CorrFunc 'counts-and-weights-select-different-patches' when exactly one of
    (counts, sum_weights) of a member is the right selection"""
    member = lambda n: n.rsplit(".", 1)[0] if "." in n else ""  # noqa: E731
    kinds = {k for _, k, _ in bad}
    if "malformed" in kinds:
        return "malformed-selection"
    if case["t"] in ("nc", "cf") and kinds and kinds <= {"pc", "sw"}:
        for m in {member(n) for n, _, _ in bad}:
            if len({k for n, k, _ in bad if member(n) == m}) == 1:
                return "counts-and-weights-select-different-patches"
    return "wrong-selection"


def close(a, b, exact):
    a, b = np.asarray(a, dtype=float), np.asarray(b, dtype=float)
    if a.shape != b.shape:
        return False
    ok = np.isfinite(a) & np.isfinite(b)
    if exact:
        return bool(np.all(a[ok] == b[ok]))
    return bool(np.all(np.abs(a[ok] - b[ok]) <= 2.0 ** -40 * (1.0 + np.abs(b[ok]))))


# ----------------------------------------------------------------------------------------
# Coq terms
# ----------------------------------------------------------------------------------------
def enc_coded(case, kind, mi):
    off = mi * OFF_STEP
    if kind == "pc":
        o1, o2 = off, 0
    elif kind == "sw":
        o1, o2 = 1 + off, OFF_STEP // 2 + off
    else:
        o1, o2 = 0, OFF_STEP // 2
    b = "{| edges := %s; closed_right := %s |}" % (fq.lst(case["edges"], fq.q), fq.b(case["closed"] == "right"))
    return "{| w_bin := %s; w_auto := %s; w_nb := %s; w_np := %s; w_off := %s; w_off2 := %s |}" % (
        b, fq.b(case["auto"]), fq.nat(case["nb"]), fq.nat(case["P"]), fq.z(o1), fq.z(o2))


def enc_leaf(leaf, kind):
    if kind == "pc":
        return "(WPC %s)" % base.enc_pc(leaf)
    if kind == "sw":
        return "(WSW %s)" % base.enc_sw(leaf)
    return "(WSD %s)" % base.enc_sd(leaf)


def leaf_entries(leaf, kind):
    a = leaf_arrays(leaf, kind)
    return sum(int(v.size) for v in a.values())


def coq_terms(case, ix, res, raised, exp):
    """[(leaf name, term)] or [] when the case is judged by the numpy reference only"""
    if case["values"] != "coded":
        return []
    if exp is not None:
        # vm_compute is strict: the model's selection is built even when the implementation raised
        k = len(exp["pos"])
        size = case["nb"] * k * k if case["axis"] == "patches" else k * (case["P"] ** 2 if case["t"] != "sd" else case["P"])
        if size > COQ_ENTRIES:
            return []
    strict = fq.b(strict_form(ix))
    ax = "WPatches" if case["axis"] == "patches" else "WBins"
    sel = enc_wsel(ix)
    L = {"pc": "LPC", "sw": "LSW", "sd": "LSD"}
    out = []
    names = leaf_names(case)
    if raised:
        name, kind, mi = names[0]
        return [(name, "c17_wide_case %s %s %s %s %s WErr" % (strict, L[kind], enc_coded(case, kind, mi), ax, sel))]
    for name, kind, mi in names:
        leaf = get_leaf(res, name)
        if leaf is None or leaf_entries(leaf, kind) > COQ_ENTRIES:
            return []
        if any(a.ndim != NDIM[k] for k, a in leaf_arrays(leaf, kind).items()):
            return []           # not a container the model's records can hold: judged by the reference (malformed-selection)
        try:
            term = enc_leaf(leaf, kind)
        except base.NonFinite:
            return []
        out.append((name, "c17_wide_case %s %s %s %s %s %s" % (strict, L[kind], enc_coded(case, kind, mi), ax, sel, term)))
    return out


# ----------------------------------------------------------------------------------------
# one case on the real objects
# ----------------------------------------------------------------------------------------
def select(x, axis, obj):
    return (x.patches if axis == "patches" else x.bins)[obj]


def unchanged(case, x, raw):
    for name, kind, _ in leaf_names(case):
        leaf = get_leaf(x, name)
        got = leaf_arrays(leaf, kind)
        for key, want in raw[name].items():
            if not same_array(got[key], want):
                return "%s.%s: %s" % (name, key, first_diff(got[key], want))
        if [float(e) for e in leaf.binning.edges] != [float(e) for e in case["edges"]]:
            return "%s: binning changed" % name
    return None


def evaluate(case):
    """-> dict(verdicts [(signature stem, text)], raised, terms, form, info): verdicts of the numpy reference and of the laws;
    stems are completed to c17-<class>-<axis>-<stem>:<form>"""
    ix, axis, t = case["index"], case["axis"], case["t"]
    form = form_of(ix)
    raw = raw_of(case)
    x = build(case, raw)
    exp = expected(case, raw, ix)
    obj = mk_index(ix)
    before = snapshot(obj)
    out = dict(form=form, verdicts=[], raised=None, terms=[], expect="rejected" if exp is None else "selection of %d" % len(exp["pos"]))
    res = None
    try:
        res = select(x, axis, obj)
    except Exception as e:          # noqa: BLE001
        out["raised"] = dict(type=type(e).__name__, msg=str(e)[:200], site=base.failing_site(e), rejecting=isinstance(e, REJECT))
    raised = out["raised"]
    strict = strict_form(ix)
    V = out["verdicts"]
    if raised is not None:
        if exp is None:
            if not raised["rejecting"]:
                V.append(("rejects-with-" + raised["type"].lower(),
                          "an index expression that must be rejected raised %s (not ValueError / TypeError / IndexError) at %s: %s"
                          % (raised["type"], raised["site"], raised["msg"])))
        elif strict or not raised["rejecting"]:
            V.append(("selection-raises", "a valid selection (%d positions) raised %s at %s: %s"
                      % (len(exp["pos"]), raised["type"], raised["site"], raised["msg"])))
    elif exp is None:
        V.append(("not-rejected", "an index expression that must be rejected (out of range / mask of another length / no valid "
                  "binning / not an index type of this class) returned a %s" % type(res).__name__))
    else:
        if type(res) is not type(x):
            V.append(("wrong-selection", "the selection is a %s, not a %s" % (type(res).__name__, type(x).__name__)))
        else:
            bad = compare(case, res, exp)
            if bad:
                V.append((wrong_stem(case, bad), "the selected container is not the sub-catalogue of the positions %s%s: %s"
                          % (exp["pos"][:8], "..." if len(exp["pos"]) > 8 else "",
                             "; ".join("%s %s" % (n, w) for n, _, w in bad[:4]))))
    # the laws (valid selections that returned)
    if res is not None and exp is not None and not V:
        V.extend(laws(case, x, raw, exp, obj, res))
    # nothing changes the operands
    why = unchanged(case, x, raw)
    if why:
        V.append(("selection-mutates-container", "selecting changed the container it was applied to (%s)" % why))
    if snapshot(obj) != before:
        V.append(("selection-mutates-index", "selecting changed the caller's index object: %s -> %s" % (str(before)[:120], str(snapshot(obj))[:120])))
    out["terms"] = coq_terms(case, ix, res, raised is not None, exp)
    out["restype"] = type(res).__name__
    return out


def laws(case, x, raw, exp, obj, res):
    V = []
    t, axis = case["t"], case["axis"]
    pos = exp["pos"]
    # selection commutes with the sum
    if t in ("pc", "nc", "cf") and case.get("sumlaw"):
        raw2 = raw_of(case, second=True)
        y = build(case, raw2)
        try:
            lhs = select(x + y, axis, mk_index(case["index"]))
            rhs = res + select(y, axis, mk_index(case["index"]))
            rsum = {n: ({k: raw[n][k] + raw2[n][k] for k in raw[n]} if kd == "pc" else raw[n]) for n, kd, _ in leaf_names(case)}
            esum = expected(case, rsum, case["index"])
            for side, val in (("(x + y).%s[i]" % axis, lhs), ("x.%s[i] + y.%s[i]" % (axis, axis), rhs)):
                bad = compare(case, val, esum)
                if bad:
                    V.append(("selection-of-sum-differs", "%s is not the selection of the summed raw counts: %s"
                              % (side, "; ".join("%s %s" % (n, w) for n, _, w in bad[:3]))))
                    break
        except Exception as e:      # noqa: BLE001
            V.append(("selection-of-sum-differs", "sum law: %s: %s" % (type(e).__name__, str(e)[:160])))
    # jackknife sample m of x.patches[I] = statistic of x.patches[I without its m-th entry]
    if axis == "patches" and t in ("pc", "sw", "nc", "cf") and 2 <= len(pos) <= case.get("loo", 0):
        try:
            s = base.do_sample(res)
        except Exception:           # noqa: BLE001  (no estimator for these members: not this law)
            s = None
        if s is not None:
            exact = t == "pc"       # sums of products of two weights may round
            smp = np.asarray(s.samples)
            if smp.shape != (len(pos), case["nb"]):
                V.append(("selection-sample-differs", "samples of the selection have shape %s, expected %s" % (smp.shape, (len(pos), case["nb"]))))
            else:
                for m in range(len(pos)):
                    sub = x.patches[[p for k, p in enumerate(pos) if k != m]]
                    d = np.asarray(base.do_sample(sub).data)
                    if not close(smp[m], d, exact):
                        V.append(("selection-sample-differs", "jackknife sample %d of the selection %s is %s, the statistic without that patch is %s"
                                  % (m, pos[:8], smp[m][:3].tolist(), d[:3].tolist())))
                        break
    # the sampled selection along the bin axis is the selection of the sample
    if axis == "bins" and t in ("pc", "sw") and case.get("loo", 0):
        s, full = base.do_sample(res), base.do_sample(x)
        p = np.array(pos, dtype=np.int64)
        exact = t == "pc"       # sums of pair counts stay below 2^53; sums of products of two coded weights do not
        if not (close(s.data, np.asarray(full.data)[p], exact) and close(s.samples, np.asarray(full.samples)[:, p], exact)):
            V.append(("selection-sample-differs", "the sample of the bin selection is not the bin selection of the sample"))
    return V


# ----------------------------------------------------------------------------------------
# generators
# ----------------------------------------------------------------------------------------
def g_shape(rng, ctx, t, shape=None):
    big = ctx.n(400, 2000)
    shape = shape or rng.choice(["many-patches"] * 5 + ["mid-patches"] * 2 + ["many-bins"] * 2 + ["small"])
    if shape == "many-patches":
        P = rng.randrange(100, 401)
        if not ctx.quick() and rng.random() < 0.12:
            P = rng.randrange(401, big + 1)
        nb = rng.choice([1, 2, 2, 3]) if P <= 1000 else 1
    elif shape == "mid-patches":
        P, nb = rng.randrange(12, 100), rng.choice([1, 2, 3])
    elif shape == "many-bins":
        nb = rng.randrange(100, 401)
        if not ctx.quick() and rng.random() < 0.12:
            nb = rng.randrange(401, big + 1)
        P = rng.choice([1, 2, 2, 3])
    else:
        P, nb = rng.randrange(2, 12), rng.choice([1, 2, 3, 4])
    if t == "sd" and shape in ("many-patches", "mid-patches"):
        P = rng.choice([1, 2, 3, 4])         # CorrData: the second axis are samples, the bins are what is indexed
        nb = rng.randrange(100, 401) if shape == "many-patches" else rng.randrange(12, 100)
    return shape, nb, P


def pick_values(rng, n, lo, hi, k, style, increasing):
    """k index values in [lo, hi] (the part of [-n, n - 1] the representation can hold)"""
    if hi < lo:
        return []
    top = max(lo, hi - max(1, (hi - lo) // 8))
    marks = [v for v in (0, 1, n - 1, n - 2, -1, -n, 127, 128, 255, 256, 32767 // max(n, 1), 32767 // max(n, 1) + 1,
                         127 // max(n, 1) + 1, 255 // max(n, 1) + 1, hi, lo, n // 2) if lo <= v <= hi]

    def one():
        if style == "high":
            return rng.randrange(top, hi + 1)
        if style == "marks" and rng.random() < 0.7:
            return rng.choice(marks)
        if style == "negative" and lo < 0:
            return rng.randrange(lo, 0)
        return rng.randrange(lo, hi + 1)
    vals = [one() for _ in range(k)]
    if increasing:
        vals = sorted(set(v % n for v in vals))
        vals = [v for v in vals if lo <= v <= hi]
    elif style == "repeat" and vals:
        vals = vals + [rng.choice(vals) for _ in range(rng.randrange(1, 3))]
        rng.shuffle(vals)
    return vals


def g_index(rng, case, kind=None, dtype=None, style=None, small=True):
    axis, t = case["axis"], case["t"]
    n = case["P"] if axis == "patches" else case["nb"]
    other = case["nb"] if axis == "patches" else case["P"] * case["P"]
    if axis == "patches":
        kmax = max(1, min(12, int((COQ_ENTRIES / max(1, case["nb"])) ** 0.5)))
    else:
        kmax = max(1, min(12, COQ_ENTRIES // max(1, other)))
    kind = kind or rng.choice(["array"] * 8 + ["list", "list-np", "mask", "mask", "slice", "slice", "int", "npscalar", "npscalar", "0d"])
    dtype = dtype or rng.choice(INT_DTYPES)
    style = style or rng.choice(["uniform", "uniform", "high", "high", "marks", "negative", "repeat"])
    dmin, dmax = dtype_range(dtype) if kind in ("array", "list-np", "npscalar", "0d") else (-10 ** 9, 10 ** 9)
    lo, hi = max(-n, dmin), min(n - 1, dmax)
    increasing = axis == "bins" and rng.random() < 0.8
    if kind in ("int", "npscalar", "0d"):
        r = rng.random()
        if r < 0.12:
            cand = [v for v in (n, -n - 1) if dmin <= v <= dmax]
            v = rng.choice(cand) if cand else hi
        else:
            v = (pick_values(rng, n, lo, hi, 1, style, False) or [0])[0]
        ix = dict(kind=kind, v=v)
        if kind != "int":
            ix["dtype"] = dtype
        return ix
    if kind == "slice":
        r = rng.random()
        if r < 0.6:        # a short window somewhere on the axis, often at the far end
            width = rng.randrange(0, kmax + 1)
            a = rng.randrange(max(0, n - 3 * kmax), n + 1) if rng.random() < 0.5 else rng.randrange(0, n + 1)
            step = rng.choice([None, 1, 1, 2, 3])
            b = a + width * (step or 1)
            if rng.random() < 0.4:
                a, b = a - n, (b - n if b < n else None)
            ix = dict(kind="slice", start=a, stop=b, step=step)
        else:
            pick = lambda: rng.choice([None, None] + [rng.randrange(-n - 2, n + 3) for _ in range(4)])  # noqa: E731
            ix = dict(kind="slice", start=pick(), stop=pick(), step=rng.choice([None, 1, 2, 3, 7, max(1, n // 3), n, n + 1]))
        if rng.random() < 0.3:
            ix["npbounds"] = rng.choice(["int16", "int32", "int64"])
            r16 = dtype_range(ix["npbounds"])
            if any(v is not None and not (r16[0] <= v <= r16[1]) for v in (ix["start"], ix["stop"], ix["step"])):
                ix["npbounds"] = "int64"
        return ix
    if kind == "mask":
        r = rng.random()
        length = n
        if r < 0.1:
            length = rng.choice([n - 1, n + 1])
        if (0.1 <= r < 0.16) or length <= 0:
            true = []
        elif small or rng.random() < 0.6:
            true = sorted(set(pick_values(rng, length, 0, length - 1, rng.randrange(1, kmax + 1), style if style != "negative" else "uniform", False)))
        else:
            true = sorted(rng.sample(range(length), rng.randrange(1, length + 1)))
        ix = dict(kind="mask", n=length, true=true)
        if rng.random() < 0.3:
            ix["aslist"] = True
        elif rng.random() < 0.2:
            ix["layout"] = "readonly"
        return ix
    # list / list-np / array
    r = rng.random()
    if r < 0.05:
        vals = []
    else:
        k = rng.randrange(1, kmax + 1) if (small or rng.random() < 0.5) else rng.randrange(kmax + 1, max(kmax, min(2 * n, 300)) + 2)
        vals = pick_values(rng, n, lo, hi, k, style, increasing)
    if 0.05 <= r < 0.13:          # one value off the axis (if the representation can hold it)
        cand = [v for v in (n, -n - 1, n + rng.randrange(0, 50)) if dmin <= v <= dmax]
        if cand:
            vals.insert(rng.randrange(len(vals) + 1), rng.choice(cand))
    ix = dict(kind=kind, v=vals)
    if kind != "list":
        ix["dtype"] = dtype
    if kind == "array":
        ix["layout"] = rng.choice(["c", "c", "c", "strided", "swapped", "readonly"])
    return ix


def g_case(rng, ctx, t=None, axis=None, shape=None, values=None, **ixkw):
    t = t or rng.choice(["pc", "pc", "sw", "nc", "nc", "cf", "cf", "sd"])
    shape, nb, P = g_shape(rng, ctx, t, shape)
    if t == "sd":
        axis = "bins"
    axis = axis or ("bins" if shape == "many-bins" and rng.random() < 0.8 else rng.choice(["patches", "patches", "patches", "bins"]))
    b = base.g_bin(rng, nb)
    values = values or rng.choice(["coded", "coded", "random"])
    if axis == "bins" and P * P > COQ_ENTRIES and rng.random() < 0.5:
        values = "random"           # a selected bin is too large for Coq anyway
    case = dict(wide=True, t=t, shape=shape, nb=nb, P=P, auto=rng.random() < 0.4, edges=b["edges"], closed=b["closed"],
                axis=axis, values=values, vseed=rng.randrange(2 ** 31))
    if t == "cf":
        case["members"] = list(rng.choice(base.MEMBERS[:5] if rng.random() < 0.9 else base.MEMBERS))
        if P > 1000:
            case["members"] = case["members"][:1]
    small = rng.random() < 0.75
    case["index"] = g_index(rng, case, small=small, **ixkw)
    case["sumlaw"] = rng.random() < (0.35 if P <= 1000 else 0.1)
    case["loo"] = rng.choice([0, 0, 4, 6])
    return case


def mk_grid(rng, ctx):
    """one case per (class, axis, representation / dtype) at many patches resp. many bins, index values from the top of
    what the representation can hold (deterministic structure, contents from the seed)"""
    out = []
    for t in ("pc", "sw", "nc", "cf"):
        for dt in INT_DTYPES:
            for shape in ("many-patches", "mid-patches"):
                out.append(g_case(rng, ctx, t=t, axis="patches", shape=shape, values="coded", kind="array", dtype=dt, style="high"))
        for kind in ("list", "list-np", "mask", "slice", "int", "npscalar", "0d"):
            out.append(g_case(rng, ctx, t=t, axis="patches", shape="many-patches", values="coded", kind=kind,
                              dtype=rng.choice(INT_DTYPES), style="high"))
    for t in ("pc", "sw", "nc", "cf", "sd"):
        for dt in INT_DTYPES:
            out.append(g_case(rng, ctx, t=t, axis="bins", shape="many-bins", values="coded", kind="array", dtype=dt, style="high"))
        for kind in ("list", "mask", "slice", "int", "npscalar"):
            out.append(g_case(rng, ctx, t=t, axis="bins", shape="many-bins", values="coded", kind=kind,
                              dtype=rng.choice(INT_DTYPES), style="high"))
    return out


# ----------------------------------------------------------------------------------------
# driver
# ----------------------------------------------------------------------------------------
def canon(case):
    return json.dumps(case, sort_keys=True, default=str)


CODE_STEM = {4: "not-rejected", 1: None, 2: "malformed-selection"}


def category(stem):
    """verdict classes compared between the two oracles"""
    if stem is None:
        return "fine"
    if stem in ("wrong-selection", "counts-and-weights-select-different-patches", "selection-raises", "malformed-selection"):
        return "wrong"
    if stem == "not-rejected":
        return "not-rejected"
    return "other"


def run_cases(ctx, cases):
    evs, terms, owners = [], [], []
    for i, case in enumerate(cases):
        ev = evaluate(case)
        evs.append(ev)
        ix = case["index"]
        n = case["P"] if case["axis"] == "patches" else case["nb"]
        ctx.count(key=canon(case), nontrivial=n >= 12, kind="wide/%s/%s" % (case["t"], case["axis"]))
        ctx.bump("wide-form:" + ev["form"])
        ctx.bump("wide-shape:" + case["shape"])
        ctx.bump("wide-oracle:" + ("coq+numpy" if ev["terms"] else "numpy"))
        ctx.bump("wide-impl:" + ("returned" if ev["raised"] is None else "raised:" + ev["raised"]["type"]))
        if not strict_form(ix) and ev["raised"] is not None and ev["raised"]["rejecting"]:
            ctx.bump("wide-numpy-scalar-rejected")
        if i % 101 == 0:
            ctx.sample(dict(wide=dict(t=case["t"], nb=case["nb"], P=case["P"], axis=case["axis"], index=ix), expect=ev["expect"],
                            impl=ev["restype"] if ev["raised"] is None else "raised " + ev["raised"]["type"]), limit=6)
        for name, term in ev["terms"]:
            terms.append(term)
            owners.append((i, name))
    codes = ctx.shards(SHARD, HEADER, terms, shard=40) if terms else []
    coq = {}
    for (i, name), c in zip(owners, codes):
        if c is None:
            continue
        coq.setdefault(i, []).append((name, c))
    for i, (case, ev) in enumerate(zip(cases, evs)):
        cls, axis, form = CLS[case["t"]].lower(), case["axis"], ev["form"]
        replay = dict(wide=True, case=case, raised=ev["raised"], expect=ev["expect"])
        pre = "%s with %d bins, %d %s, .%s[%s %s]: " % (CLS[case["t"]], case["nb"], case["P"], "samples" if case["t"] == "sd" else "patches",
                                                      axis, form, str({k: v for k, v in case["index"].items() if k != "kind"})[:160])
        for stem, text in ev["verdicts"]:
            ctx.fail("c17-%s-%s-%s:%s" % (cls, axis, stem, form), pre + text, replay, case=("wide", i))
        if i not in coq:
            continue
        # verdict of the Coq model on the same call
        worst, which = None, None
        for name, c in coq[i]:
            if c == 0:
                continue
            stem = "not-rejected" if c & 4 else (("selection-raises" if ev["raised"] is not None else "wrong-selection") if c & 1
                                                 else "malformed-selection")
            if worst is None:
                worst, which = stem, (name, c)
        py = next((s for s, _ in ev["verdicts"] if category(s) != "other"), None)
        if worst is not None and not ev["verdicts"]:
            ctx.fail("c17-%s-%s-%s:%s" % (cls, axis, worst, form),
                     pre + "the result differs from the model's selection on the position-coded container (leaf %s, code %d)" % which,
                     dict(replay, code=which[1], leaf=which[0]), case=("wide", i))
        if category(worst) != category(py):
            # the two oracles must agree on every case both of them judge
            ctx.disagree(SHARD, ("wide-oracles", i), dict(case=case, coq=worst, numpy=py, codes=coq[i]))
        elif worst is not None:
            ctx.disagree(SHARD, ("wide", i), dict(code=which[1], leaf=which[0]))
    return evs


def run(ctx):
    rng = ctx.rng
    cases = mk_grid(rng, ctx)
    ngrid = len(cases)
    seen = {canon(c) for c in cases}
    n = ngrid + ctx.n(420, 6000)
    tries = 0
    while len(cases) < n and tries < 20 * n:
        tries += 1
        c = g_case(rng, ctx)
        k = canon(c)
        if k in seen:
            continue
        seen.add(k)
        cases.append(c)
    ctx.log("wide selections: %d (grid class x axis x representation %d)" % (len(cases), ngrid))
    run_cases(ctx, cases)


def replay(ctx, rp):
    run_cases(ctx, [rp["case"]])
