"""C13 - the SHAPE of the patch linkage graph (scenarios "graph", run by props/c13.py before the small families).

The other families use layouts in which every patch is linked with every other one, or patches on a line with about as
many neighbours each.  Whatever depends on HOW MANY links a patch has relative to the others - the round-robin job iterator
PatchLinkage.iter_patch_id_pairs empties a dictionary of link sets in sweeps, so a patch with many links stays in it alone
after all the others have left - is never reached with equal degrees.  Here the degrees are unequal:

  star       one hub (a patch with ONE row far out in a free direction: its radius reaches over 3 .. 11 small patches that are
             not linked among themselves); some leaves share real pairs with the hub across their border, the others are
             linked through the radius alone
  two-hubs   two such hubs, linked with each other or not, with leaves of their own or shared
  tail       a hub with a few leaves and a chain of patches leading away from one of them
  isolated   a star or a tail plus patches linked with nothing
  random     centres, core sizes, far rows and border pairs drawn at random: the degree sequence is what it is

4 .. 12 patches; the labels (the order of the centre list) are a random permutation of the order of construction.  The shape
is a knob of the generator, never a premise of a check: every reference is computed from the rows and centres handed over.

Checked, on the base run and on every twin (centre list permuted: twice; rigid rotation; rows shuffled):
 (a) the job lists of the cross- and the autocorrelation (PatchLinkage.from_catalogs(...).iter_patch_id_pairs) against their
     specification: every linked pair once - Model/RoundRobin.v jobs_spec on the linkage computed by brute force (centre
     distance <= radius + radius + largest counted angle, radii = largest separation of any row of any catalog from the
     given centre, owner of a row = nearest centre), evaluated in Coq by c13_jobs_case (Model/RoundRobinGraph.v);
 (c) every pair-count table and weight sum of both measurements against a brute-force count over all pairs of rows;
 (b) twin against base: totals / raw counts exact, amplitudes, jackknife samples (permuted with the labels), covariance
     and n(z) as in the other families.
Props/C13.v: C13_jobs_relabel_cross, C13_jobs_relabel_auto_members, C13_stop_at_one_key_star_loses,
C13_stop_at_one_key_label_dependent, C13_graph_concrete.
"""
import math
import random
import shutil

import numpy as np

from lib import floatq as fq
from lib import impl
from props.c01 import offset
from props import c13_big

HEADER = "From Verif Require Import Prelude Invariance RoundRobin RoundRobinGraph.\nOpen Scope Q_scope.\n"
CATS = ("ref", "unk", "rand")
EDGES = [0.2, 0.4, 0.6]
ZS = [0.25, 0.3, 0.45, 0.5, 0.55]
GAP = 1e-9           # relative distance of a squared chord from a scale limit / of a link test from equality below which a case is skipped
SHAPES = ("star", "two-hubs", "tail", "isolated", "random")
VAR = ":unequal-degrees"


# ---------------------------------------------------------------- geometry of the reference (float64 numpy, harness side)
def unit(pts_deg):
    a = np.deg2rad(np.asarray(pts_deg, dtype="f8").reshape(-1, 2))
    return np.column_stack([np.cos(a[:, 1]) * np.cos(a[:, 0]), np.cos(a[:, 1]) * np.sin(a[:, 0]), np.sin(a[:, 1])])


def sep(v, c):
    return 2.0 * np.arcsin(np.clip(np.sqrt(np.sum((v - c) ** 2, axis=-1)) / 2.0, 0.0, 1.0))


# ---------------------------------------------------------------- layouts, in a plane, in units of the linkage angle M
def draw_layout(rng, shape, pm):
    """pm = largest counted angle / M.  -> (centres [(x, y)], rows {catalog: [(x, y, first redshift bin?)]}, notes)"""
    P, rows, notes = [], {c: [] for c in CATS}, dict(hubs=[], bridged=[], far_rows=0)

    def far_enough(c, rad, skip=()):
        return all(math.dist(c, q["c"]) > (rad + q["rad"] + 1.0) * 1.08 for k, q in enumerate(P) if k not in skip) and \
            all(math.dist(c, q["c"]) > 0.7 for q in P)

    def add_patch(c, rho, rad=None):
        P.append(dict(c=c, rho=rho, rad=rho if rad is None else rad))
        return len(P) - 1

    def bridge(i, j, dmax):
        """rows of every catalog on either side of the border between i and j, close enough to be counted"""
        ci, cj = P[i]["c"], P[j]["c"]
        d = math.dist(ci, cj)
        u = ((cj[0] - ci[0]) / d, (cj[1] - ci[1]) / d)
        v = (-u[1], u[0])
        m = ((ci[0] + cj[0]) / 2, (ci[1] + cj[1]) / 2)
        for c in CATS:
            for side in (-1.0, 1.0):
                for _ in range(rng.choice([1, 2])):
                    dl, t = rng.uniform(0.08, dmax) * pm, rng.uniform(-0.2, 0.2) * pm
                    rows[c].append((m[0] + side * dl * u[0] + t * v[0], m[1] + side * dl * u[1] + t * v[1], True))
        for k in (i, j):
            P[k]["rad"] = max(P[k]["rad"], math.hypot(d / 2 + dmax * pm, 0.2 * pm))
        notes["bridged"].append((i, j))

    def far_row(h, R, theta):
        c0 = P[h]["c"]
        rows[rng.choice(CATS + ("ref", "rand"))].append((c0[0] + R * math.cos(theta), c0[1] + R * math.sin(theta), rng.random() < 0.5))
        P[h]["rad"] = max(P[h]["rad"], R)
        notes["far_rows"] += 1

    def star(c0, theta0, R, nb, nd, share=(), sector=50.0, first=None):
        """a hub at c0 with one row at distance R towards theta0; nb leaves sharing pairs with it, nd leaves linked by the radius alone;
        first(h): what is placed before the leaves (they keep clear of it)"""
        h = add_patch(c0, rng.uniform(0.12, 0.25))
        far_row(h, R, theta0)
        far = (c0[0] + R * math.cos(theta0), c0[1] + R * math.sin(theta0))      # stays with the hub: no leaf nearer to it
        notes["hubs"].append(h)
        if first is not None:
            first(h)
        leaves = []
        for kind in ["b"] * nb + ["d"] * nd:
            if len(P) >= 12:
                break
            for _ in range(120):
                phi = theta0 + math.radians(rng.uniform(sector, 360.0 - sector))
                if kind == "b":
                    D, rho = rng.uniform(1.5, 3.4), rng.uniform(0.1, 0.2)
                    rad = D / 2 + 0.3 * pm
                else:
                    rho = rng.uniform(0.1, 0.3)
                    D, rad = rng.uniform(0.9, (R + rho + 1.0) * 0.93), rho
                c = (c0[0] + D * math.cos(phi), c0[1] + D * math.sin(phi))
                if math.dist(c, far) > 1.1 * R and far_enough(c, rad, skip=(h,) + tuple(share)):
                    l = add_patch(c, rho, rad)
                    if kind == "b":
                        bridge(h, l, 0.25)
                    leaves.append(l)
                    break
        return h, leaves

    def chain(h, phi, length, bridged):
        """patches in a row leading away from the hub h in direction phi: the first one is a leaf of the hub, every next one is linked
        with the one before only (across a border with pairs on either side, or by the radii alone)"""
        c0 = P[h]["c"]
        u = (math.cos(phi), math.sin(phi))
        step = 1.6 if bridged else 1.1
        at = step if bridged else rng.uniform(0.9, max(1.0, P[h]["rad"] * 0.9))
        prev = h
        for t in range(length):
            if len(P) >= 12:
                break
            c = (c0[0] + u[0] * (at + step * t), c0[1] + u[1] * (at + step * t))
            rho = rng.uniform(0.1, 0.2)
            rad = step / 2 + 0.2 * pm if bridged else rho
            if not far_enough(c, rad, skip=(prev, h)):
                break
            k = add_patch(c, rho, rad)
            if bridged:
                bridge(prev, k, 0.15)
            prev = k

    def isolated(count):
        for _ in range(count):
            if len(P) >= 12:
                break
            for _ in range(200):
                r, phi = rng.uniform(2.0, 11.0), rng.uniform(0, 2 * math.pi)
                c, rho = (r * math.cos(phi), r * math.sin(phi)), rng.uniform(0.1, 0.3)
                if far_enough(c, rho):
                    add_patch(c, rho)
                    break

    down = -math.pi / 2
    if shape == "star":
        k = rng.randint(3, 11)
        nb = min(k, rng.randint(2, 4))
        star((0.0, 0.0), down, 1.3 + 0.3 * k + rng.uniform(0.0, 1.0), nb, k - nb)
    elif shape == "two-hubs":
        k1 = rng.randint(2, 6)
        k2 = rng.randint(0, 10 - k1)
        RA, RB = rng.uniform(2.0, 3.5), rng.uniform(1.5, 3.5)
        nbA = min(k1, rng.randint(1, 3))
        hA, _ = star((0.0, 0.0), down, RA, nbA, k1 - nbA)
        X = rng.uniform(1.5, (RA + RB + 1.0) * 0.9) if rng.random() < 0.6 else (RA + RB + 1.0) * rng.uniform(1.15, 1.3)
        nbB = min(k2, rng.randint(0, 3))
        star((X, rng.uniform(-0.5, 0.5)), down, RB, nbB, k2 - nbB, share=(hA,) if rng.random() < 0.5 else ())
    elif shape == "tail":
        k = rng.randint(1, 4)
        nb = min(k, rng.randint(0, 2))
        tail, bridged = rng.randint(3, 7), rng.random() < 0.5
        star((0.0, 0.0), down, rng.uniform(1.5, 3.0), nb, k - nb,
             first=lambda h: chain(h, math.radians(rng.uniform(40.0, 140.0)), tail, bridged))
    elif shape == "isolated":
        k = rng.randint(2, 7)
        nb = min(k, rng.randint(1, 3))
        first = (lambda h: chain(h, math.radians(rng.uniform(40.0, 140.0)), rng.randint(2, 3), rng.random() < 0.5)) if rng.random() < 0.4 else None
        star((0.0, 0.0), down, rng.uniform(1.5, 3.5), nb, k - nb, first=first)
        isolated(rng.randint(1, 3))
    elif shape == "random":
        n = rng.randint(4, 12)
        Rf = rng.uniform(1.5, 1.2 + 0.35 * n)
        for _ in range(n):
            for _ in range(100):
                r, phi = Rf * math.sqrt(rng.random()), rng.uniform(0, 2 * math.pi)
                c = (r * math.cos(phi), r * math.sin(phi))
                if all(math.dist(c, q["c"]) > 0.75 for q in P):
                    add_patch(c, rng.uniform(0.08, 0.3))
                    break
        for i in range(len(P)):
            for j in range(i + 1, len(P)):
                d = math.dist(P[i]["c"], P[j]["c"])
                m = ((P[i]["c"][0] + P[j]["c"][0]) / 2, (P[i]["c"][1] + P[j]["c"][1]) / 2)
                if d < 2.2 and rng.random() < 0.6 and all(math.dist(m, q["c"]) > 1.15 * d / 2 for k, q in enumerate(P) if k not in (i, j)):
                    bridge(i, j, 0.3)
        for i in range(len(P)):
            if rng.random() < 0.35:
                R, th = rng.uniform(0.8, 3.5), rng.uniform(0, 2 * math.pi)
                q = (P[i]["c"][0] + R * math.cos(th), P[i]["c"][1] + R * math.sin(th))
                if all(math.dist(q, P[k]["c"]) > 1.1 * R for k in range(len(P)) if k != i):
                    far_row(i, R, th)
    else:
        raise ValueError(shape)
    # the core of every patch: a few rows of every catalog around the centre
    for q in P:
        for c, (lo, hi) in zip(CATS, ((3, 6), (3, 5), (4, 7))):
            for _ in range(rng.randint(lo, hi)):
                r, phi = q["rho"] * math.sqrt(rng.random()), rng.uniform(0, 2 * math.pi)
                rows[c].append((q["c"][0] + r * math.cos(phi), q["c"][1] + r * math.sin(phi), False))
    for c in CATS:
        rng.shuffle(rows[c])
    return [q["c"] for q in P], rows, notes


def to_sky(rng, cents, rows, m_deg):
    """the plane laid on the sky somewhere, turned by some angle, maybe mirrored; patch labels = a random order of construction"""
    ra0, dec0 = rng.choice([(40.0, 10.0), (359.2, -32.0), (201.0, 58.0), (120.0, -5.0), (0.4, 44.0)])
    al, mir = rng.uniform(0, 2 * math.pi), rng.choice([1.0, -1.0])
    ca, sa = math.cos(al), math.sin(al)

    def sky(x, y):
        x = mir * x
        return offset(ra0, dec0, (ca * x - sa * y) * m_deg, (sa * x + ca * y) * m_deg)
    order = list(range(len(cents)))
    rng.shuffle(order)          # label k = the patch constructed as number order[k]
    scen = dict(cents=[sky(*cents[i]) for i in order])
    for c in CATS:
        pts = [sky(x, y) for x, y, _ in rows[c]]
        w = [rng.randrange(1, 9) / 2.0 for _ in pts]
        z = [rng.choice(ZS[:2]) if first else rng.choice(ZS) for _, _, first in rows[c]]
        scen[c] = (pts, w, z) if c != "unk" else (pts, w)
    return scen, order, dict(field=[ra0, dec0], turned_by=al, mirrored=mir < 0)


# ---------------------------------------------------------------- the measurement (a stream of random choices of its own)
def make(ctx, rng, name, pts, w, z, centers):
    cols = {"ra": [p[0] for p in pts], "dec": [p[1] for p in pts], "w": w}
    kw = dict(ra_name="ra", dec_name="dec", weight_name="w", patch_centers=centers, max_workers=1)
    n = len(pts)
    cs = rng.choice([None, None, max(1, n // 2 + 1), max(1, n // 3 + 1), max(2, n - 1), n + 3, 7])
    if cs is not None:
        kw["chunksize"] = cs
    if z is not None:
        cols["z"] = z; kw["redshift_name"] = "z"
    return impl.Catalog.from_dataframe(impl.fresh_dir(ctx, name), impl.make_df(cols), **kw)


def measure(ctx, rng, yaw, cfg, scen, tag):
    centers = impl.AngularCoordinates(np.deg2rad(np.asarray(scen["cents"])))
    ref = make(ctx, rng, "gref" + tag, *scen["ref"], centers)
    unk = make(ctx, rng, "gunk" + tag, scen["unk"][0], scen["unk"][1], None, centers)
    rand = make(ctx, rng, "grand" + tag, *scen["rand"], centers)
    cross = yaw.crosscorrelate(cfg, ref, unk, ref_rand=rand, max_workers=1)
    auto = yaw.autocorrelate(cfg, ref, rand, max_workers=1)
    return dict(cats=(ref, unk, rand), cross=cross, auto=auto)


def cleanup(res):
    for c in res["cats"]:
        shutil.rmtree(str(c.cache_directory), ignore_errors=True)


# ---------------------------------------------------------------- the reference: owners, linkage, tables - from what was handed over
def given_of(scen):
    """-> ({catalog: dict(v, w, b, own)}, smallest relative margin by which a row is nearer to its centre than to the next one)"""
    cv = unit(scen["cents"])
    out, margin = {}, math.inf
    for c in CATS:
        v = unit(scen[c][0])
        d2 = np.sum((v[:, None, :] - cv[None, :, :]) ** 2, axis=2)
        own = np.argmin(d2, axis=1)
        if d2.shape[1] > 1:
            s = np.sort(d2, axis=1)
            margin = min(margin, float(np.min((s[:, 1] - s[:, 0]) / s[:, 1])))
        z = np.asarray(scen[c][2], dtype="f8") if len(scen[c]) > 2 else None
        b = None
        if z is not None:
            e = np.asarray(EDGES)
            b = np.searchsorted(e, z, side="left") - 1
            b[(z <= e[0]) | (z > e[-1])] = -1
        out[c] = dict(v=v, w=np.asarray(scen[c][1], dtype="f8"), b=b, own=own)
    return out, margin, cv


def linkage(G, cv, M, cats):
    """brute force: i ~ j  iff  distance of the centres <= radius_i + radius_j + M, radius = largest separation of any row of any of
    the catalogs from the centre.  -> ({i: set}, smallest relative distance of a test from equality)"""
    n = len(cv)
    rad = np.zeros(n)
    for c in cats:
        for k in range(n):
            rows = G[c]["own"] == k
            if rows.any():
                rad[k] = max(rad[k], float(sep(G[c]["v"][rows], cv[k]).max()))
    links, tie = {i: {i} for i in range(n)}, math.inf
    for i in range(n):
        for j in range(i + 1, n):
            d, lim = float(sep(cv[i][None, :], cv[j])[0]), rad[i] + rad[j] + M
            tie = min(tie, abs(d - lim) / lim)
            if d <= lim:
                links[i].add(j); links[j].add(i)
    return links, tie, rad


def pair_table(A, B, lo2, hi2, n, auto):
    """sum of w_a w_b over the pairs with lo < separation <= hi in the redshift bin of a (and of b, if B has redshifts), per (bin,
    patch of a, patch of b); an autocorrelation keeps a pair of patches under (lower, higher) and every pair of rows once"""
    nb = len(lo2)
    out, gap = np.zeros((nb, n, n)), math.inf
    d2 = np.sum((A["v"][:, None, :] - B["v"][None, :, :]) ** 2, axis=2)
    for b in range(nb):
        ia = np.flatnonzero(A["b"] == b)
        ib = np.flatnonzero(B["b"] == b) if B["b"] is not None else np.arange(len(B["w"]))
        if not len(ia) or not len(ib):
            continue
        sub = d2[np.ix_(ia, ib)]
        sel = (sub > lo2[b]) & (sub <= hi2[b])
        ww = np.outer(A["w"][ia], B["w"][ib]) * sel
        np.add.at(out[b], (np.broadcast_to(A["own"][ia][:, None], sub.shape), np.broadcast_to(B["own"][ib][None, :], sub.shape)), ww)
        gap = min(gap, float(np.min(np.abs(sub / lo2[b] - 1.0))), float(np.min(np.abs(sub / hi2[b] - 1.0))))
    if auto:
        for b in range(nb):
            t = out[b]
            out[b] = np.triu(t, 1) + np.diag(np.diag(t)) * 0.5
    return out, gap


def weight_sums(X, n, nb):
    out = np.zeros((nb, n))
    if X["b"] is None:
        out[:] = np.bincount(X["own"], weights=X["w"], minlength=n)[None, :]
    else:
        ok = X["b"] >= 0
        np.add.at(out, (X["b"][ok], X["own"][ok]), X["w"][ok])
    return out


TABLES = (("cross", "dd", "ref", "unk"), ("cross", "rd", "rand", "unk"), ("auto", "dd", "ref", "ref"), ("auto", "dr", "ref", "rand"),
          ("auto", "rr", "rand", "rand"))


def expected(G, lo2, hi2, n):
    """in the order of [flat_counts]: per table the counts, the weight sums of the first and of the second catalog"""
    out, gap, tabs = [], math.inf, {}
    for key, tab, a, b in TABLES:
        t, g = pair_table(G[a], G[b], lo2, hi2, n, auto=a == b)
        gap = min(gap, g)
        tabs[(key, tab)] = t
        out.extend(float(x) for x in t.ravel())
        out.extend(float(x) for x in weight_sums(G[a], n, len(lo2)).ravel())
        out.extend(float(x) for x in weight_sums(G[b], n, len(lo2)).ravel())
    return out, gap, tabs


def flat_counts(res):
    out = []
    for key, tab, _, _ in TABLES:
        (cf,) = res[key]
        nc = getattr(cf, tab)
        out.extend(float(x) for x in nc.counts.counts.ravel())
        out.extend(float(x) for x in nc.sum_weights.sum_weights1.ravel())
        out.extend(float(x) for x in nc.sum_weights.sum_weights2.ravel())
    return out


def totals(res, nb):
    return [float(np.sum(getattr(res[key][0], tab).counts.counts[b])) for key, tab, _, _ in TABLES for b in range(nb)]


def sampled(res, perm=None):
    """amplitudes, jackknife samples (rows permuted back), covariance of both correlation functions and of the redshift estimate"""
    from yaw.redshifts import RedshiftData
    out = []
    (cr,), (au,) = res["cross"], res["auto"]
    for cd in (cr.sample(), au.sample(), RedshiftData.from_corrfuncs(cr, ref_corr=au), RedshiftData.from_corrfuncs(cr)):
        smp = cd.samples if perm is None else cd.samples[perm]
        for arr in (cd.data, smp, cd.covariance):
            out.extend(float(x) for x in np.asarray(arr).ravel())
    return out


def degrees_of(links):
    return [len(v) - 1 for _, v in sorted(links.items())]


# ---------------------------------------------------------------- the family
def run_graph(ctx, yaw):
    """-> (terms, report)"""
    from yaw.correlation.measurements import PatchLinkage
    from props import c13 as C          # rotate, rot_matrix, cmp_term (loaded by the time this runs)
    rng = random.Random(ctx.seed * 1000003 + 13131)
    terms, cases = [], []

    def add(term, cid, meta, decode):
        cases.append((len(terms), cid, meta, decode))
        terms.append(term)

    def one(sig, what):
        return lambda code: [("fail", sig, "%s (code %d)" % (what, code))] if code else []

    def jobs_decode(kind):
        def f(code):
            out = []
            if code & 1:
                out.append(("fail", "c13-job-list-misses-linked-patch-pair:" + kind, "the job list of the %s-correlation does not hold every pair of linked "
                            "patches (linkage by brute force from the given centres and the rows of all catalogs): their pairs are never counted" % kind))
            if code & 2:
                out.append(("fail", "c13-job-list-repeats-patch-pair:" + kind, "the job list of the %s-correlation holds a pair of patches twice" % kind))
            if code & 4:
                out.append(("disagree", "c13-job-list-beyond-brute-force-linkage:" + kind, "the job list holds a pair of patches the brute-force linkage does not link"))
            return out
        return f

    nscen = ctx.n(7, 60)
    for sc in range(nscen):
        shape = SHAPES[sc % len(SHAPES)]
        unit_ = rng.choice(["arcmin", "kpc"])
        rmax = rng.uniform(25.0, 40.0) if unit_ == "arcmin" else rng.uniform(8000.0, 12000.0)
        cfg = yaw.Configuration.create(rmin=rmax / 8, rmax=rmax, unit=unit_, edges=EDGES, max_workers=1)
        upper = lambda z: float(np.max(cfg.scales.scales.get_angle_radian(z, cosmology=cfg.cosmology)[1]))
        zmid = [(a + b) / 2 for a, b in zip(EDGES[:-1], EDGES[1:])]
        p = max(upper(z) for z in zmid)                         # the largest counted angle
        M = max(p, upper(max(EDGES[0], 0.05)))                  # what a linkage has to allow for: the code adds the limit at the lower end
        lo2, hi2 = c13_big.limits(cfg, EDGES)
        for _ in range(6):
            cents_xy, rows_xy, notes = draw_layout(rng, shape, p / M)
            if len(cents_xy) >= 4:
                break
        n = len(cents_xy)
        if n < 4:
            ctx.bump("graph:layout_with_fewer_than_4_patches_dropped"); continue
        base, order, where = to_sky(rng, cents_xy, rows_xy, math.degrees(M) * 1.02)
        G, margin, cv = given_of(base)
        if margin < 1e-9:
            ctx.bump("graph:skipped_row_between_two_centres"); continue
        if any(not np.any(G[c]["own"] == k) for c in CATS for k in range(n)):
            ctx.bump("graph:skipped_patch_without_rows_in_some_catalog"); continue
        Lc, tie_c, rad = linkage(G, cv, M, CATS)
        La, tie_a, _ = linkage(G, cv, M, ("ref", "rand"))
        exp, gap, tabs = expected(G, lo2, hi2, n)
        if min(tie_c, tie_a) < GAP or gap < GAP:
            ctx.bump("near_tie_skipped:graph"); continue
        deg = degrees_of(Lc)
        top = sorted(deg, reverse=True)
        lead = top[0] - top[1]
        hubs = [i for i in range(n) if deg[i] == top[0]]
        par = dict(scenario="graph-%d" % sc, shape=shape, npatch=n, unit=unit_, rmax=float(rmax).hex(), sky=where,
                   largest_counted_angle_rad=float(p).hex(), linkage_angle_rad=float(M).hex(),
                   links={str(i): sorted(v - {i}) for i, v in Lc.items()}, degrees=deg,
                   patches_sharing_pairs_across_their_border=[[order.index(i), order.index(j)] for i, j in notes["bridged"]])
        ctx.log("graph %d: %s, %d patches, links per patch %s (cross), %s (auto)" % (sc, shape, n, deg, degrees_of(La)))
        ctx.bump("graph:shape=%s" % shape)
        ctx.bump("graph:patches=%s" % ("4-6" if n <= 6 else "7-9" if n <= 9 else "10-12"))
        ctx.bump("graph:lead_of_the_largest_degree=%s" % (lead if lead < 3 else "3+"))
        ctx.bump("graph:isolated_patches=%s" % min(3, sum(1 for d in deg if d == 0)))
        ctx.bump("graph:degree_spread(max-min)=%s" % ("0" if top[0] == top[-1] else "1" if top[0] - top[-1] == 1 else "2-3" if top[0] - top[-1] <= 3 else "4+"))
        ctx.bump("graph:auto_linkage_%s" % ("same_as_cross" if La == Lc else "smaller"))
        if len(hubs) == 1:
            h = hubs[0]
            cells = sum(1 for j in Lc[h] if j != h and any(np.any(t[:, h, j] != 0) or np.any(t[:, j, h] != 0) for t in tabs.values()))
            ctx.bump("graph:cells_of_the_single_hub_with_counted_pairs", cells)
            ctx.bump("graph:links_of_the_single_hub", deg[h])
        nonzero = any(np.any(t != 0) for t in tabs.values())

        def check_run(res, scen, tr, meta, Gt=None):
            """(a) job lists, (c) tables against brute force; -> False when the twin holds a near tie of its own"""
            cid = ("graph", sc, tr)
            if Gt is None:
                Gt, mg, cvt = given_of(scen)
                Lct, t1, _ = linkage(Gt, cvt, M, CATS)
                Lat, t2, _ = linkage(Gt, cvt, M, ("ref", "rand"))
                expt, gp, _ = expected(Gt, lo2, hi2, n)
                if mg < 1e-9 or min(t1, t2) < GAP or gp < GAP:
                    return False
            else:
                Lct, Lat, expt = Lc, La, exp
            ref, unk, rand = res["cats"]
            # the rows went where the nearest centre is (C12's statement; here the premise of the reference)
            for c, cat in zip(CATS, res["cats"]):
                have = {int(k): int(pt.meta.num_records) for k, pt in cat.items()}
                want = {k: int(np.sum(Gt[c]["own"] == k)) for k in range(n)}
                if have != want:
                    ctx.disagree("c13-graph-rows-per-patch-differ-from-nearest-centre", cid, dict(meta, catalog=c, stored=have, nearest_centre=want))
                    return True
            for kind, auto, cats, L in (("cross", False, (ref, unk, rand), Lct), ("auto", True, (ref, rand), Lat)):
                try:
                    pl = PatchLinkage.from_catalogs(cfg, *cats)
                    jobs = [(int(a), int(b)) for a, b in pl.iter_patch_id_pairs(auto=auto)]
                except Exception as e:
                    ctx.bump("graph:job_list_not_observable:%s" % type(e).__name__); continue
                want = {(i, i) for i in L} | {(i, j) for i in L for j in L[i] if j != i and (not auto or j > i)}
                st = [fq.pair(fq.nat(i), fq.nlist([i] + sorted(j for j in L[i] if j != i))) for i in sorted(L)]
                add("c13_jobs_case %s %s %s" % (fq.b(auto), fq.lst(st), fq.lst([fq.pair(fq.nat(a), fq.nat(b)) for a, b in jobs])), cid,
                    dict(meta, correlation=kind, links={str(i): sorted(v - {i}) for i, v in L.items()}, job_list=[list(x) for x in jobs],
                         linked_pairs_missing=[list(x) for x in sorted(want - set(jobs))],
                         pairs_listed_twice=[list(x) for x in sorted({x for x in jobs if jobs.count(x) > 1})]), jobs_decode(kind))
                ctx.bump("graph:job_lists_checked")
            add("c13_case true %s %s" % (fq.qlist(expt), fq.qlist(flat_counts(res))), cid, meta,
                one("c13-counts-differ-from-brute-force" + VAR, "pair counts or per-patch weight sums of a measurement on patches with unequal numbers of "
                    "links differ from the brute-force count over all pairs of rows"))
            return True

        try:
            rb = measure(ctx, rng, yaw, cfg, base, "b")
        except Exception as e:
            ctx.bump("graph:base_refused:%s" % type(e).__name__); ctx.log("graph %d: base refused: %s" % (sc, str(e)[:200])); continue
        meta_b = dict(par, transform="base")
        check_run(rb, base, "base", meta_b, Gt=G)
        ob = dict(counts=flat_counts(rb), samp=sampled(rb), totals=totals(rb, len(EDGES) - 1))
        ctx.count(key=("graph", sc, "base"), nontrivial=nonzero, kind="graph:base")
        ctx.sample(dict(par), limit=3)

        twins = ["centres:random", "centres:reverse" if sc % 2 else "centres:random2", "rot", "shuffle"]
        if ctx.quick():
            twins = twins[:2] + [twins[2 + sc % 2]]
        for tr in twins:
            kind = tr.split(":")[0]
            meta = dict(par, transform=tr)
            perm = None
            if kind == "centres":
                q = list(range(n))
                if tr.endswith("reverse"):
                    q.reverse()
                while q == list(range(n)):
                    rng.shuffle(q)
                t = dict(base, cents=[base["cents"][i] for i in q])       # new patch j is old patch q[j]
                perm = [q.index(i) for i in range(n)]                       # old patch i is new patch perm[i]
                meta["new_label_of_patch"] = perm
            elif kind == "rot":
                R = C.rot_matrix(rng, "random")
                t = dict(cents=C.rotate(base["cents"], R), ref=(C.rotate(base["ref"][0], R),) + base["ref"][1:],
                         unk=(C.rotate(base["unk"][0], R), base["unk"][1]), rand=(C.rotate(base["rand"][0], R),) + base["rand"][1:])
            else:
                def sh(tup):
                    idx = list(range(len(tup[0]))); rng.shuffle(idx)
                    return tuple([col[i] for i in idx] for col in tup)
                t = dict(cents=base["cents"], ref=sh(base["ref"]), unk=sh(base["unk"]), rand=sh(base["rand"]))
            cid = ("graph", sc, tr)
            try:
                rt = measure(ctx, rng, yaw, cfg, t, "t")
            except Exception as e:
                ctx.count(key=cid, nontrivial=nonzero, kind="graph:" + kind)
                add("1%nat", cid, dict(meta, error="%s: %s" % (type(e).__name__, str(e)[:200])),
                    one("c13-%s-twin-refused%s" % (kind, VAR), "the transformed twin of an accepted measurement raises"))
                continue
            if not check_run(rt, t, tr, meta):
                ctx.bump("near_tie_skipped:graph"); cleanup(rt); continue
            ot = dict(counts=flat_counts(rt), samp=sampled(rt, perm), totals=totals(rt, len(EDGES) - 1))
            if kind == "centres":
                add("c13_case true %s %s" % (fq.qlist(ob["totals"]), fq.qlist(ot["totals"])), cid, meta,
                    one("c13-relabel-changes-counts" + VAR, "relabelling patches (another order of the centre list) changes the total pair counts"))
                add(C.cmp_term("scaled", ob["samp"], ot["samp"]), cid, meta,
                    one("c13-relabel-changes-samples" + VAR, "relabelling patches changes amplitudes / n(z) / covariance or does not permute the "
                        "jackknife samples accordingly"))
            else:
                sig = "c13-rotation-changes-%s" if kind == "rot" else "c13-row-order-changes-%s"
                add("c13_case true %s %s" % (fq.qlist(ob["counts"]), fq.qlist(ot["counts"])), cid, meta,
                    one(sig % "counts" + VAR, "a rigid rotation / a row permutation of all catalogs changes the raw pair counts or weight sums"))
                add(C.cmp_term("exact", ob["samp"], ot["samp"]), cid, meta,
                    one(sig % "amplitudes" + VAR, "a rigid rotation / a row permutation of all catalogs changes amplitudes, jackknife samples, covariance "
                        "or the redshift estimate"))
            ctx.count(key=cid, nontrivial=nonzero, kind="graph:" + kind)
            cleanup(rt)
        cleanup(rb)

    def report(codes):
        for i, cid, meta, decode in cases:
            c = codes[i]
            if c:
                for how, sig, what in decode(c):
                    if how == "fail":
                        ctx.fail(sig, what, meta, case=cid)
                    else:
                        ctx.disagree(sig, cid, dict(meta, what=what))
    return terms, report
