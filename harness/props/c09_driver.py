"""C09 driver: ONE real catalog creation per interpreter, so that a blocked creation can be
killed from outside (harness/props/c09.py starts this file with /venv/bin/python in its own
session, waits for the READY line, then bounds the creation call by wall-clock time).

    c09_driver.py <spec.json> <out.json>

The module is also imported by the harness (make_input / foreign_input / expected_records are
shared, so that both sides build bit-identical inputs); importing it does not import yaw.

Fault injection that needs no change in /repo: the faults "in a worker" and "in the writer's
finalize" are produced by replacing yaw.catalog.catalog.split_into_patches / CatalogWriter.finalize
in THIS process before the creation call; multiprocessing forks, so the pool workers and the
writer process inherit the replacement.  Everything else (NaN, lengths, ids, paths) is a plain input.
"""
import json
import os
import sys
import time

MARKER_RA_DEG = 7.0      # a record with this right ascension makes the injected worker fault fire

# Keywords of the creation entry points that are NOT part of the input: they choose the code path (progress display
# wraps the chunk iterator and the patch iterator; degrees selects the unit conversion; the chunk size argument may
# be omitted or exceed the input; patch_num + probe_size make a first pass over the reader), never the outcome.
DEFAULT_OPTS = {"progress": False, "degrees": True, "cs_pass": "same", "probe_size": -1}


def opts_of(spec):
    o = dict(DEFAULT_OPTS)
    o.update(spec.get("opts") or {})
    return o


def chunksize_arg(spec):
    """the chunksize keyword as passed; spec['cs'] is always the EFFECTIVE chunk size (one chunk when the keyword is
    omitted or larger than the input)"""
    how = opts_of(spec)["cs_pass"]
    if how == "same":
        return spec["cs"]
    assert spec["cs"] >= spec["n"], spec
    return None if how == "none" else spec["n"] + 3


# ----------------------------------------------------------------------------- inputs
def centres(ncent):
    return [(30.0 + 40.0 * k, -20.0 + 25.0 * (k % 3)) for k in range(ncent)]


def random_window(ncent):
    """window of the random generator: hugs the real centres (+-6 deg) so that no random point can be nearer to
    the extra, far-away centre of the empty-centre scenario than to a real one"""
    cent = centres(ncent)
    ras, decs = [c[0] for c in cent], [c[1] for c in cent]
    return (min(ras) - 6.0, max(ras) + 6.0, max(-90.0, min(decs) - 6.0), min(90.0, max(decs) + 6.0))


def make_input(spec):
    """columns (numpy arrays, degrees) + kwargs for Catalog.from_dataframe, before the fault is applied.
    Record i belongs to centre near[i]; every centre has at least one record when n >= ncent."""
    import random
    import numpy as np
    rng = random.Random(spec["dseed"])
    n, ncent = spec["n"], spec["ncent"]
    cent = centres(ncent)
    near = [i % ncent if i < ncent else rng.randrange(ncent) for i in range(n)]
    order = list(range(n))
    rng.shuffle(order)
    near = [near[i] for i in order]
    ra = [cent[k][0] + rng.randrange(-64, 65) / 16.0 for k in near]
    dec = [cent[k][1] + rng.randrange(-64, 65) / 16.0 for k in near]
    cols = {"ra": np.asarray(ra, dtype="f8"), "dec": np.asarray(dec, dtype="f8"),
            "w": np.asarray([rng.randrange(1, 40) / 8.0 for _ in range(n)], dtype="f8"),
            "z": np.asarray([rng.randrange(1, 300) / 128.0 for _ in range(n)], dtype="f8"),
            "pid": np.asarray(near, dtype="i8")}
    return cols, near, cent


def fault_row(spec):
    """row hit by a chunk-local fault: second row of the chunk when it has one"""
    f = spec["fault"]
    c, cs, n = f["chunk"], spec["cs"], spec["n"]
    r = c * cs + (1 if cs > 1 and c * cs + 1 < n else 0)
    assert r < n, (spec, r)
    return r


def odd_index(df):
    """the table with an index that is not 0..n-1 (what filtering, sorting or concatenating leaves behind); rows and their order
    are unchanged - the same as lib/impl.odd_index (this module runs without the harness on its path)"""
    import numpy as np
    n = len(df)
    kind = n % 5
    if kind == 1:
        df.index = np.arange(n) * 3 + 7
    elif kind == 2:
        df.index = np.arange(n)[::-1].copy()
    elif kind == 3:
        df.index = np.arange(n) // 2
    elif kind == 4:
        df.index = ["r%d" % ((7 * i) % n) for i in range(n)]
    return df


def apply_fault(spec, cols):
    """value faults are written into the columns (so harness and driver agree on the input)"""
    import numpy as np
    f = spec["fault"]
    k = f["kind"]
    if k in ("nan", "inf", "neginf", "objnone", "objnan"):
        # "objnone" / "objnan": the same missing value in another REPRESENTATION - a column of python objects (what pandas
        # makes of a column holding None, Decimal or mixed values); file sources cannot hold such a column: plain NaN there
        v = {"nan": float("nan"), "inf": float("inf"), "neginf": float("-inf"), "objnone": None, "objnan": float("nan")}[k]
        col = cols[f["col"]].copy()
        if k in ("objnone", "objnan"):
            if spec.get("source", "frame") in ("frame", "df"):
                col = col.astype(object)
            else:
                v = float("nan")
        col[fault_row(spec)] = v
        cols[f["col"]] = col
    elif k == "idneg":
        cols["pid"] = cols["pid"].copy()
        cols["pid"][fault_row(spec)] = -1
    elif k == "idbig":
        cols["pid"] = cols["pid"].copy()
        cols["pid"][fault_row(spec)] = 40000
    elif k == "idwrap":   # outside 0..32767 but wraps to a valid id in a 16-bit integer
        cols["pid"] = cols["pid"].copy()
        cols["pid"][fault_row(spec)] = 65537
    elif k == "idedge":   # first value outside the range
        cols["pid"] = cols["pid"].copy()
        cols["pid"][fault_row(spec)] = 32768
    elif k == "worker":
        cols["ra"] = cols["ra"].copy()
        cols["ra"][fault_row(spec)] = MARKER_RA_DEG
    elif k == "unequal" and spec["source"] == "hdf5":
        # independent datasets: each column gets a length of its own (harness and driver agree on every entry)
        for col, d in unequal_deltas(spec).items():
            if col in cols:
                cols[col] = resized(cols[col], spec["n"] + d)
    return cols


def used_columns(spec):
    names = ["ra", "dec"]
    if spec["weights"]:
        names.append("w")
    if spec["redshifts"]:
        names.append("z")
    return names


def file_columns(spec):
    """the columns a columnar source holds for this case, in the order the reader selects them (ATTR_ORDER)"""
    return used_columns(spec) + (["pid"] if spec["patch"] == "name" else [])


def unequal_deltas(spec):
    """fault kind 'unequal': by how many entries each column differs.  source hdf5: the length of the whole dataset
    relative to the n entries of the right ascension (spec['n'] is always len(ra)); source frame: the length of the
    column's slice in chunk fault['chunk'] relative to the other slices of that chunk.  {column: +d longer | -d shorter}"""
    f = spec["fault"]
    assert f["kind"] == "unequal", f
    return {k: int(v) for k, v in (f.get("deltas") or {f["col"]: -1}).items()}


def resized(values, length):
    """the column with `length` entries: cut off, or continued with its own values from the start"""
    import numpy as np
    return np.resize(values, max(0, int(length)))


def column_lengths(spec):
    """source hdf5, fault kind 'unequal': the lengths of the datasets, right ascension first"""
    d = unequal_deltas(spec)
    assert d.get("ra", 0) == 0, spec
    return [max(0, spec["n"] + d.get(c, 0)) for c in file_columns(spec)]


def chunk_slice_lengths(spec):
    """source frame, fault kind 'unequal': the lengths of the column slices DataChunk.create gets to see, chunk by chunk"""
    d = unequal_deltas(spec)
    n, cs, out = spec["n"], spec["cs"], []
    for c in range(-(-n // cs)):
        m = min(cs, n - c * cs)
        out.append([max(0, m + (d.get(col, 0) if c == spec["fault"]["chunk"] else 0)) for col in file_columns(spec)])
    return out


def expected_records(spec, cols):
    """multiset of stored records the creation must produce: tuples of float.hex()"""
    import numpy as np
    fields = [np.deg2rad(cols["ra"]), np.deg2rad(cols["dec"])]
    if spec["weights"]:
        fields.append(cols["w"])
    if spec["redshifts"]:
        fields.append(cols["z"])
    return sorted(tuple(float(x).hex() for x in row) for row in zip(*fields))


CATALOG_PRES = ("catalog_other", "catalog_fewer", "catalog_same", "catalog_more")

# ---- the pre-existing state of the cache path, concretely.  "Is a catalog cache" = a real directory whose listing
# holds the marker file (yaw.catalog.catalog.PATCH_INFO_FILE, patch_ids.bin: written last by CatalogWriter.finalize,
# required by read_patch_ids).  Each state is a listing / a file / a symbolic link; its Coq term (Model/FailStop.v,
# fspath) is built by path_term.  {k} = the number of patches of the old catalog data in it.
PATH_STATES = {
    "absent": "FAbsent", "noparent": "FNoParent", "parentfile": "FNoParent", "file": "FFile",
    # directories WITHOUT the marker: never a cache, whatever their entries are called
    "dir_other": "(FDir [EOther; EOther])",                    # notes.txt, sub/
    "dir_empty": "(FDir [])",
    "dir_patchfiles": "(FDir [EPatchNamed; EPatchNamed])",     # user files patch_notes.txt, patch_2023-11.diff
    "dir_patchdirs": "(FDir [EPatchNamed; EPatchNamed; EPatchNamed])",   # sub-directories patch_0/ patch_1/ (empty), patch_2/ (a file)
    "dir_remains": "(FDir (map EPatch (seq 101 {k})))",        # an interrupted creation: patch data, the marker was never written
    "dir_holds_catalog": "(FDir [EPatchNamed])",               # its only entry patch_0/ is itself a complete catalog
    # directories WITH the marker: caches (may be overwritten), valid or not
    "dir_marker_only": "(FDir [EMarker])",
    "dir_marker_foreign": "(FDir [EMarker; EOther; EOther])",  # the marker next to notes.txt, sub/ - no patch data
    "catalog_foreign": "(FDir (catalog_entries {k} [EOther; EPatchNamed; EOther]))",  # valid catalog + notes.txt, patch_notes.txt, sub/
    "catalog_other": "(FDir (catalog_entries {k} []))", "catalog_fewer": "(FDir (catalog_entries {k} []))",
    "catalog_same": "(FDir (catalog_entries {k} []))", "catalog_more": "(FDir (catalog_entries {k} []))",
    # symbolic links (the thing pointed to lives outside the directory of the cache path)
    "link_catalog": "(FLink (FDir (catalog_entries {k} [])))",
    "link_dir_other": "(FLink (FDir [EOther; EOther]))",
    "link_dir_empty": "(FLink (FDir []))",
    "link_patchfiles": "(FLink (FDir [EPatchNamed; EPatchNamed]))",
    "link_file": "(FLink FFile)",
    "link_dangling": "(FLink FAbsent)",
}
LINK_PRES = tuple(k for k in PATH_STATES if k.startswith("link_"))
# existing paths that are not a catalog cache: any creation has to raise and leave them as they are
NONCACHE_PRES = ("file", "dir_other", "dir_empty", "dir_patchfiles", "dir_patchdirs", "dir_remains", "dir_holds_catalog",
                 "link_dir_other", "link_dir_empty", "link_patchfiles", "link_file")
# paths at which a VALID old catalog (of old_npatch patches) can be opened before the call
OLD_CATALOG_PRES = CATALOG_PRES + ("catalog_foreign", "link_catalog")


def path_term(spec):
    return PATH_STATES[spec["pre"]].replace("{k}", str(old_npatch(spec) if spec["pre"] in OLD_CATALOG_PRES + ("dir_remains",) else 0))


def old_npatch(spec):
    """number of patches (ids 0..k-1) of the pre-existing valid catalog, relative to the ncent patches (ids
    0..ncent-1) the new creation writes: fewer / the same / more"""
    pre, ncent = spec["pre"], spec.get("ncent", 3)
    if pre in ("catalog_other", "catalog_foreign", "link_catalog", "dir_remains"):
        return 2
    if pre == "catalog_fewer":
        return max(1, ncent - 2)
    if pre == "catalog_same":
        return ncent
    if pre == "catalog_more":
        return ncent + 2
    raise ValueError(pre)


def foreign_input(npatch=2):
    """the OTHER data of a pre-existing valid catalog (npatch patches with ids 0..npatch-1, weights only;
    npatch=2: 5 records)"""
    import numpy as np
    ra, dec = [200.0, 201.5, 250.0, 251.25, 252.0], [10.0, 11.0, -5.0, -6.5, -4.0]
    w, pid = [2.0, 4.0, 8.0, 16.0, 32.0], [0, 0, 1, 1, 1]
    for p in range(2, npatch):
        for j in range(2 + p % 2):
            ra.append(200.0 + 12.5 * p + 1.25 * j)
            dec.append(30.0 - 7.0 * p + 0.5 * j)
            w.append(float(2 ** ((p + j) % 6)))
            pid.append(p)
    if npatch == 1:
        pid = [0] * len(pid)
    return {"ra": np.asarray(ra), "dec": np.asarray(dec), "w": np.asarray(w), "pid": np.asarray(pid)}


def foreign_records(npatch=2):
    import numpy as np
    c = foreign_input(npatch)
    return sorted(tuple(float(x).hex() for x in row)
                  for row in zip(np.deg2rad(c["ra"]), np.deg2rad(c["dec"]), c["w"]))


class FrameDouble:
    """Minimal stand-in for a data frame (len, row slicing, column access with .to_numpy()) whose
    columns may have unequal length inside one chunk: in chunk `chunk` the slice of every column of `deltas` is
    that many rows longer (continued with its own values) or shorter than the slices of the other columns."""

    class _Col:
        def __init__(self, a):
            self.a = a

        def to_numpy(self):
            return self.a

    def __init__(self, cols, cs, chunk=None, deltas=None):
        self.cols, self.cs, self.chunk, self.deltas = cols, cs, chunk, dict(deltas or {})
        self.n = len(cols["ra"])

    def __len__(self):
        return self.n

    def __getitem__(self, key):
        if isinstance(key, slice):
            start = key.start or 0
            out = {}
            for k, v in self.cols.items():
                part = v[key]
                if self.chunk is not None and k in self.deltas and start // self.cs == self.chunk:
                    part = resized(part, len(part) + self.deltas[k])
                out[k] = part
            return FrameDouble._View(out)
        raise KeyError(key)

    class _View:
        def __init__(self, cols):
            self.cols = cols

        def __getitem__(self, name):
            return FrameDouble._Col(self.cols[name])


# ----------------------------------------------------------------------------- pre-existing state
def marker_name(yaw):
    import yaw.catalog.catalog as cc
    return getattr(cc, "PATCH_INFO_FILE", "patch_ids.bin")


def write_old_catalog(yaw, path, npatch):
    import pandas as pd
    yaw.Catalog.from_dataframe(path, pd.DataFrame(foreign_input(npatch)), ra_name="ra", dec_name="dec", weight_name="w",
                               patch_name="pid", max_workers=1, chunksize=2)


def write_text(path, text):
    with open(path, "w") as f:
        f.write(text)


def fill_directory(kind, path, yaw, npatch=2):
    """make `path` (absent so far) a directory of the given kind"""
    import shutil
    if kind in ("catalog", "catalog_foreign", "dir_remains", "dir_marker_only", "dir_marker_foreign"):
        write_old_catalog(yaw, path, npatch)
        marker = marker_name(yaw)
        assert os.path.isfile(os.path.join(path, marker)), os.listdir(path)
        if kind == "dir_remains":
            os.unlink(os.path.join(path, marker))
        elif kind in ("dir_marker_only", "dir_marker_foreign"):
            for name in os.listdir(path):
                if name != marker:
                    shutil.rmtree(os.path.join(path, name))
        if kind in ("catalog_foreign", "dir_marker_foreign"):
            os.makedirs(os.path.join(path, "sub"))
            write_text(os.path.join(path, "notes.txt"), "notes that exist only here\n")
            write_text(os.path.join(path, "sub", "more.dat"), "0123456789\n")
        if kind == "catalog_foreign":
            write_text(os.path.join(path, "patch_notes.txt"), "a user file that is merely called patch_...\n")
        return
    os.makedirs(path)
    if kind == "dir_other":
        os.makedirs(os.path.join(path, "sub"))
        write_text(os.path.join(path, "notes.txt"), "unrelated content that is not a catalog\n")
        write_text(os.path.join(path, "sub", "more.dat"), "0123456789\n")
    elif kind == "dir_empty":
        os.chmod(path, 0o700)
    elif kind == "dir_patchfiles":
        write_text(os.path.join(path, "patch_notes.txt"), "notes that exist only here\n")
        write_text(os.path.join(path, "patch_2023-11.diff"), "--- a/file\n+++ b/file\n@@ precious work @@\n")
    elif kind == "dir_patchdirs":
        os.makedirs(os.path.join(path, "patch_0"))
        os.makedirs(os.path.join(path, "patch_1"))
        os.makedirs(os.path.join(path, "patch_2"))
        write_text(os.path.join(path, "patch_2", "table.csv"), "1,2,3\n")
    elif kind == "dir_holds_catalog":
        write_old_catalog(yaw, os.path.join(path, "patch_0"), npatch)
    else:
        raise ValueError(kind)


def link_target(spec):
    """where a symbolic link at the cache path points to: outside the directory the cache path lies in"""
    return os.path.join(os.path.dirname(os.path.dirname(spec["cache"])), "elsewhere", "real")


def prepare_target(spec, yaw):
    """bring the cache path into the pre-existing state the case asks for"""
    import shutil
    cache = spec["cache"]
    base = os.path.dirname(cache)
    pre = spec["pre"]
    if pre == "noparent":
        assert not os.path.exists(base)
        return
    if pre == "parentfile":
        os.makedirs(os.path.dirname(base), exist_ok=True)
        with open(base, "w") as f:
            f.write("a regular file where the parent directory should be\n")
        return
    os.makedirs(base, exist_ok=True)
    if os.path.lexists(cache):
        shutil.rmtree(cache) if os.path.isdir(cache) and not os.path.islink(cache) else os.unlink(cache)
    if spec.get("nest"):
        # the cache path lies in a directory of the user's own: whatever happens to the cache path, this stays
        os.makedirs(os.path.join(base, "sub"))
        os.makedirs(os.path.join(base, "patch_7"))
        write_text(os.path.join(base, "notes.txt"), "the user's own directory around the cache path\n")
        write_text(os.path.join(base, "sub", "more.dat"), "0123456789\n")
        write_text(os.path.join(base, "patch_7", "data.bin"), "not catalog data\n")
        write_text(os.path.join(base, "patch_list.txt"), "patch_7\n")
    if pre == "absent":
        return
    if pre == "file":
        write_text(cache, "precious regular file\n")
    elif pre in CATALOG_PRES:
        fill_directory("catalog", cache, yaw, old_npatch(spec))
    elif pre in LINK_PRES:
        real = link_target(spec)
        os.makedirs(os.path.dirname(real), exist_ok=True)
        if os.path.lexists(real):
            shutil.rmtree(real) if os.path.isdir(real) else os.unlink(real)
        what = pre[len("link_"):]
        if what == "file":
            write_text(real, "precious regular file behind a link\n")
        elif what == "dangling":
            pass
        elif what == "patchfiles":
            fill_directory("dir_patchfiles", real, yaw)
        else:
            fill_directory(what, real, yaw, old_npatch(spec) if what == "catalog" else 2)
        os.symlink(os.path.relpath(real, base), cache)
    elif pre in PATH_STATES:
        fill_directory(pre, cache, yaw, old_npatch(spec) if pre in ("catalog_foreign", "dir_remains") else 2)
    else:
        raise ValueError(pre)


# ----------------------------------------------------------------------------- what is on disk (driver: before; harness: after)
def sha(path):
    import hashlib
    h = hashlib.sha1()
    with open(path, "rb") as f:
        h.update(f.read())
    return h.hexdigest()


def snapshot(path, skip=None):
    """recursive listing with the SHA-1 of every file; symbolic links are recorded as links (a link at the top is
    recorded together with what it points to); a directory at the top with its inode and permission bits"""
    if os.path.islink(path):
        to = os.readlink(path)
        real = os.path.normpath(os.path.join(os.path.dirname(path), to))
        return ["LINK", to, snapshot(real)]
    if not os.path.lexists(path):
        return "ABSENT"
    if not os.path.isdir(path):
        return ["FILE", sha(path)]
    st = os.stat(path)
    out = {"./": "DIR inode=%d mode=%o" % (st.st_ino, st.st_mode & 0o7777)}
    for root, dirs, files in os.walk(path):
        rel = os.path.relpath(root, path)
        if rel == "." and skip is not None:
            dirs[:] = [d for d in dirs if not skip(d)]
            files = [f for f in files if not skip(f)]
        for d in dirs:
            full = os.path.join(root, d)
            out[os.path.normpath(os.path.join(rel, d)) + "/"] = ("LINK " + os.readlink(full)) if os.path.islink(full) else "DIR"
        for f in files:
            full = os.path.join(root, f)
            out[os.path.normpath(os.path.join(rel, f))] = ("LINK " + os.readlink(full)) if os.path.islink(full) else sha(full)
    return out


def snap_case(spec):
    """the cache path itself, and everything around it: the directory it lies in without the cache entry (and
    without the harness's own temporary input file <cache>.src.hdf5)"""
    cache = spec["cache"]
    base = os.path.dirname(cache)
    name = os.path.basename(cache)
    around = snapshot(base, skip=lambda n: n == name or n == name + ".src.hdf5")
    if isinstance(around, dict):
        around.pop("./", None)         # adding / removing the cache entry changes nothing of the directory's identity
    return {"cache": snapshot(cache), "around": around}


# ----------------------------------------------------------------------------- the call
KMEANS = []      # patch centres computed by create_patch_centers in this process (observation only)


def record_kmeans_centres():
    """patch_num: the centres come out of treecorr's k-means (randomly initialised, not seeded).  They are an
    intermediate INPUT of the pipeline the harness cannot predict, so the call is observed: same arguments, same
    result, the result is written down."""
    import yaw.catalog.catalog as cc
    orig = cc.create_patch_centers

    def create_patch_centers(reader, patch_num, probe_size):
        centers = orig(reader, patch_num, probe_size)
        KMEANS.append([[float(a).hex(), float(b).hex()] for a, b in zip(centers.ra, centers.dec)])
        return centers

    cc.create_patch_centers = create_patch_centers


def install_injection(spec):
    kind = spec["fault"]["kind"]
    if kind == "worker":
        import numpy as np
        import yaw.catalog.catalog as cc
        orig = cc.split_into_patches
        marker = float(np.deg2rad(MARKER_RA_DEG))

        def split_into_patches(chunk, patch_centers):
            if (chunk["ra"] == marker).any():
                raise RuntimeError("injected fault in split_into_patches (worker)")
            return orig(chunk, patch_centers)

        cc.split_into_patches = split_into_patches
    elif kind == "final":
        import yaw.catalog.catalog as cc

        def finalize(self):
            raise OSError("injected fault in CatalogWriter.finalize (writer)")

        cc.CatalogWriter.finalize = finalize
    elif kind == "final_late":
        # the fault strikes at the last step of finalize: every patch writer has been flushed and closed (all
        # the data are on disk), writing the list of patch ids fails
        import yaw.catalog.catalog as cc

        def finalize(self):
            for writer in self.writers.values():
                writer.close()
            raise OSError("injected fault at the end of CatalogWriter.finalize (writing the patch id list)")

        cc.CatalogWriter.finalize = finalize


TABLE_LEN = 6


def random_tables(spec):
    """the weights / redshifts tables a random generator draws from (from_random with spec['weights'] /
    spec['redshifts']); fault kind 'gentable' puts a non-finite value into one or both: fault['tables'] =
    {'w': [kind, row], 'z': [kind, row]}"""
    import numpy as np
    tabs = {}
    if spec["weights"]:
        tabs["w"] = np.asarray([(k + 1) / 4.0 for k in range(TABLE_LEN)], dtype="f8")
    if spec["redshifts"]:
        tabs["z"] = np.asarray([(k + 1) / 8.0 for k in range(TABLE_LEN)], dtype="f8")
    if spec["fault"]["kind"] == "gentable":
        for col, (kind, row) in spec["fault"]["tables"].items():
            tabs[col][row] = {"nan": float("nan"), "inf": float("inf"), "neginf": float("-inf")}[kind]
    return tabs


def make_generator(yaw, spec, tolerant=False):
    """the generator of a from_random case.  tolerant (harness side only, to know what a catalog that was wrongly
    returned should hold): built from finite tables, the faulty tables are put in place afterwards"""
    import numpy as np
    tabs = random_tables(spec)
    given = tabs if not tolerant else {k: np.where(np.isfinite(v), v, 1.0) for k, v in tabs.items()}
    gen = yaw.randoms.BoxRandoms(*random_window(spec["ncent"]), weights=given.get("w"), redshifts=given.get("z"),
                                 seed=spec["dseed"])
    if tolerant:
        if "w" in tabs:
            gen.weights = tabs["w"]
        if "z" in tabs:
            gen.redshifts = tabs["z"]
    return gen


def faulty_generator(yaw, spec):
    """BoxRandoms whose draw number `chunk` after the last reseed fails like a source that cannot be read (the reader
    reseeds when the iteration starts, so draw k is chunk k)"""
    class FaultyBox(yaw.randoms.BoxRandoms):
        fail_at = spec["fault"]["chunk"]

        def reseed(self, seed=None, *a, **k):
            self.draws = 0
            return super().reseed(seed, *a, **k)

        def _draw_coords(self, probe_size):
            k = self.draws
            self.draws += 1
            if k == self.fail_at:
                raise OSError("injected fault in the random generator (reader), draw %d" % k)
            return super()._draw_coords(probe_size)

    return FaultyBox(*random_window(spec["ncent"]), seed=spec["dseed"])


def create(spec, yaw):
    import numpy as np
    import pandas as pd
    cols, near, cent = make_input(spec)
    cols = apply_fault(spec, cols)
    f = spec["fault"]
    o = opts_of(spec)
    kw = dict(overwrite=spec["overwrite"], max_workers=spec["workers"], chunksize=chunksize_arg(spec),
              progress=bool(o["progress"]))
    cent_used = list(cent)
    if spec["patch"] == "centers":
        if spec["empty_centre"]:
            # an additional centre, far from every record, inserted at index 1
            cent_used = [cent[0], (300.0, 60.0)] + list(cent[1:])
        kw["patch_centers"] = yaw.AngularCoordinates(np.deg2rad(np.asarray(cent_used, dtype="f8")))
    elif spec["patch"] == "name":
        kw["patch_name"] = "pid"
    elif spec["patch"] == "num":
        kw["patch_num"] = spec["ncent"]
        kw["probe_size"] = o["probe_size"]
    elif spec["patch"] == "none":
        pass
    else:
        raise ValueError(spec["patch"])
    if spec["source"] == "random":
        # the window hugs the real centres (+-6 deg), so that no random point can be nearer to the extra,
        # far-away centre of the empty-centre scenario than to a real one
        if f["kind"] == "genfail":
            gen = faulty_generator(yaw, spec)
        else:
            # inside the measured call: a generator that refuses its tables (non-finite weights / redshifts to draw
            # from) is a creation that raises before any writer exists
            gen = make_generator(yaw, spec)
        kw.pop("patch_name", None)
        return yaw.Catalog.from_random(spec["cache"], gen, spec["n"], **kw)
    kw.update(ra_name="ra", dec_name="dec")
    if not o["degrees"]:
        # the same input handed over in radians (the stored records have to be bit-identical)
        def to_rad(col):      # a column of python objects stays one (None stays None)
            if getattr(col, "dtype", None) == object:
                return np.array([None if x is None else float(np.deg2rad(x)) for x in col], dtype=object)
            return np.deg2rad(col)
        cols = dict(cols, ra=to_rad(cols["ra"]), dec=to_rad(cols["dec"]))
        kw["degrees"] = False
    if spec["weights"]:
        kw["weight_name"] = "w"
    if spec["redshifts"]:
        kw["redshift_name"] = "z"
    if f["kind"] == "missing":
        names = {"ra": "ra_name", "dec": "dec_name", "w": "weight_name", "z": "redshift_name", "pid": "patch_name"}
        kw[names[f["col"]]] = "no_such_column"
    use = {k: v for k, v in cols.items() if k in used_columns(spec) or (k == "pid" and spec["patch"] == "name")}
    if spec["source"] == "df":
        return yaw.Catalog.from_dataframe(spec["cache"], odd_index(pd.DataFrame(use)), **kw)
    if spec["source"] == "frame":
        fd = FrameDouble(use, spec["cs"], f["chunk"] if f["kind"] == "unequal" else None,
                         unequal_deltas(spec) if f["kind"] == "unequal" else None)
        return yaw.Catalog.from_dataframe(spec["cache"], fd, **kw)
    if spec["source"] == "hdf5":
        import h5py
        path = spec["cache"] + ".src.hdf5"
        with h5py.File(path, "w") as h:
            for k, v in use.items():      # fault kind 'unequal': apply_fault gave every dataset its own length
                h.create_dataset(k, data=v)
        try:
            return yaw.Catalog.from_file(spec["cache"], path, **kw)
        finally:
            os.unlink(path)
    if spec["source"] == "parquet":
        # a Parquet file written batch by batch: row groups of UNEQUAL sizes (drawn from the data seed), none aligned to the chunk size
        import random
        import pyarrow as pa
        import pyarrow.parquet as pq
        r = random.Random(spec["dseed"])
        path = spec["cache"] + ".src.parquet"
        tab = pa.table({k: np.asarray(v) for k, v in use.items()})
        with pq.ParquetWriter(path, tab.schema) as wr:
            cs = spec["cs"]
            pattern = r.choice([None, [(cs + 1) // 2, 1], [(cs + 1) // 2, 1], [cs // 2 + 1, 1, 1, 1], [2, 1], [max(1, cs - 2), 1, 1], [cs + 1, 2, 1, 1, 1, 1]])
            pos = k = 0
            while pos < len(tab):
                step = r.randrange(1, cs + 2) if pattern is None else pattern[k % len(pattern)]
                wr.write_table(tab.slice(pos, step), row_group_size=step)
                pos += step
                k += 1
        try:
            return yaw.Catalog.from_file(spec["cache"], path, **kw)
        finally:
            os.unlink(path)
    raise ValueError(spec["source"])


def dump_catalog(cat):
    recs, cents = {}, {}
    for pid, patch in cat.items():
        data = patch.load_data()
        recs[str(int(pid))] = [[float(rec[nm]).hex() for nm in data.dtype.names] for rec in data]
        c = patch.meta.center
        cents[str(int(pid))] = [float(c.ra[0]).hex(), float(c.dec[0]).hex()]
    return recs, cents


def main():
    spec = json.load(open(sys.argv[1]))
    out_path = sys.argv[2]
    os.environ["YAW_NUM_THREADS"] = str(spec["nthreads"])
    import logging
    import yaw
    import yaw.randoms  # noqa: F401
    src = os.environ.get("VERIF_REPO_SRC", "/repo/src")
    assert os.path.realpath(yaw.__file__).startswith(os.path.realpath(src) + "/"), yaw.__file__
    logging.getLogger("yaw").setLevel(logging.CRITICAL)
    prepare_target(spec, yaw)
    install_injection(spec)
    if spec["patch"] == "num":
        record_kmeans_centres()
    # the state of the path BEFORE the call, taken here (nothing runs between this and the call)
    tmp = out_path + ".before.tmp"
    with open(tmp, "w") as fh:
        json.dump(snap_case(spec), fh)
    os.replace(tmp, out_path + ".before")
    print("READY", flush=True)
    t0 = time.time()
    res = {}
    try:
        cat = create(spec, yaw)
        res["outcome"] = "returned"
        res["elapsed"] = time.time() - t0
        res["records"], res["centers"] = dump_catalog(cat)
    except BaseException as e:  # noqa: BLE001 - the class of every failure is the observation
        res["outcome"] = "raised"
        res["elapsed"] = time.time() - t0
        res["exc_type"] = type(e).__name__
        res["exc_msg"] = str(e)[:300]
    if KMEANS:
        res["kmeans_centres"] = KMEANS[-1]
    tmp = out_path + ".tmp"
    with open(tmp, "w") as fh:
        json.dump(res, fh)
    os.replace(tmp, out_path)
    print("DONE", flush=True)


if __name__ == "__main__":
    main()
