"""C13 - scenarios in which the catalogs of one measurement do NOT share a footprint.

The catalogs of a measurement share the patch centres, not the extent of the data inside a patch: the data may reach
beyond the randoms in one patch and stay well inside them in the next, one catalog may be much sparser than the others,
and which catalog holds the most rows (the one the code takes the patch geometry from) is one more accident.  The pair
counting visits only "linked" patch pairs, and the link test is made from the extents of ALL catalogs around the shared
centres - so which pairs are counted could depend on patch numbering, on which catalog is the largest and on how a
catalog is split.  The property says it does not.

Layout (all lengths in units of p = the largest counted angle, i.e. the upper scale limit at the centre of the first
redshift bin): a chain of 3-4 patch centres running east-west (alternate centres a little north), neighbouring centres
s = 1.7 .. 2.1 p apart ("close": linked only through the extents) or far apart (never linked).  Per catalog and patch the
objects fill a thin east-west strip [-west, +east] x [-0.12 p, 0.12 p] around the centre, west / east drawn per catalog,
patch and side from narrow (0.3 p) / mid (0.5 p) / wide (s/2 - 0.1 p: up to the border of the patch), with one object near
each tip so that a sparse catalog realises its extent too.  Two narrow strips facing each other across a close border
hold no pair within p (gap >= 1.1 p); a wide strip facing a narrow one does (gap <= 0.9 p).

Roles: one catalog is the largest (9-11 rows per patch), one is in between (5-7, sometimes as many as the largest), one
is sparse (2-3); which of ref / unk / rand plays which role is drawn.

[classify] describes a scenario from the positions alone (float arithmetic, implementation-independent): for the
catalogs that enter one linkage (cross-correlation: ref, unk, rand; autocorrelation: ref, rand) and every pair of
distinct patches that holds a pair of objects of two measured catalogs within (p/8, p]:
  ordinary  - the extents of the largest catalog alone already say the patches may hold such a pair
              (d <= r_L[i] + r_L[j] + p)
  one-sided - they do not, but they do when the extent of the other catalogs is taken on ONE side
  bridge    - only the extents over all catalogs on BOTH sides say so
A scenario is kept when it has at least one patch pair that is not ordinary.
"""
import math

from props.c01 import offset, vec

NARROW, MID = 0.3, 0.5
HALF_HEIGHT = 0.12
ROLES = ("largest", "middle", "sparse")
CATS = ("ref", "unk", "rand")
# catalogs whose extents enter one linkage, and the catalog pairs counted with it
LINKAGES = {"cross": (("ref", "unk", "rand"), (("ref", "unk"), ("rand", "unk"))),
            "auto": (("ref", "rand"), (("ref", "ref"), ("ref", "rand"), ("rand", "rand")))}


def ang(u, v):
    """great-circle angle [deg] between two unit vectors"""
    c = math.sqrt((u[0] - v[0]) ** 2 + (u[1] - v[1]) ** 2 + (u[2] - v[2]) ** 2)
    return math.degrees(2.0 * math.asin(min(1.0, c / 2.0)))


def layout(rng, p_deg):
    """the shape of a scenario: centres, rows per patch and west / east extent per catalog, patch and side [deg]"""
    npatch = rng.choice([3, 3, 4])
    gaps = []
    for k in range(npatch - 1):
        gaps.append(rng.uniform(1.7, 2.1) if (k == 0 or rng.random() < 0.75) else rng.uniform(4.5, 5.0))
    rng.shuffle(gaps)
    xs = [0.0]
    for g in gaps:
        xs.append(xs[-1] + g)
    cents = [offset(40.0, 10.0, x * p_deg, (k % 2) * 0.2 * p_deg) for k, x in enumerate(xs)]
    roles = list(ROLES); rng.shuffle(roles)
    role = dict(zip(CATS, roles))
    nlarge = rng.choice([9, 10, 11])
    rows = {"largest": nlarge, "middle": nlarge if rng.random() < 0.15 else rng.choice([5, 6, 7]), "sparse": rng.choice([2, 3])}
    extent = {}
    for c in CATS:
        per_patch = []
        for k in range(npatch):
            sides = []
            for nb in (k - 1, k + 1):   # west neighbour, east neighbour
                gap = gaps[min(k, nb)] if 0 <= nb < npatch else 2.0
                wide = min(gap, 2.4) / 2.0 - 0.1
                # the largest catalog is mostly narrow (randoms with the smaller footprint), the others mostly not
                kinds = ("narrow", "narrow", "mid", "wide") if role[c] == "largest" else ("narrow", "mid", "wide", "wide")
                kind = rng.choice(kinds)
                sides.append((kind, {"narrow": NARROW, "mid": MID, "wide": wide}[kind]))
            per_patch.append(sides)
        extent[c] = per_patch
    return dict(npatch=npatch, gaps=gaps, cents=cents, role=role, rows={c: rows[role[c]] for c in CATS}, extent=extent)


def points(rng, lay, p_deg, cat):
    """objects of one catalog: per patch a strip with an object near each tip; -> (points [deg], patch of each point)"""
    pts, owner = [], []
    n = lay["rows"][cat]
    for k, c in enumerate(lay["cents"]):
        (_, west), (_, east) = lay["extent"][cat][k]
        dxs = [-west * rng.uniform(0.93, 1.0), east * rng.uniform(0.93, 1.0)]
        dxs += [rng.uniform(-west, east) for _ in range(n - 2)]
        for dx in dxs[:n]:
            pts.append(offset(c[0], c[1], dx * p_deg, rng.uniform(-HALF_HEIGHT, HALF_HEIGHT) * p_deg))
            owner.append(k)
    return pts, owner


def classify(lay, cats, p_deg):
    """cats: name -> (points [deg], owner).  -> {linkage: {"ordinary" | "one-sided" | "bridge": number of patch pairs}},
    and the list of the patch pairs that are not ordinary (for the replay record)"""
    cen = [vec(c) for c in lay["cents"]]
    npatch = lay["npatch"]
    v = {c: [vec(q) for q in cats[c][0]] for c in cats}
    own = {c: cats[c][1] for c in cats}
    rad = {c: [max([ang(u, cen[k]) for u, o in zip(v[c], own[c]) if o == k] or [0.0]) for k in range(npatch)] for c in cats}
    out, special = {}, []
    for name, (members, measured) in LINKAGES.items():
        big = max(members, key=lambda c: len(v[c]))
        ext = [max(rad[c][k] for c in members) for k in range(npatch)]
        hist = {"ordinary": 0, "one-sided": 0, "bridge": 0}
        for i in range(npatch):
            for j in range(npatch):
                if i == j:
                    continue
                holds = any(p_deg / 8.0 < ang(a, b) <= p_deg
                            for x, y in measured
                            for a, oa in zip(v[x], own[x]) if oa == i
                            for b, ob in zip(v[y], own[y]) if ob == j)
                if not holds:
                    continue
                d = ang(cen[i], cen[j])
                if d <= rad[big][i] + rad[big][j] + p_deg:
                    kind = "ordinary"
                elif d <= rad[big][i] + ext[j] + p_deg or d <= ext[i] + rad[big][j] + p_deg:
                    kind = "one-sided"
                else:
                    kind = "bridge"
                hist[kind] += 1
                if kind != "ordinary":
                    special.append((name, i, j, kind))
        out[name] = hist
    return out, special


def describe(lay):
    """the layout as a replay record"""
    return dict(npatch=lay["npatch"], centre_gaps_in_p=[round(g, 4) for g in lay["gaps"]], role=lay["role"], rows_per_patch=lay["rows"],
                extent_west_east={c: [[s[0] for s in sides] for sides in lay["extent"][c]] for c in CATS})


def split_mask(rng, owner, frac):
    """a split of a catalog into two parts that both keep every patch populated where the catalog has two or more objects in
    it: per patch about frac of the objects (at least one, not all) go to the first part.  None when some patch has one object"""
    mask = [False] * len(owner)
    for k in sorted(set(owner)):
        idx = [i for i, o in enumerate(owner) if o == k]
        if len(idx) < 2:
            return None
        rng.shuffle(idx)
        take = max(1, min(len(idx) - 1, int(round(frac * len(idx)))))
        for i in idx[:take]:
            mask[i] = True
    return mask
