"""C13 - scenarios in which the catalogs of one measurement do NOT share a footprint.

The catalogs of a measurement share the patch centres, not the extent of the data inside a patch: the data may reach
beyond the randoms in one patch and stay well inside them in the next, one catalog may be much sparser than the others,
and which catalog holds the most rows (the one the code takes the patch geometry from) is one more accident.  The pair
counting visits only "linked" patch pairs, and the link test is made from the extents of ALL catalogs around the shared
centres - so which pairs are counted could depend on patch numbering, on which catalog is the largest and on how a
catalog is split.  The property says it does not.

Layout (all lengths in units of p = the largest counted angle, i.e. the upper scale limit at the centre of the first
redshift bin; L = lam * p >= p is the angle a linkage has to allow for - for scales given as physical lengths the code takes
the angle at the lower end of the redshift range, 1.35 p here, for angular scales L = p): a chain of 3-4 patch centres running
east-west (alternate centres a little north), neighbouring centres s = L + 0.7 .. 1.1 p apart ("close": linked only through
the extents) or L + 3.5 .. 4 p apart (never linked).  Per catalog and patch the
objects fill a thin east-west strip [-west, +east] x [-0.12 p, 0.12 p] around the centre, west / east being narrow (0.3 p),
mid (0.5 p + 0.6 (L - p)) or wide (s/2 - 0.1 p: up to the border of the patch) per catalog, patch and side (drawn per patch type, see
[layout]), with one object near each tip so that a sparse catalog realises its extent too.  Two narrow strips facing each other across a close border
hold no pair within p (gap >= 1.1 p); a wide strip facing a narrow one mostly does (gap s/2 - 0.2 p).

Roles: one catalog is the largest (9-11 rows per patch), one is in between (5-7, sometimes as many as the largest), one
is sparse (2-3); which of ref / unk / rand plays which role is drawn.

[classify] describes a scenario from the positions alone (float arithmetic, implementation-independent): for the
catalogs that enter one linkage (cross-correlation: ref, unk, rand; autocorrelation: ref, rand) and every pair of
distinct patches that holds a pair of objects of two measured catalogs within (p/8, p]:
  ordinary    - the extents of the largest catalog alone already say the patches may hold such a pair
                (d <= r_L[i] + r_L[j] + L)
  either-side - they do not, but taking the extent over all catalogs on either ONE of the two sides is enough
  one-sided   - it is enough on one particular side only (the patch whose data reach beyond the largest catalog)
  bridge      - only the extents over all catalogs on BOTH sides say so
[draw] keeps a scenario that has such a patch pair (one-sided or bridge) in both linkages where it finds one within 25 draws.
"""
import math

from props.c01 import offset, vec

NARROW, MID = 0.3, 0.5
HALF_HEIGHT = 0.12
ROLES = ("largest", "middle", "sparse")
CATS = ("ref", "unk", "rand")
# catalogs whose extents enter one linkage, and the catalog pairs counted with it
LINKAGES = {"cross": (("ref", "unk", "rand"), (("ref", "unk"), ("rand", "unk"))),
            "auto": (("ref", "rand"), (("ref", "ref"), ("ref", "rand"), ("rand", "rand")))}


def ang(u, v):
    """great-circle angle [deg] between two unit vectors"""
    c = math.sqrt((u[0] - v[0]) ** 2 + (u[1] - v[1]) ** 2 + (u[2] - v[2]) ** 2)
    return math.degrees(2.0 * math.asin(min(1.0, c / 2.0)))


PATCH_TYPES = ("compact", "compact", "others-wider", "others-wider", "others-wider", "others-reach", "others-reach", "others-reach", "others-reach",
               "largest-reaches", "all-reach")


def layout(rng, p_deg, lam=1.0):
    """the shape of a scenario: centres, rows per patch and west / east extent per catalog, patch and side [deg].
    A patch has ONE radius per catalog (its farthest object, on whichever side), so the extents are drawn per patch type:
      compact         - every catalog narrow / mid on both sides
      others-wider    - the largest catalog narrow, the others mid, on both sides (data a little beyond the randoms all around)
      others-reach    - the largest catalog narrow / mid; one or both of the others wide on ONE side (data beyond the randoms)
      largest-reaches - the largest catalog wide on one side, the others narrow / mid (data well inside the randoms)
      all-reach       - every catalog wide on one side (the ordinary shared footprint)"""
    npatch = rng.choice([3, 3, 4])
    gaps = []
    for k in range(npatch - 1):
        gaps.append(lam + (rng.uniform(0.7, 1.1) if (k == 0 or rng.random() < 0.75) else rng.uniform(3.5, 4.0)))
    rng.shuffle(gaps)
    xs = [0.0]
    for g in gaps:
        xs.append(xs[-1] + g)
    cents = [offset(40.0, 10.0, x * p_deg, (k % 2) * 0.2 * p_deg) for k, x in enumerate(xs)]
    roles = list(ROLES); rng.shuffle(roles)
    role = dict(zip(CATS, roles))
    nlarge = rng.choice([9, 10, 11])
    rows = {"largest": nlarge, "middle": nlarge if rng.random() < 0.15 else rng.choice([6, 7, 8]), "sparse": rng.choice([2, 3])}
    extent = {c: [] for c in CATS}
    types = []
    for k in range(npatch):
        ptype = rng.choice(PATCH_TYPES)
        side = rng.choice([0, 1])                    # the side that reaches out: 0 west, 1 east
        if not 0 <= k + (2 * side - 1) < npatch and rng.random() < 0.8:
            side = 1 - side                          # mostly towards a neighbour
        nb = k + (2 * side - 1)
        gap = gaps[min(k, nb)] if 0 <= nb < npatch else lam + 1.0
        wide = min(gap, lam + 1.4) / 2.0 - 0.1
        mid = MID + 0.6 * (lam - 1.0)
        others = [c for c in CATS if role[c] != "largest"]
        reaching = {"compact": [], "others-wider": [], "others-reach": rng.choice([others, others[:1], others[1:]]),
                    "largest-reaches": [c for c in CATS if role[c] == "largest"], "all-reach": list(CATS)}[ptype]
        for c in CATS:
            sides = []
            for sd in (0, 1):
                if c in reaching and sd == side:
                    sides.append(("wide", wide))
                elif ptype == "others-wider":
                    kind = "narrow" if role[c] == "largest" else "mid"
                    sides.append((kind, {"narrow": NARROW, "mid": mid}[kind]))
                else:
                    kind = rng.choice(("narrow", "narrow", "mid"))
                    sides.append((kind, {"narrow": NARROW, "mid": mid}[kind]))
            extent[c].append(sides)
        types.append("%s-%s" % (ptype, "we"[side]) if ptype != "compact" else ptype)
    return dict(npatch=npatch, gaps=gaps, cents=cents, role=role, rows={c: rows[role[c]] for c in CATS}, extent=extent, types=types)


def points(rng, lay, p_deg, cat):
    """objects of one catalog: per patch a strip with an object near each tip; -> (points [deg], patch of each point)"""
    pts, owner = [], []
    n = lay["rows"][cat]
    for k, c in enumerate(lay["cents"]):
        (_, west), (_, east) = lay["extent"][cat][k]
        dxs = [-west * rng.uniform(0.93, 1.0), east * rng.uniform(0.93, 1.0)]
        dxs += [rng.uniform(-west, east) for _ in range(n - 2)]
        for dx in dxs[:n]:
            pts.append(offset(c[0], c[1], dx * p_deg, rng.uniform(-HALF_HEIGHT, HALF_HEIGHT) * p_deg))
            owner.append(k)
    return pts, owner


def classify(lay, cats, p_deg, lam=1.0):
    """cats: name -> (points [deg], owner).  -> {linkage: {"ordinary" | "one-sided" | "bridge": number of patch pairs}},
    and the list of the patch pairs that are not ordinary (for the replay record)"""
    cen = [vec(c) for c in lay["cents"]]
    npatch = lay["npatch"]
    link = lam * p_deg
    v = {c: [vec(q) for q in cats[c][0]] for c in cats}
    own = {c: cats[c][1] for c in cats}
    rad = {c: [max([ang(u, cen[k]) for u, o in zip(v[c], own[c]) if o == k] or [0.0]) for k in range(npatch)] for c in cats}
    out, special = {}, []
    for name, (members, measured) in LINKAGES.items():
        big = max(members, key=lambda c: len(v[c]))
        ext = [max(rad[c][k] for c in members) for k in range(npatch)]
        hist = {"ordinary": 0, "either-side": 0, "one-sided": 0, "bridge": 0}
        for i in range(npatch):
            for j in range(npatch):
                if i == j:
                    continue
                holds = any(p_deg / 8.0 < ang(a, b) <= p_deg
                            for x, y in measured
                            for a, oa in zip(v[x], own[x]) if oa == i
                            for b, ob in zip(v[y], own[y]) if ob == j)
                if not holds:
                    continue
                d = ang(cen[i], cen[j])
                own_i = d <= rad[big][i] + ext[j] + link     # the largest catalog's own extent for patch i suffices
                own_j = d <= ext[i] + rad[big][j] + link
                if d <= rad[big][i] + rad[big][j] + link:
                    kind = "ordinary"
                elif own_i and own_j:
                    kind = "either-side"
                elif own_i or own_j:
                    kind = "one-sided"
                else:
                    kind = "bridge"
                hist[kind] += 1
                if kind in ("one-sided", "bridge"):
                    special.append((name, i, j, kind))
        out[name] = hist
    return out, special


def draw(rng, p_deg, lam=1.0, attempts=25):
    """-> (layout, {catalog: (points, owner)}, histogram, special patch pairs): the best of up to [attempts] draws"""
    best = None
    for _ in range(attempts):
        lay = layout(rng, p_deg, lam)
        drawn = {c: points(rng, lay, p_deg, c) for c in CATS}
        hist, special = classify(lay, drawn, p_deg, lam)
        score = len({x[0] for x in special})
        if best is None or score > best[0]:
            best = (score, lay, drawn, hist, special)
        if score == 2:
            break
    return best[1:]


def describe(lay):
    """the layout as a replay record"""
    return dict(npatch=lay["npatch"], patch_types=lay["types"], centre_gaps_in_p=[round(g, 4) for g in lay["gaps"]], role=lay["role"], rows_per_patch=lay["rows"],
                extent_west_east={c: [[s[0] for s in sides] for sides in lay["extent"][c]] for c in CATS})


def split_mask(rng, owner, frac):
    """a split of a catalog into two parts that both keep every patch populated where the catalog has two or more objects in
    it: per patch about frac of the objects (at least one, not all) go to the first part.  None when some patch has one object"""
    mask = [False] * len(owner)
    for k in sorted(set(owner)):
        idx = [i for i, o in enumerate(owner) if o == k]
        if len(idx) < 2:
            return None
        rng.shuffle(idx)
        take = max(1, min(len(idx) - 1, int(round(frac * len(idx)))))
        for i in idx[:take]:
            mask[i] = True
    return mask
