"""C06 — MPI runs terminate and the root rank gets the single-process result.

Tie: the unchanged source is run under a fake `mpi4py` (harness/sim/mpi4py: ranks = threads,
wildcard matching and eager/synchronous completion decided by a seeded schedule), one
interpreter process per simulated world size (harness/props/c06_driver.py), several fresh
worlds per process.
 (i)  `parallel.iter_unordered` — the communication log of every run is translated event by
      event into choices of Model/Dispatch.v and replayed in Coq (`c06_dispatch_case`): every
      event must be enabled, the model's yield order must equal the root's, and the root must
      have got map f tasks as a multiset, every task executed once (model of the REPAIRED
      algorithm: root fallback when no worker rank is allowed).  For <= 3 tasks all sequences of
      wildcard choices are enumerated.
 (i') jobs that FAIL (repo commit 32238ed): `iter_unordered` with a job function that raises for chosen
      task values (none, some, all), world sizes 2-5, every max_workers setting, eager / synchronous /
      mixed sends, seeded wildcard policies and, for small task lists, every sequence of wildcard
      choices.  The log is replayed through the EXTENDED step function of Model/Dispatch.v
      (`c06_edispatch_case`: worker ships the error, root remembers the first one, stops yielding and
      handing out tasks, drains the workers with sentinels, closing broadcast of the error flag): every
      event must be enabled, the model must end with the observed yields (order), executed tasks and
      per-rank outcome (returned / raised the error of task t).  Not returning on some rank, or ranks
      that end differently, is a failing input (`c06-job-error-...`).  The refusal classes whose job
      raises on a worker rank (group C) are replayed the same way: the driver cuts the run into its
      iter_unordered episodes (begin/end marks per rank in the simulator log, c06_driver.IterTracer).
 (i'') the CONSUMER of the iterator.  Every caller in the library exhausts it - dict comprehension, deque(maxlen=0), for
      loop, each through utils.logging.Indicator when progress=True.  The dispatch jobs of (i) and (i') are consumed in
      all these ways (c06_driver.wrap_consumer; incl. Indicator with / without the number of items): every rank must
      return, root result as in (i).  A consumer that asks for at most k items (islice, a loop that breaks): k > number
      of tasks is an ordinary run; k <= number of tasks is NOT an input of the property (no entry point stops early) -
      Model/Dispatch.v (qstep) says that no run can then end with all ranks returned (C06_consumer_stop_never_done,
      ..._gets_stuck, ..._after_last_item_refuted); the log is replayed through qstep_with (`c06_qdispatch_case`), the
      model must end stopped with every worker quiet exactly when only the root came back - a difference is a broken tie.
 (ii) `Catalog.from_dataframe` (MPI write pipeline), `Catalog(cache)`, `build_trees`,
      `autocorrelate`, `crosscorrelate`, `HistData.from_catalog`, `HistData.to_files/from_files`,
      `CorrFunc.to_file/from_file`: root results must equal the single-process run computed in
      this process (no MPI), all ranks must return.  The OPTIONAL KEYWORD ARGUMENTS of these calls are part of the
      input (draw_opts; meaning: c06_common above stage_create): progress=True per operation, chunksize extremes
      (1, 2, n-1, n, n+1, >n, library default), patch_num + probe_size (patch centres made by the library), leafsize,
      a second build_trees with force=True/False, count_rr, the worker limit through Configuration.max_workers or
      per operation.  The single-process reference is the SAME call with the SAME optional arguments (world_reference).
 (ii') NODE LAYOUTS.  The ranks of a world may report different processor names (sched.hosts -> MPI.Get_processor_name per rank):
      two nodes with equal shares, the root's node ranks not contiguous (the writer is not rank 1), the root alone on its node,
      three nodes, workers spread unevenly, the worker limit below / equal to / above the number of ranks on the root's node.
      Such worlds run everything of (ii) and (iii) - every source and option, load, trees, measurements, I/O, refused requests -
      with the same comparison against the single-process run.  In addition EVERY creation run (one node or several) is checked
      against Model/MpiWrite.v (`c06_layout_case`): writer and processing ranks observed in the log = the first
      min(max_workers or size, size) ranks on the root's node, every chunk cut as numpy.array_split over the processing ranks,
      records turned into patch dictionaries = input records = records of the root's catalog (write conservation;
      C06_layout_no_loss).  A layout without a second allowed rank on the root's node is not an input the property promises a
      catalog for: there the creation may be refused, on every rank and the same way (counted), everything else must work.
 (iii) error paths: requests that the single-process run REFUSES by raising (c06_common.REFUSALS:
      probe larger than the random sample, centre without records, no patch method, existing cache
      without overwrite, non-finite values, missing column / file / cache, different patch ids,
      misaligned centres, catalogs without redshifts ...) are issued on every rank of a world,
      followed by a barrier and a valid operation in the SAME world: every rank must return from
      all of it, the root's request must end as in the single-process run (raise / return), the
      root's result of the follow-up operation must be the single-process one.  The collective
      calls logged per communicator are checked against Model/MpiWrite.v (`c06_refusal_case`:
      all ranks returned -> all members entered the same sequence of collectives).  Refusals that
      only one rank detects hang on the pinned tree (finding F23): one deterministic probe per
      class in every run.
 (iv) ranks as separate OS PROCESSES living across SEVERAL library calls (harness/props/c06_procworld.py).  The world of (i)-(iii)
      runs the ranks as threads of one interpreter, so every module-level object of the library is shared by all ranks and state
      that goes stale on some ranks only cannot show.  Here a zygote interpreter forks one process per rank; each child installs
      a stand-in mpi4py (messages over multiprocessing queues) and then imports the tree under test, as under mpiexec.  Every rank
      runs the same MULTI-CALL history on a few cache paths - create, measure, re-create another catalog at the same path
      (overwrite=True) from other data (also with the same number of records), measure again, build trees with another binning,
      re-open, write / read result files at a re-used path - drawn from a small grammar, 2-5 ranks, eager / synchronous / mixed
      sends, seeded wildcard policies, one or two nodes.  Oracles: the root's result of every call = the single-process run of
      the same history; every rank returns (a rank that does not come back = hang, reported with the call); in `probe` steps EVERY
      rank reads the trees through the library's reader and must get the trees of the data that is in the cache now (records and
      weight sums per patch and bin computed by the harness from the generating columns).  The (re)build / read history is
      replayed in Coq (`c06_memo_case`, Model/RankMemo.v; theorems C06_world_*).
 (v)  jobs that fail TRANSIENTLY and the NUMBER OF TIMES a job is executed (harness/props/c06_faults.py, Model/DispatchRetry.v).
      (i') lets a job fail as a fixed property of the task, with one plain exception class, and counts task MESSAGES.  Here the
      job function records EVERY execution (task, rank, number of earlier executions of that task, failed?) and fails as PLANNED:
      which tasks; with which exception - OSError with every errno of the platform (EIO, EAGAIN, ESTALE, EBUSY, ETIMEDOUT, EINTR,
      ENOMEM, ECONNRESET ...; Python turns errno into BlockingIOError, TimeoutError, ConnectionResetError ...), with and without
      file name, TimeoutError / ConnectionError / MemoryError / BlockingIOError / InterruptedError ... without errno, classes of
      the standard library, own subclasses of all of these (230 kinds; the named ones are used in turn in every run); WHEN - on
      the first execution of a task only, on every execution, on given ranks only; before or after the job body has run.
      Runs: `iter_unordered` directly (2-5 ranks, every max_workers, eager / sync / mixed, seeded wildcard policies, every
      sequence of wildcard choices for small lists) and the ENTRY POINTS that map through it - Catalog(cache) (Patch jobs),
      build_trees (BinnedTrees.build), autocorrelate / crosscorrelate (process_patch_pair) and HistData.from_catalog
      (_redshift_histogram) - as request class group T of (iii) (c06_common.fault_request: a plan names the call of
      iter_unordered, the items, the exception, when), followed by a barrier and a valid operation in the same world.
      Oracle = the statement: no task is executed twice; the ranks raise iff some execution failed, and then the exception
      (task, class, errno) of a failed execution; without an error every task was executed once and the root got map f tasks;
      where failing does not depend on the rank the ranks raise iff the single-process run does (for the entry points: the
      single-process run of the same request with the same plan).  Evaluated in Coq (`c06_xdispatch_case`), which also replays
      the run - task messages, executions with their outcome, result messages, closing broadcast - through the model of the
      worker that executes ONCE (xrun POnce): a second execution of a task is an event the model does not offer.
"""
import json
import os
import random
import shutil
import signal
import subprocess
import time
from concurrent.futures import ThreadPoolExecutor

from lib import floatq as fq
from lib import impl  # noqa: F401  (imports yaw from the tree under test, without MPI)
from props import c06_common as cc
from props import c06_faults as cf
from props import c06_procworld as procw

ALLOWED_AXIOMS = []
TRUSTED = [
    "fake MPI world harness/sim/mpi4py (python): per-(communicator, sender, receiver) FIFO queues, wildcard receive "
    "matched at quiescence with a schedule-chosen sender, eager vs synchronous completion per send, collectives "
    "complete when all members entered the same call, deadlock = quiescent and nothing enabled; its self-check "
    "(13 items) runs every time",
    "translation of the communication log into model choices (harness/props/c06.py:translate; failing jobs: etranslate - "
    "the root's answer to a received result, the `WorkerError` in the payload summary of that result and whether an earlier "
    "result was one decide more / last / first error / drained; message sequence numbers link a receive to its send)",
    "refusal runs of group C: harness/props/c06_driver.py:IterTracer replaces the module attribute `parallel.iter_unordered` in "
    "the driver process (never in the tree under test) by a generator that delegates to the original, puts begin/end marks per "
    "rank into the simulator log, materialises the root's iterable to count its items and wraps the job function to record "
    "returned/raised per call; the exception types and messages per rank are what the caller of iter_unordered sees",
    "refusal runs: extraction of the per-communicator collective call sequences from the simulator log "
    "(harness/props/c06_driver.py:collective_traces); point-to-point traffic is not part of that model, so the Coq "
    "side checks a necessary condition (all ranks returned -> aligned), the verdict itself is the observed return of every rank",
    "consumer-stop runs (i''): translation of the log into qchoices (harness/props/c06.py:qtranslate - the root's receive that "
    "is not followed by an answer to that worker is QStopRecv, the last task the job function ran on the root QStopFallback); these "
    "runs only tie the model of the early-stopping consumer to the implementation, they never produce a failing input",
    "worlds with create_mode='num' (patch centres from the library's k-means, which is not seeded): only the union of the stored "
    "records, their number and the total weight are compared with the single-process run; a run in which the k-means leaves a "
    "centre without records (refused on every rank) is counted and not compared",
    "a real MPI library, real transport, eager limits, non-synchronising collectives, file systems that are not shared "
    "between nodes, pickling of real mpi4py communicators are NOT exercised (not installed)",
    "node layouts: harness/sim/mpi4py answers MPI.Get_processor_name() per rank from the schedule (`hosts`); the writer and the "
    "processing ranks of a creation run and the records per patch dictionary are read from the simulator log "
    "(harness/props/c06.py:write_observation: tag-1 messages on COMM_WORLD up to the reader's end-of-queue sentinel, payload "
    "summary 'dict:{patch:records}')",
    "process worlds (iv): harness/props/c06_procworld.py - the stand-in mpi4py of the rank processes (class ProcComm: one multiprocessing "
    "queue per rank, per-sender FIFO matching on (communicator, tag), ANY_SOURCE chosen by a seeded policy among the senders whose "
    "oldest matching message has arrived, synchronous sends acknowledged at the matching receive, collectives = point-to-point messages "
    "with reserved tags, Split by allgather); its self-check (3 processes) runs every time.  Which rank receives which message first is "
    "decided by the operating system's scheduling and is NOT replayable exactly; a replay re-runs the same history with the same "
    "world parameters",
    "process worlds: the oracle of the per-rank tree reads (c06_procworld.oracle_trees: patch of a record = the centre it was generated "
    "around, bin membership by the harness' own comparisons on the generated redshifts k/128 and the bin edges given as input, sums of "
    "weights k/8 exact) and the naming of what a rank read as a version of its cache path (c06_procworld.memo_history)",
    "transient failures (v): harness/props/c06_faults.py - the job function of the direct runs and, for the entry points, the wrapper "
    "of the job function installed where IterTracer wraps `parallel.iter_unordered` (driver process only; single-process reference: "
    "c06_faults.ensure_installed) record every execution (simulator log op `xexec` + the job's own list, compared) and raise the "
    "planned exception; items of a library call are tagged with their position on the root (worker ranks get unpickled copies) and the "
    "binding of func_args / func_kwargs / unpack (3 lines of utils.parallel.ParallelJob) is done by the wrapper; the rank and task of "
    "a raised error are read from its message, its class from type(err).__name__ and err.errno; translation of the log into xchoices "
    "(harness/props/c06.py:xtranslate)",
]
ASSUMPTIONS = [
    "ranks are threads of one interpreter and share one file system, also when they report different processor names",
    "collectives synchronise (the most blocking behaviour the MPI standard allows)",
    "data weights/redshifts are small dyadic numbers, so float sums are exact and order independent",
    "a refused request is one that the single-process run of the same tree ends by raising; its exception type is the reference "
    "for the root rank, the other ranks only have to return",
    "process worlds (iv): the ranks are separate OS processes on ONE machine sharing one file system (fork of an interpreter that has "
    "imported the third-party packages but neither yaw nor an mpi4py); a world that has not ended after 150 s is a hang",
    "transient failures (v): the exception a job raises is an Exception (not KeyboardInterrupt / SystemExit / StopIteration) that survives "
    "pickling with class, arguments and errno (c06_faults.usable checks every kind before use); an execution that fails `after` the job "
    "body has run all its side effects",
]
RULE = ("dispatch cases = (world size, max_workers, rank0_node_only/hosts, send mode, wildcard policy+seed or explicit "
        "choice sequence, task list, consumer kind, item limit of the consumer); pipeline cases = (world size, max_workers, send mode, "
        "policy, seed, data spec, optional keyword arguments of the entry points, processor name per rank); distinct by that tuple; consumer-stop cases = "
        "dispatch tuple with an item limit <= number of tasks, non-trivial on >= 2 ranks; non-trivial when some wildcard receive had >= 2 candidate senders "
        "(the schedule actually decided something); failing-job cases = dispatch tuple + the task values the job raises for, "
        "non-trivial when that set is not empty; iter_unordered episodes of group C refusal runs = (refusal case, call number), "
        "non-trivial when the job raised in it; refusal cases = (refusal class, its parameters, follow-up "
        "operation, world size, max_workers, send mode, policy, seed, data spec); non-trivial when the single-process "
        "run raises and at least two ranks took part; process-world cases = (history of library calls with their data and binnings, world "
        "size, max_workers, send mode, wildcard policy, seed, jitter, processor names), non-trivial when >= 2 ranks and some call comes "
        "after an earlier call / overwrite / tree rebuild on a cache path it uses; transient-failure cases = dispatch tuple + fault plan "
        "(items, exception kinds, first / always / ranks, before / after) resp. (group T request, call number of iter_unordered) + world tuple, "
        "non-trivial when some execution failed on a world of >= 2 ranks")

HEADER = "From Verif Require Import Prelude Dispatch.\nOpen Scope nat_scope.\n"
HERE = os.path.dirname(os.path.abspath(__file__))
DRIVER = os.path.join(HERE, "c06_driver.py")
SIM = os.path.normpath(os.path.join(HERE, "..", "sim"))
REPO_SRC = os.environ.get("VERIF_REPO_SRC", "/repo/src")
EOQ = "class:EndOfQueue"

HEADER_R = "From Verif Require Import Prelude Dispatch MpiWrite.\nOpen Scope nat_scope.\n"
HEADER_X = "From Verif Require Import Prelude Dispatch DispatchRetry.\nOpen Scope nat_scope.\n"
F13A = "c06-maxworkers1-no-task-executed"
F13B = "c06-write-sentinel-overtakes-eager"


# ------------------------------------------------------------------------------------------
# running worlds
# ------------------------------------------------------------------------------------------
_procs = []


def launch(ctx, wid, job):
    d = os.path.join(ctx.workdir, "world_%s" % wid)
    os.makedirs(d, exist_ok=True)
    jp, op = os.path.join(d, "job.json"), os.path.join(d, "out.json")
    job.setdefault("timeout", 60.0)
    job.setdefault("process_limit", 240.0)
    with open(jp, "w") as fh:
        json.dump(job, fh)
    env = dict(os.environ, PYTHONPATH=SIM + ":" + REPO_SRC, VERIF_REPO_SRC=REPO_SRC, YAW_NUM_THREADS="1",
               PYTHONHASHSEED="0", PYTHONDONTWRITEBYTECODE="1", OMP_NUM_THREADS="1",
               OPENBLAS_NUM_THREADS="1", MKL_NUM_THREADS="1")
    t0 = time.time()
    p = subprocess.Popen(["/venv/bin/python", DRIVER, jp, op], env=env, stdout=subprocess.PIPE,
                         stderr=subprocess.STDOUT, text=True, start_new_session=True)
    _procs.append(p)
    killed = False
    try:
        stdout, _ = p.communicate(timeout=job["process_limit"] + 30)
    except subprocess.TimeoutExpired:
        killed = True
        try:
            os.killpg(p.pid, signal.SIGKILL)
        except ProcessLookupError:
            pass
        stdout, _ = p.communicate()
    out = None
    if os.path.exists(op):
        try:
            out = json.load(open(op))
        except Exception:
            out = None
    return dict(wid=wid, rc=p.returncode, killed=killed, out=out, stdout=(stdout or "")[-3000:],
                wall=round(time.time() - t0, 2), dir=d)


def reap():
    """no stray driver processes may survive the check"""
    stray = 0
    for p in _procs:
        if p.poll() is None:
            stray += 1
            try:
                os.killpg(p.pid, signal.SIGKILL)
            except ProcessLookupError:
                pass
            p.wait()
    return stray


# ------------------------------------------------------------------------------------------
# (i) dispatch: plan, log translation, Coq term
# ------------------------------------------------------------------------------------------
def ranks_of(size, mw, node_only, hosts):
    """the set `ranks` of iter_unordered, computed from the documentation of its arguments"""
    k = min(mw or size, size)
    if not node_only:
        return list(range(k))
    hosts = hosts or ["node0"] * size
    return [i for i in range(size) if hosts[i] == hosts[0]][:k]


# how the caller consumes the iterator (c06_driver.wrap_consumer).  All of these exhaust it, as every caller in the
# library does; "indicator*" = through utils.logging.Indicator, i.e. what progress=True does in load_patches,
# build_trees, count_pairs and HistData.from_catalog
CONSUMERS = ["list", "list", "for", "dict", "deque", "enumerate", "gen", "chain", "indicator", "indicator", "indicator-for",
             "indicator-for", "indicator-nolen"]
LAZY_CONSUMERS = ["for", "for", "deque", "enumerate", "gen", "chain", "indicator-for", "indicator-for", "indicator-nolen"]


def dispatch_jobs(ctx, size, mode, batch):
    rng = ctx.rng
    jobs = []
    mws = [None, 1, 2, 3, size]
    mws = [m for i, m in enumerate(mws) if m is None or (m <= size and m not in mws[:i])]
    nts = [0, 1, 2, 3, 5, 8] if ctx.quick() else [0, 1, 2, 3, 4, 6, 9, 13]
    nseeds = 1 if ctx.quick() else 2
    for mw in mws:
        for nt in nts:
            for _ in range(nseeds):
                tasks = rng.sample(range(0, 900), nt)
                pol = rng.choice(["random", "random", "random", "low", "high", "fifo", "lifo"])
                jobs.append(dict(kind="dispatch", tasks=tasks, max_workers=mw, consumer=rng.choice(CONSUMERS),
                                 sched=dict(mode=mode, policy=pol, seed=rng.randrange(10 ** 6))))
    # rank0_node_only, one and several host names (several hosts: modelled only)
    for nt in (3, 6):
        jobs.append(dict(kind="dispatch", tasks=rng.sample(range(900), nt), max_workers=rng.choice([None, 2, size]),
                         node_only=True, consumer=rng.choice(CONSUMERS),
                         sched=dict(mode=mode, policy="random", seed=rng.randrange(10 ** 6))))
        if size >= 3:
            hosts = ["a"] + [rng.choice(["a", "b"]) for _ in range(size - 1)]
            if "a" not in hosts[1:]:
                hosts[rng.randrange(1, size)] = "a"
            jobs.append(dict(kind="dispatch", tasks=rng.sample(range(900), nt), max_workers=rng.choice([None, size]),
                             node_only=True, consumer=rng.choice(CONSUMERS),
                             sched=dict(mode=mode, policy="random", seed=rng.randrange(10 ** 6), hosts=hosts)))
    # several processor names WITHOUT rank0_node_only (what every entry point but the creation does): they do not matter
    if size >= 3:
        jobs.append(dict(kind="dispatch", tasks=rng.sample(range(900), 5), max_workers=rng.choice([None, 2, size]),
                         consumer=rng.choice(CONSUMERS),
                         sched=dict(mode=mode, policy="random", seed=rng.randrange(10 ** 6), hosts=host_names(draw_layout(rng, size)))))
    # every sequence of wildcard choices for small task lists
    if mode != "mixed" and batch == 0:
        for nt in ([2, 3] if ctx.quick() else [1, 2, 3, 4]):
            jobs.append(dict(kind="dispatch", tasks=list(range(10, 10 + nt)), max_workers=None, exhaustive=True,
                             maxruns=400, consumer="indicator" if nt == 2 else "list", sched=dict(mode=mode, seed=0)))
        jobs.append(dict(kind="dispatch", tasks=[7, 8, 9], max_workers=2, exhaustive=True, maxruns=100, consumer="indicator-for",
                         sched=dict(mode=mode, seed=0)))
    if size == 3 and mode == "eager" and batch == 0:
        jobs.append(dict(kind="selftest"))
    jobs += stop_jobs(ctx, size, mode, batch)
    jobs += joberr_jobs(ctx, size, mode, batch)
    jobs += xfault_jobs(ctx, size, mode, batch)
    for i, j in enumerate(jobs):
        j["id"] = i
    return jobs


def stop_jobs(ctx, size, mode, batch):
    """(i'') a consumer that asks for at most k items (itertools.islice / a loop that breaks).  k > number of tasks: it
    exhausts the iterator - an ordinary run.  k <= number of tasks: a different protocol run, NOT an input of the
    property (no entry point of the library stops early); Model/Dispatch.v (qstep) says that it cannot end with all
    ranks returned - the run is replayed through the model, a difference is a broken tie"""
    rng = ctx.rng
    jobs = []
    for _ in range(ctx.n(3, 5)):
        nt = rng.choice([1, 2, 3, 4, 6])
        k = rng.choice([1, max(1, nt // 2), nt, nt, nt + 1, nt + 4])
        jobs.append(dict(kind="dispatch", tasks=rng.sample(range(900), nt), max_workers=rng.choice([None, None, 1, 2, size]),
                         stop=k, consumer=rng.choice(["islice", "break"]),
                         sched=dict(mode=mode, policy=rng.choice(["random", "low", "high", "fifo"]), seed=rng.randrange(10 ** 6))))
    if mode != "mixed" and batch == 0:
        # stop after the LAST item (the consumer has everything it expects), every sequence of wildcard choices
        jobs.append(dict(kind="dispatch", tasks=[10, 11, 12], max_workers=None, stop=3, consumer="islice", exhaustive=True,
                         maxruns=40 if ctx.quick() else 200, sched=dict(mode=mode, seed=0)))
    return jobs


def translate(log, size, nroot=0):
    """communication log of one iter_unordered run -> list of model choices (strings);
    nroot = number of tasks the job function ran on the root rank (root fallback of the repaired
    _mpi_iter_unordered: after _mpi_root_task, before the barrier)"""
    nworkers = size - 1
    bars = [e[0] for e in log if e[2] == "done:Barrier" and e[5] == 0]
    last_bar = bars[-1] if bars else None
    out, init_sent, init_done = [], 0, False
    for e in log:
        n, rank, op, peer, tag, cid, summ = e[:7]
        if cid != 0:
            continue
        if rank == 0 and init_sent == nworkers and not init_done and (
                (op in ("send", "ssend") and tag == 1) or op == "enter:Barrier"):
            # the root leaves its first pass when it makes its next move (with synchronous sends
            # only after its last first-pass message has been taken)
            out.append("CInitDone")
            init_done = True
        if op in ("send", "ssend") and rank == 0 and tag == 1:
            eoq = summ == EOQ
            if init_sent < nworkers:
                out.append("%s %d" % ("CInitEoq" if eoq else "CInitTask", peer - 1))
                init_sent += 1
            else:
                out.append("%s %d" % ("CRecvLast" if eoq else "CRecvMore", peer - 1))
        elif op == "recv" and rank != 0 and peer == 0 and tag == 1:
            out.append("%s %d" % ("CWEoq" if summ == EOQ else "CWTask", rank - 1))
        elif op == "enter:Barrier" and rank == 0:
            out.extend(["CFallback"] * nroot)
            out.append("CExit")
        elif op == "done:Barrier" and n == last_bar:
            out.append("CBar")
    return out


def qtranslate(log, size, nroot, stopped):
    """communication log of one iter_unordered run whose consumer may have stopped -> qchoices (strings).
    As translate(); the root's receive of a result that is never answered (the consumer stopped at that item) is
    QStopRecv, the last task the root ran itself before the consumer stopped QStopFallback."""
    nworkers = size - 1
    bars = [e[0] for e in log if e[2] == "done:Barrier" and e[5] == 0]
    last_bar = bars[-1] if bars else None
    out, init_sent, init_done = [], 0, False
    pending = None          # (position in out, sender) of the root's last receive while it is unanswered
    for e in log:
        n, rank, op, peer, tag, cid, summ = e[:7]
        if cid != 0:
            continue
        if rank == 0 and init_sent == nworkers and not init_done and (
                (op in ("send", "ssend") and tag == 1) or op == "enter:Barrier" or (op == "recv" and tag == 2)):
            out.append("QRun CInitDone")
            init_done = True
        if op in ("send", "ssend") and rank == 0 and tag == 1:
            eoq = summ == EOQ
            if init_sent < nworkers:
                out.append("QRun (%s %d)" % ("CInitEoq" if eoq else "CInitTask", peer - 1))
                init_sent += 1
            else:
                out.append("QRun (%s %d)" % ("CRecvLast" if eoq else "CRecvMore", peer - 1))
                pending = None
        elif op == "recv" and rank == 0 and tag == 2:
            pending = (len(out), peer)
        elif op == "recv" and rank != 0 and peer == 0 and tag == 1:
            out.append("QRun (%s %d)" % ("CWEoq" if summ == EOQ else "CWTask", rank - 1))
        elif op == "enter:Barrier" and rank == 0:
            out.extend(["QRun CFallback"] * nroot)
            out.append("QRun CExit")
            nroot = 0
        elif op == "done:Barrier" and n == last_bar:
            out.append("QRun CBar")
    if init_sent == nworkers and not init_done:
        out.append("QRun CInitDone")
    if stopped:
        if pending is not None:
            out.insert(pending[0], "QStopRecv %d" % (pending[1] - 1))
        elif nroot:
            out.extend(["QRun CFallback"] * (nroot - 1))
            out.append("QStopFallback")
    return out


def etranslate(log, size, root_calls=""):
    """communication log of ONE iter_unordered episode (COMM_WORLD events) -> choices of the extended model
    (jobs may fail) + what the log itself says about the tasks.  Tasks are numbered in the order the root
    hands them out; message sequence numbers link a receive to its send.
    root_calls: outcome of every call of the job function on the root rank ('K' returned / 'E' raised)."""
    nworkers = size - 1
    out, init_sent, init_done = [], 0, False
    err_seen, first_err, root_bcast = False, None, None
    answered = {}         # worker rank -> (summary of the result the root received last from it, error seen before?)
    task_of_seq, nsent = {}, 0
    cur, executed, failed = {}, [], []
    for e in log:
        n, rank, op, peer, tag, cid, summ = e[:7]
        seq = e[7] if len(e) > 7 else None
        if cid != 0:
            continue
        closing = rank == 0 and op == "enter:bcast" and init_sent == nworkers and root_bcast is None
        if rank == 0 and init_sent == nworkers and not init_done and ((op in ("send", "ssend") and tag == 1) or closing):
            out.append("EInitDone")
            init_done = True
        if op in ("send", "ssend") and rank == 0 and tag == 1:
            eoq = summ == EOQ
            if not eoq:
                task_of_seq[seq] = nsent
                nsent += 1
            if init_sent < nworkers:
                out.append("%s %d" % ("EInitEoq" if eoq else "EInitTask", peer - 1))
                init_sent += 1
            else:
                res, before = answered.pop(peer, ("", False))
                if not eoq:
                    kind = "ERecvMore"          # (after an error the model refuses this choice)
                elif before:
                    kind = "ERecvDrain"
                elif "WorkerError" in res:
                    kind = "ERecvErr"
                else:
                    kind = "ERecvLast"
                out.append("%s %d" % (kind, peer - 1))
        elif op == "recv" and rank == 0 and tag == 2:
            answered[peer] = (summ, err_seen)
            if "WorkerError" in summ and not err_seen:
                err_seen, first_err = True, cur.get(peer)
        elif op == "recv" and rank != 0 and peer == 0 and tag == 1:
            if summ == EOQ:
                out.append("EWEoq %d" % (rank - 1))
            else:
                out.append("EWTask %d" % (rank - 1))
                cur[rank] = task_of_seq.get(seq)
                executed.append([rank, cur[rank]])
        elif op in ("send", "ssend") and rank != 0 and peer == 0 and tag == 2:
            if "WorkerError" in summ:
                failed.append(cur.get(rank))
        elif closing:
            for k, c in enumerate(root_calls):
                out.append("EFallback" if c == "K" else "EFallbackErr")
                executed.append([0, nsent + k])
                if c != "K":
                    failed.append(nsent + k)
                    if first_err is None:
                        first_err = nsent + k
            out.append("EExit")
            root_bcast = summ
        elif op == "done:bcast" and rank is None and root_bcast is not None and summ == root_bcast:
            out.append("EBar")
    return out, dict(handed=nsent, executed=executed, failed=failed, first_err=first_err)


def joberr_jobs(ctx, size, mode, batch):
    """(i') iter_unordered with a job that raises JobError(t) for t in `bad`"""
    rng = ctx.rng
    jobs = []
    mws = [None, 1, 2, 3, size]
    mws = [m for i, m in enumerate(mws) if m is None or (m <= size and m not in mws[:i])]
    nts = [1, 2, 4, 7] if ctx.quick() else [1, 2, 3, 5, 8, 12]
    for mw in mws:
        for nt in nts:
            tasks = rng.sample(range(0, 900), nt)
            how = rng.choice(["one", "one", "first", "last", "some", "some", "all", "none"])
            if how == "one":
                bad = [rng.choice(tasks)]
            elif how == "first":
                bad = [tasks[0]]
            elif how == "last":
                bad = [tasks[-1]]
            elif how == "some":
                bad = [t for t in tasks if rng.random() < 0.4] or [tasks[nt // 2]]
            elif how == "all":
                bad = list(tasks)
            else:
                bad = []
            pol = rng.choice(["random", "random", "random", "low", "high", "fifo", "lifo"])
            jobs.append(dict(kind="dispatch", tasks=tasks, bad=sorted(bad), max_workers=mw, consumer=rng.choice(LAZY_CONSUMERS),
                             sched=dict(mode=mode, policy=pol, seed=rng.randrange(10 ** 6))))
    tasks = rng.sample(range(900), 5)
    jobs.append(dict(kind="dispatch", tasks=tasks, bad=[tasks[rng.randrange(5)]], max_workers=rng.choice([None, 2, size]),
                     node_only=True, consumer=rng.choice(LAZY_CONSUMERS),
                     sched=dict(mode=mode, policy="random", seed=rng.randrange(10 ** 6))))
    # every sequence of wildcard choices: one failing task among four, two among three
    if mode != "mixed" and batch == 0:
        cap = 120 if ctx.quick() else 400
        jobs.append(dict(kind="dispatch", tasks=[10, 11, 12, 13], bad=[11], max_workers=None, exhaustive=True,
                         maxruns=cap, consumer="indicator-for", sched=dict(mode=mode, seed=0)))
        jobs.append(dict(kind="dispatch", tasks=[7, 8, 9], bad=[7, 9], max_workers=2, exhaustive=True, maxruns=cap,
                         sched=dict(mode=mode, seed=0)))
        if not ctx.quick():
            jobs.append(dict(kind="dispatch", tasks=[20, 21, 22, 23, 24], bad=[24], max_workers=3, exhaustive=True,
                             maxruns=cap, sched=dict(mode=mode, seed=0)))
    return jobs


# ------------------------------------------------------------------------------------------
# (v) jobs that fail TRANSIENTLY, number of executions per task (Model/DispatchRetry.v)
# ------------------------------------------------------------------------------------------
_kind_rot = [0]


def next_kind_index():
    """the exception kinds of c06_faults.NAMED are used in turn (every run uses all of them), further kinds are random"""
    _kind_rot[0] += 1
    return _kind_rot[0] - 1


def xfault_jobs(ctx, size, mode, batch):
    """iter_unordered with a job that records every execution (task, rank, earlier executions of the task, failed?) and fails
    as planned: which tasks, with which exception (errno / class / own subclass), on the first execution only / always / on
    given ranks only"""
    rng = ctx.rng
    jobs = []
    mws = [None, 1, 2, 3, size]
    mws = [m for i, m in enumerate(mws) if m is None or (m <= size and m not in mws[:i])]
    nts = [1, 2, 4, 7] if ctx.quick() else [1, 2, 3, 5, 8, 12]
    for mw in mws:
        for nt in nts:
            for _ in range(ctx.n(1, 2)):
                tasks = rng.sample(range(0, 900), nt)
                plan = cf.draw_plan(rng, size, None, next_kind_index())
                pol = rng.choice(["random", "random", "random", "low", "high", "fifo", "lifo"])
                jobs.append(dict(kind="dispatch", tasks=tasks, fault=dict(plan, ep=0, where="before"), max_workers=mw,
                                 consumer=rng.choice(LAZY_CONSUMERS), sched=dict(mode=mode, policy=pol, seed=rng.randrange(10 ** 6))))
    tasks = rng.sample(range(900), 5)
    jobs.append(dict(kind="dispatch", tasks=tasks, fault=dict(cf.draw_plan(rng, size, None, next_kind_index()), ep=0, where="before"),
                     max_workers=rng.choice([None, 2, size]), node_only=True, consumer=rng.choice(LAZY_CONSUMERS),
                     sched=dict(mode=mode, policy="random", seed=rng.randrange(10 ** 6))))
    # every sequence of wildcard choices: one task of four fails on its first execution only / on worker rank 1 only
    if mode != "mixed" and batch == 0:
        cap = 60 if ctx.quick() else 400
        jobs.append(dict(kind="dispatch", tasks=[10, 11, 12, 13], max_workers=None, exhaustive=True, maxruns=cap, consumer="for",
                         fault=dict(ep=0, items=[1], kinds=[cf.draw_kind(rng, next_kind_index())], when="first", ranks=[], where="before"),
                         sched=dict(mode=mode, seed=0)))
        jobs.append(dict(kind="dispatch", tasks=[7, 8, 9], max_workers=None, exhaustive=True, maxruns=cap, consumer="indicator-for",
                         fault=dict(ep=0, items=[0, 2], kinds=[cf.draw_kind(rng, next_kind_index())], when="ranks", ranks=[1], where="before"),
                         sched=dict(mode=mode, seed=0)))
    return jobs


_cls_codes = {}


def cls_code(name, eno):
    """exception classes as numbers for the Coq side: (class name, errno)"""
    key = "%s/%s" % (name, eno)
    if key not in _cls_codes:
        _cls_codes[key] = len(_cls_codes) + 1
    return _cls_codes[key]


def xtranslate(log, size):
    """communication log of ONE iter_unordered run whose job records its executions (simulator log op `xexec`) -> choices of
    Model/DispatchRetry.v + the execution log [position, rank, failed, earlier executions, episode] in the order of the calls.
    Root's task messages -> XHand, every call of the job function -> XExec / XFallback (rank 0) with its outcome, root's
    receives of results -> XReport, the root entering the closing broadcast -> XFinish."""
    nworkers = size - 1
    out, xlog, init_sent, closed = [], [], 0, False
    for e in log:
        n, rank, op, peer, tag, cid, summ = e[:7]
        if cid != 0:
            continue
        if op in ("send", "ssend") and rank == 0 and tag == 1:
            if init_sent < nworkers:
                init_sent += 1
            if summ != EOQ:
                out.append("XHand %d" % (peer - 1))
        elif op == "recv" and rank == 0 and tag == 2:
            out.append("XReport %d" % (peer - 1))
        elif op == "xexec":
            ep, item, a, f = (int(x) for x in summ.split(":"))
            xlog.append([item, rank, bool(f), a, ep])
            out.append("XFallback %s" % fq.b(f) if rank == 0 else "XExec %d %s" % (rank - 1, fq.b(f)))
        elif rank == 0 and op == "enter:bcast" and init_sent == nworkers and not closed:
            out.append("XFinish")
            closed = True
    return out, xlog


def xterm(size, ranks, tasks, choices, exact, got, xlog, outs, cls, bad0):
    return "c06_xdispatch_case %s %s %s %s %s %s %s %s %s %s" % (
        fq.nat(size - 1), fq.nlist(sorted(ranks)), fq.nlist(tasks), fq.lst(choices), fq.b(exact), fq.nlist(got),
        fq.lst(["(%s, %s, %s)" % (fq.nat(t), fq.nat(r), fq.b(f)) for t, r, f in xlog]),
        fq.lst(["None" if o is None else "(Some (%s, %s))" % (fq.nat(o[0]), fq.nat(o[1])) for o in outs]),
        fq.lst(["(%s, %s)" % (fq.nat(t), fq.nat(c)) for t, c in cls]),
        "None" if bad0 is None else "(Some %s)" % fq.nlist(bad0))


def plan_label(plan):
    return "%s%s/%s" % (plan.when, "" if plan.when != "ranks" else ":" + ",".join(str(r) for r in plan.ranks), plan.where)


def handle_xfault(ctx, st, size, j, res):
    """one transient-failure dispatch job (possibly many runs when exhaustive); collects Coq terms"""
    mode = j["sched"].get("mode", "eager")
    hosts = j["sched"].get("hosts")
    ranks = ranks_of(size, j.get("max_workers"), j.get("node_only"), hosts)
    tasks, fault = j["tasks"], j["fault"]
    plan = cf.Plan(fault)
    cons = j.get("consumer") or "for"
    hits = plan.hits(0, len(tasks))
    planned = {tasks[i]: cf.planned_class(k) for i, k in hits.items()}
    cls = sorted((t, cls_code(*c)) for t, c in planned.items())
    bad0 = sorted(planned) if plan.rank_independent() else None
    for run in res.get("runs", []):
        idx = ("x", len(st["xmeta"]) + len(st["xnoterm"]))
        replay = dict(entry="parallel.iter_unordered", fault_plan=fault, world_size=size, max_workers=j.get("max_workers"),
                      rank0_node_only=bool(j.get("node_only")), tasks=tasks, consumer=cons, schedule=run.get("sched"),
                      job_raises={str(t): c for t, c in sorted(planned.items())},
                      decisions=[[d["rank"], d["senders"], d["chosen"]] for d in run.get("decisions", [])][:40],
                      how="job t -> 3t+1 that records every execution and raises as planned (harness/props/c06_faults.py: Plan; "
                          "items = positions in `tasks`)")
        anyfail = any(x[3] for x in run.get("executed", []))
        key = ("xfault", size, j.get("max_workers"), bool(j.get("node_only")), mode,
               tuple(d["chosen"] for d in run.get("decisions", [])), tuple(tasks), json.dumps(fault, sort_keys=True), cons)
        ctx.count(key=key, nontrivial=anyfail and size >= 2,
                  kind="transient/iter_unordered/%s/size%d%s" % (plan.when, size, "/exh" if j.get("exhaustive") else ""))
        for c in planned.values():
            ctx.bump("transient_exception:%s%s" % (c[0], "" if c[1] is None else "(errno %d)" % c[1]))
        prob = rank_problems(run)
        if prob:
            st["xnoterm"].append(idx)
            ctx.fail("c06-transient-%s:iter_unordered" % problem_kind(prob),
                     "iter_unordered (consumer: %s) with a job that fails as planned (%s; tasks %s, %d ranks, max_workers=%s, %s sends) "
                     "did not end on all ranks (%s): %s; blocked in: %s"
                     % (cons, json.dumps(fault), tasks, size, j.get("max_workers"), mode, prob[0], json.dumps(prob[1], default=str)[:500],
                        json.dumps((run.get("abort") or {}).get("blocked"))[:300]), replay, case=idx)
            continue
        vals = {int(r): v.get("value") or {} for r, v in run["ranks"].items()}
        outs, odd = [], []
        for r in range(size):
            raised = vals[r].get("raised")
            where = cf.parse_raised(raised)
            if raised is None:
                outs.append(None)
            elif where is not None and where[1] < len(tasks):
                outs.append((tasks[where[1]], cls_code(raised[0], raised[2])))
            else:
                outs.append((4000 + r, 0))
                odd.append([r, raised])
        if odd:
            ctx.fail("c06-transient-rank-exception:" + str(odd[0][1][0]),
                     "iter_unordered with a job that fails as planned: rank(s) %s ended with an exception that is not the job's" % odd,
                     replay, case=idx)
        got = vals[0].get("got", [])
        choices, xl = xtranslate(run["log"], size)
        xlog = [(tasks[i], r, f) for i, r, f, a, ep in xl]
        if sorted([r, tasks[i], a, f] for i, r, f, a, ep in xl) != sorted(run.get("executed", [])):
            ctx.disagree("transient-observation(execution marks in the simulator log vs the job's own record)", idx,
                         dict(replay=replay, marks=xl[:20], record=run.get("executed", [])[:20]))
            continue
        ctx.bump("transient_runs:" + ("raised" if outs[0] is not None else "returned"))
        ctx.bump("transient_plan:" + plan_label(plan))
        if any(r == 0 for _, r, _ in xlog):
            ctx.bump("transient_runs_with_root_fallback")
        st["xterms"].append(xterm(size, ranks, tasks, choices, True, got, xlog, outs, cls, bad0))
        st["xmeta"].append(dict(idx=idx, replay=replay, variant="iter_unordered", what="tasks %s, plan %s" % (tasks, json.dumps(fault)),
                                got=got, xlog=xlog, outs=outs, nchoices=len(choices)))
        ctx.sample(dict(kind="transient-job-error", replay=replay, root_yielded=got, executions=[list(x) for x in xlog][:12], per_rank=outs,
                        choices=choices[:40]), limit=8)
        # the messages of the run against the channel-level model (Model/Dispatch.v, jobs that may fail): the tasks whose
        # (only) execution failed are its `fails`
        if len({t for t, _, _ in xlog}) == len(xlog):
            badobs = sorted(t for t, _, f in xlog if f)
            root_calls = "".join("E" if f else "K" for _, r, f in xlog if r == 0)
            echoices, info = etranslate(run["log"], size, root_calls)
            eouts = [None if o is None else o[0] for o in outs]
            st["eterms"].append(eterm(mode, size, ranks, tasks, badobs, echoices, True, got, [t for t, _, _ in xlog], eouts))
            st["emeta"].append(dict(idx=("e",) + idx, replay=replay, what="tasks %s, job failed for %s (plan %s)" % (tasks, badobs, json.dumps(fault)),
                                    got=got, ran=[t for t, _, _ in xlog], outs=eouts, nchoices=len(echoices)))
    if j.get("exhaustive"):
        ctx.bump("transient_exhaustive_sets_complete" if res.get("exhaustive_complete") else "transient_exhaustive_sets_truncated")
        ctx.bump("transient_exhaustive_runs", len(res.get("runs", [])))


def episode_xcase(ctx, st, w, j, ep, recs, eidx, erep, ranks):
    """(v) one iter_unordered call of a group T request (fault plan armed): the execution record of its jobs against
    Model/DispatchRetry.v.  Returns False when some item was executed more than once (then the channel-level replay, which
    assumes one call per task message, is skipped)."""
    size = w["size"]
    root = recs[0]
    ntasks = root["ntasks"]
    plan = cf.Plan(j["par"]["plan"])
    op = j["cls"].rsplit("-", 1)[1]
    choices, xl = xtranslate(ep["log"], size)
    xlog = [(i, r, f) for i, r, f, a, e in xl]
    hits = plan.hits(ep["ep"], ntasks)
    planned = {i: cf.planned_class(k) for i, k in hits.items()}
    cls = sorted((i, cls_code(*c)) for i, c in planned.items())
    bad0 = sorted(planned) if plan.rank_independent() else None
    outs = []
    for r in range(size):
        o = recs[r]["outcome"]
        where = cf.parse_raised(o[1:3]) if o[0] == "raised" else None
        if o[0] == "returned":
            outs.append(None)
        elif where is not None and where[0] == ep["ep"] and where[1] < ntasks:
            outs.append((where[1], cls_code(o[1], recs[r].get("errno"))))
        else:
            outs.append((4000 + r, 0))
    ctx.count(key=("xepisode",) + tuple(str(x) for x in eidx) + (size, j["max_workers"], w["mode"], w["policy"], w["seed"], w["spec"],
                                                               json.dumps(j["par"], sort_keys=True)),
              nontrivial=any(f for _, _, f in xlog) and size >= 2, kind="transient/%s/%s" % (op, plan.when))
    for c in planned.values():
        ctx.bump("transient_exception:%s%s" % (c[0], "" if c[1] is None else "(errno %d)" % c[1]))
    ctx.bump("transient_episodes:%s:%s" % (op, "raised" if outs[0] is not None else "returned"))
    st["xterms"].append(xterm(size, ranks, list(range(ntasks)), choices, False, [0] * root["nyield"], xlog, outs, cls, bad0))
    st["xmeta"].append(dict(idx=eidx, replay=dict(erep, job_raises={str(i): c for i, c in sorted(planned.items())}), variant=op,
                            what="%s, iter_unordered call #%d over %d items, plan %s" % (j["cls"], ep["ep"], ntasks, json.dumps(j["par"]["plan"])),
                            got=root["nyield"], xlog=xlog, outs=outs, nchoices=len(choices)))
    if planned:
        ctx.sample(dict(kind="transient-episode", replay=erep, executions=[list(x) for x in xlog][:12], per_rank=outs, choices=choices[:40]), limit=10)
    return len({i for i, _, _ in xlog}) == len(xlog)


XFLAGS = [
    (2, "ranks-end-differently", "the ranks do not leave iter_unordered the same way (all raise the same error or all return)"),
    (4, None, "the ranks return although an execution of the job failed (the error is masked), or raise an error that is not that of a failed execution"),
    (8, "task-executed-twice", "some task was executed more than once (or one that is not in the task list)"),
    (16, "yielded-not-executed", "the root yielded something that is not the result of a distinct execution that did not fail"),
    (32, "root-result-differs", "no rank raised but not every task was executed once / the root did not get map f tasks"),
    (64, "outcome-differs-from-single-process", "failing does not depend on the rank here: the single-process run raises iff some planned task is in the list - the ranks end the other way"),
    (128, "exception-class-differs", "the exception the ranks raise is not of the class (and errno) the job raised for that task"),
]


def finish_xdispatch(ctx, st):
    codes = ctx.shards("Cases_C06X", HEADER_X, st["xterms"], shard=120)
    for m, c in zip(st["xmeta"], codes):
        if c is None or c == 0:
            continue
        raised = m["outs"][0] if m["outs"] else None
        for bit, sig, what in XFLAGS:
            if c & bit:
                if bit == 4:
                    sig = "job-error-masked" if raised is None else "raised-error-not-of-a-failed-execution"
                ctx.fail("c06-transient-%s:%s" % (sig, m["variant"]),
                         "%s: %s; root yielded %s, executions (task, rank, failed) %s, per rank (None = returned, (t, c) = raised the error "
                         "of task t with exception class code c) %s" % (m["what"], what, m["got"], [list(x) for x in m["xlog"]][:24], m["outs"]),
                         m["replay"], case=m["idx"])
        if c & 1:
            ctx.disagree("Cases_C06X", m["idx"], dict(code=c, first_disabled_event=(c // 256) - 1 if c >= 256 else None,
                                                      replay=m["replay"]))


def oopt(x):
    return "None" if x is None else "(Some %s)" % fq.nat(x)


def eterm(mode, size, ranks, tasks, bad, choices, exact, got, ran, outs):
    return "c06_edispatch_case %s %s %s %s %s %s %s %s %s %s" % (
        fq.b(mode == "sync"), fq.nat(size - 1), fq.nlist(sorted(ranks)), fq.nlist(tasks), fq.nlist(sorted(bad)),
        fq.lst(choices), fq.b(exact), fq.nlist(got), fq.nlist(ran), fq.lst([oopt(o) for o in outs]))


def handle_joberr(ctx, st, size, j, res):
    """one failing-job dispatch job (possibly many runs when exhaustive); collects Coq terms"""
    mode = j["sched"].get("mode", "eager")
    hosts = j["sched"].get("hosts")
    ranks = ranks_of(size, j.get("max_workers"), j.get("node_only"), hosts)
    tasks, bad = j["tasks"], j["bad"]
    cons = j.get("consumer") or "for"
    for run in res.get("runs", []):
        idx = len(st["eterms"]) + len(st["enoterm"])
        replay = dict(entry="parallel.iter_unordered", job_raises_for=bad, world_size=size, max_workers=j.get("max_workers"),
                      rank0_node_only=bool(j.get("node_only")), tasks=tasks, consumer=cons, schedule=run.get("sched"),
                      decisions=[[d["rank"], d["senders"], d["chosen"]] for d in run.get("decisions", [])][:40])
        key = ("joberr", size, j.get("max_workers"), bool(j.get("node_only")), mode,
               tuple(d["chosen"] for d in run.get("decisions", [])), tuple(tasks), tuple(bad), cons)
        ctx.count(key=key, nontrivial=bool(bad) and size >= 2,
                  kind="joberr/size%d/mw%s/%s%s" % (size, j.get("max_workers"), mode, "/exh" if j.get("exhaustive") else ""))
        ctx.bump("joberr_consumer:" + cons)
        prob = rank_problems(run)
        if prob:
            st["enoterm"].append(idx)
            ctx.fail("c06-job-error-%s" % problem_kind(prob),
                     "iter_unordered (consumer: %s) with a job that raises for the tasks %s (tasks %s, %d ranks, max_workers=%s, %s sends) "
                     "did not end on all ranks (%s): %s; blocked in: %s"
                     % (cons, bad, tasks, size, j.get("max_workers"), mode, prob[0], json.dumps(prob[1], default=str)[:500],
                        json.dumps((run.get("abort") or {}).get("blocked"))[:300]), replay, case=("e", idx))
            continue
        vals = {int(r): v.get("value") or {} for r, v in run["ranks"].items()}
        outs, odd = [], []
        for r in range(size):
            raised = vals[r].get("raised")
            if raised is None:
                outs.append(None)
            elif raised[0] == "JobError" and isinstance(raised[1], int):
                outs.append(raised[1])
            else:
                outs.append(10 ** 6 + r)
                odd.append([r, raised])
        if odd:
            ctx.fail("c06-job-error-rank-exception:" + odd[0][1][0],
                     "iter_unordered with a failing job: rank(s) %s ended with an exception that is not the job's" % odd,
                     replay, case=("e", idx))
        got = vals[0].get("got", [])
        ran = [t for _, t in run["executed"]]
        root_calls = "".join("E" if t in bad else "K" for r, t in run["executed"] if r == 0)
        choices, info = etranslate(run["log"], size, root_calls)
        ctx.bump("joberr_runs:" + ("raised" if outs[0] is not None else "returned"))
        if info["handed"] + len(root_calls) < len(tasks):
            ctx.bump("joberr_runs_with_tasks_never_handed_out")
        if any(c.startswith("ERecvDrain") for c in choices):
            ctx.bump("joberr_runs_with_drained_results")
        if "EFallbackErr" in choices:
            ctx.bump("joberr_runs_root_fallback_raises")
        st["eterms"].append(eterm(mode, size, ranks, tasks, bad, choices, True, got, ran, outs))
        st["emeta"].append(dict(idx=("e", idx), replay=replay, what="tasks %s, job raises for %s" % (tasks, bad), got=got, ran=ran,
                                outs=outs, nchoices=len(choices)))
        ctx.sample(dict(kind="job-error", replay=replay, root_yielded=got, executed=run["executed"][:12], per_rank=outs,
                        choices=choices[:40]), limit=4)
    if j.get("exhaustive"):
        ctx.bump("joberr_exhaustive_sets_complete" if res.get("exhaustive_complete") else "joberr_exhaustive_sets_truncated")
        ctx.bump("joberr_exhaustive_runs", len(res.get("runs", [])))


def handle_episodes(ctx, st, w, j, run, idx, replay):
    """the iter_unordered episodes of a refusal run (group C: the job raises on a worker rank), replayed through
    the extended model; tasks are numbered in the order the root hands them out"""
    size, mode = w["size"], w["mode"]
    for ep in run.get("episodes", []):
        recs = {int(r): v for r, v in ep["ranks"].items()}
        if not ep["complete"] or any(v is None or v["outcome"] is None for v in recs.values()):
            ctx.bump("episode_incomplete")
            continue
        root = recs[0]
        # the worker limit of THIS call of iter_unordered (its max_workers argument as recorded at the call boundary on the
        # root: the follow-up operation of a world may carry its own limit, option mw_ops)
        ep_mw = root.get("mw", j["max_workers"])
        if any(v.get("mw", ep_mw) != ep_mw for v in recs.values()):
            ctx.disagree("episode-observation(ranks call iter_unordered with different worker limits)", (idx[0], idx[1], "ep%d" % ep["ep"]),
                         dict(replay=replay, per_rank={r: v.get("mw") for r, v in recs.items()}))
            continue
        if ep_mw != j["max_workers"]:
            ctx.bump("episodes_with_own_worker_limit")
        ranks = ranks_of(size, ep_mw, bool(root.get("node_only")), None)
        choices, info = etranslate(ep["log"], size, root["calls"])
        eidx = (idx[0], idx[1], "ep%d" % ep["ep"])
        if root.get("faulted"):
            # (v) a fault plan was armed: execution counts and outcome against Model/DispatchRetry.v
            xrep = dict(replay, episode=ep["ep"], items=root["ntasks"], per_rank={r: v["outcome"] for r, v in recs.items()})
            if not episode_xcase(ctx, st, w, j, ep, recs, eidx, xrep, ranks):
                continue
        # the job function's own record (per rank, in order) against the log: one call per task received
        calls_ok = all(len(recs[r]["calls"]) == sum(1 for x, _ in info["executed"] if x == r) for r in recs)
        bad = set()
        for r in recs:
            mine = [t for x, t in info["executed"] if x == r]
            bad.update(t for t, c in zip(mine, recs[r]["calls"]) if c == "E")
        if not calls_ok or None in bad or sorted(bad) != sorted(set(info["failed"])):
            ctx.disagree("episode-observation(job calls vs logged task messages)", eidx,
                         dict(replay=replay, calls={r: v["calls"] for r, v in recs.items()}, log_says=info))
            continue
        outs = []
        for r in range(size):
            o = recs[r]["outcome"]
            if o[0] == "returned":
                outs.append(None)
            elif root["outcome"][0] == "raised" and o[1:] == root["outcome"][1:] and info["first_err"] is not None:
                outs.append(info["first_err"])
            else:
                outs.append(10 ** 6 + r)
        ntasks = root["ntasks"]
        erep = dict(replay, episode=ep["ep"], items=ntasks, job_raised_for_items=sorted(bad),
                    per_rank={r: v["outcome"] for r, v in recs.items()})
        ctx.count(key=("episode",) + tuple(str(x) for x in eidx) + (size, j["max_workers"], ep_mw, mode, w["policy"], w["seed"], w["spec"]),
                  nontrivial=bool(bad), kind="episode/%s/%s" % (j["cls"], "job-raises" if bad else "ok"))
        ctx.bump("episodes_replayed:" + ("raised" if outs[0] is not None else "returned"))
        st["eterms"].append(eterm(mode, size, ranks, list(range(ntasks)), sorted(bad), choices, False,
                                  [0] * root["nyield"], [t for _, t in info["executed"]], outs))
        st["emeta"].append(dict(idx=eidx, replay=erep, what="%s, iter_unordered call #%d over %d items" % (j["cls"], ep["ep"], ntasks),
                                got=root["nyield"], ran=info["executed"], outs=outs, nchoices=len(choices)))
        if bad:
            ctx.sample(dict(kind="refusal-episode", replay=erep, choices=choices[:40]), limit=3)


EFLAGS = [
    (2, "c06-job-error-ranks-end-differently", "the ranks do not leave iter_unordered the same way (all raise the same error or all return)"),
    (4, "c06-job-error-flag-differs", "the ranks raise although no executed task failed, or return although one did, or raise an error that is not that of an executed failing task"),
    (8, "c06-job-error-task-executed-twice", "some task was executed more than once (or one that is not in the task list)"),
    (16, "c06-job-error-yielded-not-executed", "the root yielded something that is not the result of a distinct executed task that did not fail"),
    (32, "c06-job-error-root-result-differs", "no rank raised but not every task was executed once / the root did not get map f tasks"),
]


def finish_edispatch(ctx, st):
    codes = ctx.shards("Cases_C06E", HEADER, st["eterms"], shard=120)
    for m, c in zip(st["emeta"], codes):
        if c is None or c == 0:
            continue
        for bit, sig, what in EFLAGS:
            if c & bit:
                ctx.fail(sig, "%s: %s; root yielded %s, executed %s, per rank (None = returned, t = raised the error of task t) %s"
                         % (m["what"], what, m["got"], m["ran"], m["outs"]), m["replay"], case=m["idx"])
        if c & 1:
            ctx.disagree("Cases_C06E", m["idx"], dict(code=c, first_disabled_event=(c // 64) - 1 if c >= 64 else None,
                                                      replay=m["replay"]))


def nontrivial_run(run):
    return any(d["ncand"] >= 2 for d in run.get("decisions", []))


def rank_problems(run):
    """(kind, detail) if the run did not end with every rank returned"""
    if run["outcome"] != "ok":
        return run["outcome"], run.get("abort")
    for r, v in sorted(run["ranks"].items()):
        if v["status"] == "exc":
            return "rank-exception:" + v["type"], dict(rank=r, msg=v["msg"], tb=v["tb"][-1200:])
        if v["status"] != "ok":
            return "rank-" + v["status"], dict(rank=r)
    return None


def handle_dispatch(ctx, st, size, j, res):
    """one dispatch job (possibly many runs when exhaustive); collects Coq terms"""
    mode = j["sched"].get("mode", "eager")
    hosts = j["sched"].get("hosts")
    ranks = ranks_of(size, j.get("max_workers"), j.get("node_only"), hosts)
    tasks = j["tasks"]
    want = sorted(3 * t + 1 for t in tasks)
    cons, stop = j.get("consumer") or "list", j.get("stop")
    if stop is not None and stop <= len(tasks):
        return handle_qdispatch(ctx, st, size, j, res)
    for run in res.get("runs", []):
        idx = len(st["terms"]) + len(st["noterm"])
        replay = dict(entry="parallel.iter_unordered", world_size=size, max_workers=j.get("max_workers"),
                      rank0_node_only=bool(j.get("node_only")), tasks=tasks, consumer=cons, consumer_asks_for_at_most=stop,
                      schedule=run.get("sched"),
                      decisions=[[d["rank"], d["senders"], d["chosen"]] for d in run.get("decisions", [])][:40])
        key = ("dispatch", size, j.get("max_workers"), bool(j.get("node_only")), tuple(hosts or ()), mode,
               tuple(d["chosen"] for d in run.get("decisions", [])), tuple(tasks), cons, stop)
        ctx.count(key=key, nontrivial=nontrivial_run(run),
                  kind="dispatch/size%d/mw%s/%s%s" % (size, j.get("max_workers"), mode, "/exh" if j.get("exhaustive") else ""))
        ctx.bump("dispatch_allowed_workers:%d" % len([r for r in ranks if r > 0]))
        ctx.bump("dispatch_consumer:" + (cons if stop is None else cons + "(more than there are tasks)"))
        prob = rank_problems(run)
        if prob:
            st["noterm"].append(idx)
            how = "" if cons == "list" and stop is None else "consumer-%s-" % cons.split("-")[0]
            ctx.fail("c06-dispatch-%s%s" % (how, prob[0]),
                     "iter_unordered (consumed by: %s%s) under the simulated MPI world did not return on all ranks (%s): %s; "
                     "blocked in: %s"
                     % (cons, "" if stop is None else ", at most %d items of %d" % (stop, len(tasks)), prob[0],
                        json.dumps(prob[1], default=str)[:600], json.dumps((run.get("abort") or {}).get("blocked"))[:300]),
                     replay, case=("d", idx))
            continue
        got = run["ranks"]["0"]["value"]
        ran = [t for _, t in run["executed"]]
        nroot = sum(1 for r, _ in run["executed"] if r == 0)
        if nroot:
            ctx.bump("dispatch_runs_with_root_fallback")
        choices = translate(run["log"], size, nroot)
        term = "c06_dispatch_case true %s %s %s %s %s %s %s" % (
            fq.b(mode == "sync"), fq.nat(size - 1), fq.nlist(sorted(ranks)), fq.nlist(tasks),
            fq.lst(choices), fq.nlist(got), fq.nlist(ran))
        st["terms"].append(term)
        st["meta"].append(dict(idx=("d", idx), replay=replay, got=got, ran=ran, want=want, ranks=ranks, tasks=tasks,
                               nchoices=len(choices)))
        ctx.sample(dict(kind="dispatch", replay=replay, root_result=got, executed=run["executed"][:12],
                        choices=choices[:30]), limit=3)
    if j.get("exhaustive"):
        ctx.bump("exhaustive_sets_complete" if res.get("exhaustive_complete") else "exhaustive_sets_truncated")
        ctx.bump("exhaustive_runs", len(res.get("runs", [])))


def handle_qdispatch(ctx, st, size, j, res):
    """(i'') the consumer stops after k <= number of tasks items: replayed through qstep_with (Model/Dispatch.v).
    Not an input of the property; the model says the world deadlocks with only the root back - a difference between
    model and implementation is a broken tie (ctx.disagree), never a failing input"""
    mode = j["sched"].get("mode", "eager")
    ranks = ranks_of(size, j.get("max_workers"), j.get("node_only"), j["sched"].get("hosts"))
    tasks, k, cons = j["tasks"], j["stop"], j.get("consumer")
    for run in res.get("runs", []):
        idx = ("q", len(st["qterms"]))
        replay = dict(entry="parallel.iter_unordered", world_size=size, max_workers=j.get("max_workers"),
                      rank0_node_only=bool(j.get("node_only")), tasks=tasks, consumer=cons, consumer_asks_for_at_most=k,
                      schedule=run.get("sched"),
                      decisions=[[d["rank"], d["senders"], d["chosen"]] for d in run.get("decisions", [])][:40])
        key = ("stop", size, j.get("max_workers"), mode, tuple(d["chosen"] for d in run.get("decisions", [])), tuple(tasks), k, cons)
        ctx.count(key=key, nontrivial=size >= 2, kind="consumer-stops/size%d/mw%s/%s%s"
                  % (size, j.get("max_workers"), mode, "/exh" if j.get("exhaustive") else ""))
        ret = [run["ranks"][str(r)]["status"] == "ok" for r in range(size)]
        got = (run["ranks"]["0"].get("value") or []) if ret[0] else []
        ran = [t for _, t in run["executed"]]
        nroot = sum(1 for r, _ in run["executed"] if r == 0)
        choices = qtranslate(run["log"], size, nroot, stopped=len(got) >= k)
        ctx.bump("consumer_stops:%s" % ("world-deadlocked-only-root-back" if run["outcome"] == "deadlock" and ret[0] and not any(ret[1:])
                                        else "outcome-" + run["outcome"]))
        if k == len(tasks):
            ctx.bump("consumer_stops_after_last_item")
        if nroot:
            ctx.bump("consumer_stops_in_root_fallback")
        st["qterms"].append("c06_qdispatch_case %s %s %s %s %s %s %s %s %s" % (
            fq.b(mode == "sync"), fq.nat(size - 1), fq.nlist(sorted(ranks)), fq.nlist(tasks), fq.nat(k), fq.lst(choices),
            fq.nlist(got), fq.nlist(ran), fq.lst([fq.b(x) for x in ret])))
        st["qmeta"].append(dict(idx=idx, replay=replay, got=got, ran=ran, returned=ret, outcome=run["outcome"], nchoices=len(choices)))
        ctx.sample(dict(kind="consumer-stops", replay=replay, consumer_got=got, executed=run["executed"][:12], returned=ret,
                        outcome=run["outcome"], choices=choices[:30]), limit=5)
    if j.get("exhaustive"):
        ctx.bump("consumer_stops_exhaustive_sets_complete" if res.get("exhaustive_complete") else "consumer_stops_exhaustive_sets_truncated")
        ctx.bump("consumer_stops_exhaustive_runs", len(res.get("runs", [])))


def finish_qdispatch(ctx, st):
    codes = ctx.shards("Cases_C06Q", HEADER, st["qterms"], shard=120)
    for m, c in zip(st["qmeta"], codes):
        if c is None or c == 0:
            continue
        ctx.disagree("Cases_C06Q(consumer stops: model vs implementation)", m["idx"],
                     dict(code=c, first_disabled_event=(c // 2) - 1 if c >= 2 else None, returned=m["returned"], outcome=m["outcome"],
                          replay=m["replay"]))


def finish_dispatch(ctx, st):
    codes = ctx.shards("Cases_C06", HEADER, st["terms"], shard=120)
    for m, c in zip(st["meta"], codes):
        if c is None or c == 0:
            continue
        r = m["replay"]
        if c & 2 or c & 4:
            workers = [x for x in m["ranks"] if x > 0]
            if not workers and m["got"] == [] and m["ran"] == [] and m["tasks"]:
                ctx.fail(F13A, "iter_unordered(max_workers=1) on %d ranks: ranks={0}, every worker gets the end-of-queue "
                               "sentinel, no task is executed (no root fallback), the root yields nothing (expected %d results)"
                         % (r["world_size"], len(m["want"])), r, case=m["idx"])
            else:
                ctx.fail("c06-dispatch-root-result-differs",
                         "root yielded %s, executed %s; expected the multiset %s" % (m["got"][:12], m["ran"][:12], m["want"][:12]),
                         r, case=m["idx"])
        if c & 1:
            ctx.disagree("Cases_C06", m["idx"], dict(code=c, first_disabled_event=(c // 16) - 1 if c >= 16 else None, replay=r))


# ------------------------------------------------------------------------------------------
# (ii) entry points
# ------------------------------------------------------------------------------------------
SPECS = {
    "A": dict(n=60, ncent=3, weights=True, mode="centers", cs=16, dseed=5, nbins=3, cross_rand="both"),
    "B": dict(n=45, ncent=4, weights=False, mode="name", cs=7, dseed=11, nbins=2, cross_rand="ref"),
    "C": dict(n=80, ncent=2, weights=True, mode="centers", cs=80, dseed=23, nbins=4, cross_rand="unk"),
    "D": dict(n=33, ncent=3, weights=True, mode="name", cs=10, dseed=31, nbins=3, cross_rand="both"),
    "E": dict(n=52, ncent=5, weights=False, mode="centers", cs=13, dseed=47, nbins=2, cross_rand="both"),
    "F": dict(n=24, ncent=2, weights=True, mode="centers", cs=5, dseed=53, nbins=3, cross_rand="ref"),
    # a last chunk with fewer records than chunk-processing ranks (some ranks get an empty share)
    "G": dict(n=41, ncent=2, weights=True, mode="centers", cs=20, dseed=61, nbins=2, cross_rand="ref"),
    "H": dict(n=26, ncent=3, weights=False, mode="name", cs=8, dseed=67, nbins=3, cross_rand="both"),
}


def reference(ctx, name):
    """single-process run (this process, no MPI, max_workers=1)"""
    spec = SPECS[name]
    base = os.path.join(ctx.workdir, "ref_" + name)
    os.makedirs(base, exist_ok=True)
    impl.set_threads(1)
    ref = {"caches": {}, "create": {}}
    for k in cc.CATS:
        ref["caches"][k] = os.path.join(base, k)
        ref["create"][k] = cc.stage_create(spec, ref["caches"][k], 1, k)
    for k in cc.CATS:
        cc.remove_meta(ref["caches"][k])
    outdir = os.path.join(base, "out")
    os.makedirs(outdir, exist_ok=True)
    ref["rest"] = cc.stage_rest(spec, ref["caches"], outdir, 1, True)
    for k in cc.CATS:
        cc.remove_meta(ref["caches"][k])      # worlds get copies without metadata / trees
    ref["extra"] = {}
    for k in cc.EXTRA_CATS:                   # valid catalogs that only the refusal scenarios use
        ref["extra"][k] = os.path.join(base, "x_" + k)
        cc.create_extra(spec, ref["extra"][k], 1, k)
        cc.remove_meta(ref["extra"][k])
    ref["base"] = base
    return json.loads(json.dumps(ref))


ALL_PROGRESS = list(cc.PROGRESS_OPS)


def draw_opts(rng, spec):
    """one set of optional keyword arguments for the entry points of a world (meaning: c06_common, above stage_create)"""
    n, nc = spec["n"], spec["ncent"]
    o = {}
    r = rng.random()
    if r < 0.4:
        o["progress"] = list(ALL_PROGRESS)
    elif r < 0.8:
        o["progress"] = sorted(rng.sample(ALL_PROGRESS, rng.choice([1, 2, 3])))
    if rng.random() < 0.5:
        o["cs"] = rng.choice([1, 2, n - 1, n, n + 1, 10 * n, None])
    if rng.random() < 0.4:
        o["leafsize"] = rng.choice([1, 2, 5, 64])
    if rng.random() < 0.5:
        o["force"] = rng.choice([True, False])
    if rng.random() < 0.4:
        o["count_rr"] = rng.choice([False, False, True])
    if rng.random() < 0.3:
        o["mw_config"] = True
    if rng.random() < 0.3:
        o["mw_ops"] = {op: rng.choice([1, 2, 3, None]) for op in rng.sample(["load", "trees", "auto", "cross", "hist"], 2)}
    if rng.random() < 0.4:
        o["source"] = rng.choice(["parquet", "hdf5", "random"])
    if rng.random() < 0.25 and 10 * nc <= n:
        o["create_mode"] = "num"          # explicit probe sizes below 10 * patch_num or above n are refusals (class A)
        o["probe"] = rng.choice([10 * nc, n, (10 * nc + n) // 2])
    return o


# ------------------------------------------------------------------------------------------
# (ii') node layouts: the ranks of a world report different processor names
# ------------------------------------------------------------------------------------------
def write_plan(size, mw, hosts):
    """the ranks the write pipeline may use, from the documentation of write_patches ("schedule all work only on the same
    node that hosts the root") and of max_workers: the first min(max_workers or size, size) ranks that report the root's
    processor name; None when these are fewer than two (reader and writer are different ranks) - then the layout is not an
    input the property promises a catalog for"""
    hosts = hosts or [0] * size
    eff = min(mw or size, size)
    same = [r for r in range(size) if hosts[r] == hosts[0]][:eff]
    return same if eff >= 2 and len(same) >= 2 else None


def host_names(hosts):
    return None if hosts is None else ["node%d" % h for h in hosts]


def layout_label(hosts):
    return "one-node" if not hosts or len(set(hosts)) == 1 else "nodes:" + "".join(str(h) for h in hosts)


def draw_layout(rng, size):
    """processor name (a number; the root's is 0) of every rank of a world that is spread over SEVERAL nodes: how many ranks
    share the root's node (none: the root is alone; up to all but one), which ones (the next ranks, the last ranks, any -
    so the writer need not be rank 1 and the node's ranks need not be contiguous), the others on one or two more nodes"""
    c = rng.choice([1] + list(range(1, size)) + list(range(2, size)))        # ranks on the root's node, root included
    others = list(range(1, size))
    how = rng.choice(["next", "last", "any", "any"])
    mates = others[:c - 1] if how == "next" else (others[len(others) - (c - 1):] if how == "last" else rng.sample(others, c - 1))
    nn = rng.choice([1, 1, 2])
    return [0 if (r == 0 or r in mates) else 1 + rng.randrange(nn) for r in range(size)]


def draw_limit(rng, size, hosts):
    """a worker limit relative to the number c of ranks on the root's node: none, below, equal, above, the world size"""
    c = sum(1 for h in hosts if h == hosts[0])
    return rng.choice([None, None, size] + [m for m in (c - 1, c, c + 1, 2, 1) if 1 <= m <= size])


def creation_refused(w):
    """creation requests in this world (issued with at least two allowed workers) find no second rank on the root's node"""
    return write_plan(w["size"], 2 if w["mw"] == 1 else w["mw"], w.get("hosts")) is None


def pipeline_worlds(ctx):
    rng = ctx.rng
    worlds = [
        # targeted, deterministic
        dict(size=3, mw=None, mode="eager", policy="low", seed=0, spec="A", tag="F13b-probe"),
        dict(size=3, mw=None, mode="sync", policy="low", seed=0, spec="A", tag="sync-same-steering"),
        dict(size=2, mw=None, mode="eager", policy="low", seed=0, spec="A", tag="single-sender"),
        dict(size=4, mw=2, mode="eager", policy="low", seed=0, spec="D", tag="single-sender"),
        dict(size=4, mw=None, mode="eager", policy="fifo", seed=0, spec="B", tag="arrival-order"),
        dict(size=5, mw=None, mode="eager", policy="high", seed=0, spec="E", tag="reader-last"),
        dict(size=2, mw=1, mode="eager", policy="low", seed=0, spec="F", tag="F13a-load", ops=["load"], create=False),
        dict(size=3, mw=1, mode="sync", policy="random", seed=7, spec="A", tag="root-fallback-pipeline", create=False),
        dict(size=4, mw=None, mode="eager", policy="random", seed=3, spec="G", tag="short-last-chunk"),
        dict(size=5, mw=None, mode="sync", policy="random", seed=4, spec="H", tag="short-last-chunk"),
        # optional keyword arguments (deterministic): every operation through the progress bar, with worker ranks and
        # with the root fallback; a forced second tree build; one-record chunks
        dict(size=3, mw=None, mode="eager", policy="low", seed=0, spec="A", tag="progress-everywhere", opts=dict(progress=ALL_PROGRESS)),
        dict(size=2, mw=None, mode="sync", policy="low", seed=0, spec="D", tag="progress-force-onerecord-chunks",
             opts=dict(progress=ALL_PROGRESS, force=True, cs=1, leafsize=1, count_rr=False)),
        dict(size=4, mw=1, mode="eager", policy="random", seed=5, spec="F", tag="progress-root-fallback", create=False,
             opts=dict(progress=ALL_PROGRESS, mw_config=True)),
        # node layouts (deterministic; `hosts` = processor name per rank): two nodes with two ranks each (the root is the only
        # processing rank although four workers are allowed); three ranks on the root's node that are not contiguous (the
        # writer is rank 2); a worker limit below / equal to / above the number of ranks on the root's node; three nodes; the
        # root alone on its node (creation is refused on every rank, everything else must work); sources other than a frame
        dict(size=4, mw=None, mode="sync", policy="low", seed=0, spec="A", tag="nodes-2+2", hosts=[0, 0, 1, 1], nref=1),
        dict(size=4, mw=None, mode="eager", policy="random", seed=11, spec="B", tag="nodes-3+1-writer-not-rank-1", hosts=[0, 1, 0, 0], nref=1),
        dict(size=4, mw=2, mode="mixed", policy="high", seed=12, spec="G", tag="nodes-limit-below-node-ranks", hosts=[0, 1, 0, 0], nref=1),
        dict(size=5, mw=3, mode="eager", policy="fifo", seed=13, spec="E", tag="nodes-limit-equals-node-ranks", hosts=[0, 1, 0, 2, 0], nref=1),
        dict(size=5, mw=4, mode="sync", policy="random", seed=14, spec="H", tag="nodes-limit-above-node-ranks", hosts=[0, 0, 1, 1, 2], nref=1,
             opts=dict(source="parquet", progress=["create"])),
        dict(size=3, mw=None, mode="eager", policy="low", seed=0, spec="D", tag="nodes-root-alone", hosts=[0, 1, 1], nref=1),
        dict(size=3, mw=None, mode="eager", policy="lifo", seed=15, spec="F", tag="nodes-2+1-random-source", hosts=[0, 0, 1], nref=1,
             opts=dict(source="random", cs=7)),
    ]
    n = ctx.n(30, 350) - len(worlds)
    names = sorted(SPECS)
    # the single-process reference run is repeated for every (data spec, option set): a bounded number of such scenarios,
    # every random world takes one of them (several worlds - sizes, worker limits, schedules - per scenario)
    scenarios = [(nm, {}) for nm in rng.sample(names, 2)]
    while len(scenarios) < ctx.n(9, 70):
        nm = rng.choice(names)
        scenarios.append((nm, draw_opts(rng, SPECS[nm])))
    for i in range(n):
        size = rng.choice([2, 3, 3, 4, 4, 5])
        mw = rng.choice([None, None, 2, 3, size, 1])
        hosts = None
        if rng.random() < 0.35:         # several nodes; the worker limit relative to the ranks on the root's node
            hosts = draw_layout(rng, size)
            mw = draw_limit(rng, size, hosts)
        nm, opts = scenarios[i % len(scenarios)] if i < len(scenarios) else rng.choice(scenarios)
        worlds.append(dict(size=size, mw=mw, hosts=hosts, spec=nm, create=(mw != 1), opts=json.loads(json.dumps(opts)),
                           mode=rng.choice(["eager", "sync", "sync", "mixed"]),
                           policy=rng.choice(["random", "random", "random", "low", "high", "fifo", "lifo"]),
                           seed=rng.randrange(10 ** 6), tag="random"))
    # (iii) error paths.  Deterministic probe worlds: every refusal class once (the classes of
    # groups B and C hang on the pinned tree: finding F23, one signature per class) ...
    probes = [dict(size=3, mw=None, mode="eager", policy="low", seed=0, spec="A"),
              dict(size=2, mw=None, mode="sync", policy="low", seed=0, spec="D")]
    if not ctx.quick():
        probes += [dict(size=5, mw=None, mode="mixed", policy="high", seed=1, spec="E"),
                   dict(size=4, mw=2, mode="eager", policy="fifo", seed=2, spec="B")]
    for k, pw in enumerate(probes):
        fixed = random.Random("c06-refusal-probes-%d" % k)
        pw.update(tag="refusal-probes", create=False, ops=["load"],
                  refusals=[refusal_item(fixed, c, SPECS[pw["spec"]], pw["mw"]) for c in CLASSES_BC + CLASSES_AM]
                  + [refusal_item(fixed, c, SPECS[pw["spec"]], pw["mw"], size=pw["size"]) for c in CLASSES_T])
        worlds.append(pw)
    # ... and seeded ones after the creation / entry-point jobs of every other world (same process,
    # same caches: the refused request meets whatever history the world already has)
    per_world = ctx.n(3, 4)
    for w in worlds:
        if "refusals" in w:
            continue
        # a world whose root has no second rank on its node refuses EVERY creation (before it looks at the request): requests
        # and follow-up operations that create a catalog say nothing there
        noc = creation_refused(w)
        pool = [c for c in CLASSES_AM if not (noc and cc.REFUSALS[c][2])]
        rng.shuffle(pool)
        w["refusals"] = [refusal_item(rng, c, SPECS[w["spec"]], w["mw"], noc) for c in pool[:w.get("nref", per_world)]]
        # the job raises on a worker rank (group C, repaired by 32238ed): one class per world, replayed through the model
        w["refusals"].append(refusal_item(rng, rng.choice(CLASSES_C), SPECS[w["spec"]], w["mw"], noc))
        if not ctx.quick():
            w["refusals"].append(refusal_item(rng, rng.choice([c for c in CLASSES_BC if not (noc and cc.REFUSALS[c][2])]),
                                              SPECS[w["spec"]], w["mw"], noc))
        # (v) a valid request whose jobs fail transiently (group T): the entry points that map through iter_unordered
        for _ in range(ctx.n(1, 2)):
            w["refusals"].append(refusal_item(rng, rng.choice(CLASSES_T), SPECS[w["spec"]], w["mw"], noc, size=w["size"]))
    for i, w in enumerate(worlds):
        w["id"] = "p%03d" % i
        w.setdefault("opts", {})
        if w["mw"] is not None and w["mw"] > w["size"]:
            w["mw"] = w["size"]
    return worlds


class quiet_stderr:
    """the progress bar of the single-process reference runs goes to /dev/null (file descriptor 2 of this process;
    the check's own messages are written to stdout)"""

    def __enter__(self):
        import sys
        sys.stderr.flush()
        self.saved = os.dup(2)
        self.null = os.open(os.devnull, os.O_WRONLY)
        os.dup2(self.null, 2)

    def __exit__(self, *exc):
        import sys
        sys.stderr.flush()
        os.dup2(self.saved, 2)
        os.close(self.saved)
        os.close(self.null)


_world_refs = {}


def world_reference(ctx, ref, specname, opts):
    """the single-process results (this process, no MPI, max_workers=1) of the SAME calls with the SAME optional keyword
    arguments: {"create": summary, "rest": {op: summary}}; for the default arguments the reference of the data spec"""
    sopts = cc.single_process_opts(opts)
    if not sopts:
        return dict(create=ref["create"]["data"], rest=ref["rest"])
    key = (specname, json.dumps(sopts, sort_keys=True))
    if key not in _world_refs:
        spec = SPECS[specname]
        d = os.path.join(ref["base"], "wref_%d" % len(_world_refs))
        os.makedirs(os.path.join(d, "out"), exist_ok=True)
        impl.set_threads(1)
        cc.prepare_create_input(spec, os.path.join(d, "created"), "data", sopts)
        with quiet_stderr():
            create = cc.stage_create(spec, os.path.join(d, "created"), 1, "data", sopts)
            caches = {}
            for k in cc.CATS:
                caches[k] = os.path.join(d, k)
                cc.copy_cache(ref["caches"][k], caches[k])
            rest = cc.stage_rest(spec, caches, os.path.join(d, "out"), 1, True, None, sopts)
        shutil.rmtree(d, ignore_errors=True)
        _world_refs[key] = json.loads(json.dumps(dict(create=create, rest=rest)))
    return _world_refs[key]


# ------------------------------------------------------------------------------------------
# (iii) error paths
# ------------------------------------------------------------------------------------------
CLASSES_AM = sorted(c for c, v in cc.REFUSALS.items() if v[0] in "AM")
CLASSES_BC = sorted(c for c, v in cc.REFUSALS.items() if v[0] in "BC")
CLASSES_C = sorted(c for c, v in cc.REFUSALS.items() if v[0] == "C")
CLASSES_T = sorted(c for c, v in cc.REFUSALS.items() if v[0] == "T")
NEEDS_EXTRA = {"cross-patch-ids-differ": ["ids"], "auto-patch-ids-differ": ["ids"], "auto-centres-misaligned": ["shift"],
               "cross-centres-misaligned": ["shift"], "trees-no-redshifts": ["noz"], "auto-no-redshifts": ["noz"],
               "cross-no-redshifts": ["noz"], "hist-no-redshifts": ["noz"]}


def refusal_item(rng, cls, spec, mw, no_create=False, size=3):
    """parameters of one request of refusal class `cls` and the valid operation that follows it"""
    par = {}
    if cls in CLASSES_T:
        op = cls.rsplit("-", 1)[1]
        par = dict(plan=cf.draw_plan(rng, size, cc.FAULT_MAX_EP[op], next_kind_index()))
    elif cls == "random-probe-exceeds-records":
        pn, n = rng.choice([2, 3, 4, 6]), rng.choice([40, 150, 300, 999])
        # None: automatic probe size (100000 * sqrt(patch_num)); explicit sizes below 10 * patch_num are replaced by it
        probe = rng.choice([None, None, n + 1, n + 2, max(n + 50, 10 * pn), 7])
        par = dict(n=n, patch_num=pn, probe=probe, seed=rng.randrange(1000), cs=rng.choice([None, 64, n]))
    elif cls == "create-empty-centre":
        par = dict(pos=rng.randrange(spec["ncent"] + 1))
    elif cls == "create-patch-num-range":
        par = dict(patch_num=rng.choice([32768, 40000, 70000, -3]))
    elif cls in ("create-file-extension",):
        par = dict(ext=rng.choice(["xyz", "txt", "csv"]))
    elif cls == "create-input-file-missing":
        par = dict(ext=rng.choice(["pqt", "parquet", "fits", "hdf5"]))
    elif cls == "cross-patch-ids-differ":
        par = dict(which=rng.choice(["unknown", "ref_rand", "unk_rand"]))
    elif cls == "auto-patch-ids-differ":
        par = dict(which=rng.choice(["data", "random"]))
    elif cls == "create-nonfinite-value":
        par = dict(col=rng.choice(["ra", "dec", "z", "w"]), idx=rng.choice([0, 1, spec["cs"], spec["n"] - 1, rng.randrange(spec["n"])]),
                   value=rng.choice(["nan", "inf", "-inf"]))
    elif cls == "create-missing-column":
        par = dict(col=rng.choice(["z", "w", "ra", "dec"]))
    elif cls == "create-patch-id-range":
        par = dict(idx=rng.randrange(spec["n"]), value=rng.choice([40000, 32768, -1]))
    if cls not in cc.NO_PROGRESS_KW and rng.random() < 0.4:
        par = dict(par, progress=True)      # the refused request goes through the progress bar
    follow = rng.choice([f for f in cc.FOLLOW_UPS if not (f == "create" and (mw == 1 or no_create))])
    return dict(cls=cls, par=par, follow=follow)


_ref_first = {}


def refusal_reference(ref, specname, cls, par):
    """how the single-process run (this process, no MPI, max_workers=1) ends the request"""
    key = (specname, cls, json.dumps(par, sort_keys=True))
    if key not in _ref_first:
        d = os.path.join(ref["base"], "rf_%d" % len(_ref_first))
        env = refusal_env(d, ref, cls, None)
        impl.set_threads(1)
        with quiet_stderr():
            _ref_first[key] = cc.refusal_outcome(cls, SPECS[specname], env, par, 1)
        shutil.rmtree(d, ignore_errors=True)
    return _ref_first[key]


NEEDS_REGULAR = {"transient-job-error-%s" % op: list(cats) for op, cats in cc.FAULT_CATS.items()}
NEEDS_REGULAR.update({"cross-no-randoms": ["data", "unk"], "cross-patch-ids-differ": list(cc.CATS), "auto-patch-ids-differ": ["data", "rand"],
                 "auto-centres-misaligned": ["data"], "cross-centres-misaligned": ["data", "unk"], "create-cache-exists": ["urand"],
                 "auto-no-redshifts": ["rand"], "cross-no-redshifts": ["unk", "rand"]})


def refusal_env(d, ref, cls, caches):
    """scratch directory of one request; caches=None: private copies of the regular catalogs it uses as well"""
    cc.prepare_refusal_dir(d)
    if caches is None:
        caches = {}
        for k in NEEDS_REGULAR.get(cls, []):
            caches[k] = os.path.join(d, "c_" + k)
            cc.copy_cache(ref["caches"][k], caches[k])
    extra = {}
    for k in NEEDS_EXTRA.get(cls, []):
        extra[k] = os.path.join(d, "x_" + k)
        cc.copy_cache(ref["extra"][k], extra[k])
    return dict(dir=d, caches=caches, extra=extra)


def refusal_job(w, d, caches, ref, item, jid, seed):
    cls = item["cls"]
    mw = w["mw"]
    if cc.REFUSALS[cls][2] and mw == 1:
        mw = 2          # catalog creation on an MPI world is refused for max_workers=1 whatever the input
    env = refusal_env(os.path.join(d, "refusal_" + jid), ref, cls, caches)
    if item["follow"] == "create":      # stage_follow creates in <scratch directory>/follow
        cc.prepare_create_input(SPECS[w["spec"]], os.path.join(env["dir"], "follow"), "data", w.get("opts"))
    return dict(kind="refusal", id=jid, cls=cls, par=item["par"], follow=item["follow"], spec=SPECS[w["spec"]],
                trace=cc.REFUSALS[cls][0] in "CT", opts=w.get("opts") or {},
                env=env, max_workers=mw,
                sched=dict(mode=w["mode"], policy=w["policy"], seed=seed, hosts=host_names(w.get("hosts"))),
                ref_first=item.get("ref_first") or refusal_reference(ref, w["spec"], cls, item["par"]))


def problem_kind(prob):
    return prob[0].split(":")[0]


def handle_refusal(ctx, st, w, ref, j, res):
    run = res["runs"][0]
    cls, par, follow, size = j["cls"], j["par"], j["follow"], w["size"]
    group, request = cc.REFUSALS[cls][0], cc.REFUSALS[cls][1]
    want_first = j["ref_first"]
    idx = (w["id"], j["id"])
    sched = run.get("sched") or {}
    replay = dict(entry="refusal", refusal_class=cls, request=request, parameters=par, follow_up=follow, world_size=size,
                  max_workers=j["max_workers"], mode=w["mode"], policy=w["policy"], seed=sched.get("seed"),
                  processor_name_per_rank=w.get("hosts"), follow_up_options=w.get("opts") or {},
                  data_spec=dict(SPECS[w["spec"]], name=w["spec"]), single_process_outcome=want_first,
                  how="harness/props/c06_driver.py job kind 'refusal': cc.stage_refusal on every rank = the request, "
                      "COMM.Barrier(), then the follow-up operation on the regular data catalog")
    if group == "T":
        plan = cf.Plan(par["plan"])
        ctx.bump("transient_requests:%s/%s" % (cls.rsplit("-", 1)[1], plan_label(plan)))
        if not plan.rank_independent():
            # failing depends on the rank: the single-process run (one rank) says nothing; the request ends by raising iff
            # some execution failed
            failed = [x for x in res["runs"][0].get("xlog", []) if x[4]]
            want_first = ["raised", "(the exception of a failed execution)"] if failed else ["returned"]
    refused = want_first[0] == "raised"
    ctx.count(key=("refusal", cls, json.dumps(par, sort_keys=True), follow, size, j["max_workers"], w["mode"], w["policy"],
                   sched.get("seed"), w["spec"], tuple(w.get("hosts") or ())),
              nontrivial=(refused or group == "M") and size >= 2, kind="refusal/%s/%s" % (group, cls))
    if layout_label(w.get("hosts")) != "one-node":
        ctx.bump("refusal_runs_on_several_nodes")
    ctx.bump("refusal_single_process:" + (want_first[1] if refused else "returns"))
    first = run.get("first", {})
    prob = rank_problems(run)
    all_returned = prob is None
    root_first = first.get("0")
    root_same = group == "M" or (root_first is not None and root_first[0] == want_first[0])
    follow_same = True
    per_rank = {r: dict(request=first.get(r, ["did not come back"]), then=run["ranks"][r]["status"]) for r in sorted(run["ranks"])}
    if not all_returned:
        ctx.fail("c06-refusal-%s-%s" % (cls, problem_kind(prob)),
                 "%s on %d ranks (max_workers=%s, %s sends): the single-process run %s; under the simulated MPI world not every rank "
                 "returned from the request, the barrier and the following %s operation (%s): %s; blocked in: %s"
                 % (request, size, j["max_workers"], w["mode"], "raises " + want_first[1] if refused else "returns", follow,
                    prob[0], json.dumps(per_rank)[:700], json.dumps(run.get("blocked"))[:400]),
                 dict(replay, per_rank=per_rank, blocked=run.get("blocked")), case=idx)
    else:
        if not root_same:
            ctx.fail("c06-refusal-%s-root-outcome-differs" % cls,
                     "%s on %d ranks: the single-process run ends with %s, the root rank with %s (all ranks returned)"
                     % (request, size, want_first[:2], (root_first or [])[:2]), dict(replay, per_rank=per_rank), case=idx)
        elif refused and group == "T":
            # one exception kind planned and failing independent of the rank: class and errno as in the single-process run
            # (several kinds: whichever failed execution reaches the root first - checked per iter_unordered call)
            plan = cf.Plan(par["plan"])
            if plan.rank_independent() and len(set(plan.kinds)) == 1 and (root_first[1], (root_first + [None] * 4)[3]) != (want_first[1], (want_first + [None] * 4)[3]):
                ctx.fail("c06-refusal-%s-exception-class-differs" % cls,
                         "%s on %d ranks: the single-process run raises %s (errno %s), the root rank %s (errno %s)"
                         % (request, size, want_first[1], (want_first + [None] * 4)[3], root_first[1], (root_first + [None] * 4)[3]),
                         dict(replay, per_rank=per_rank), case=idx)
        elif refused and group != "M" and root_first[1] != want_first[1]:
            ctx.disagree("refusal-exception-type(root vs single process)", idx,
                         dict(replay=replay, root=root_first, single_process=want_first))
        val = run["ranks"]["0"].get("value") or {}
        wref = w.get("_ref") or world_reference(ctx, ref, w["spec"], w.get("opts") or {})
        want = {"create": wref["create"]} if follow == "create" else \
            {follow: ({"data": wref["rest"]["load"]["data"]} if follow == "load" else wref["rest"][follow])}
        diff = cc.first_diff(want, val)
        if follow == "create" and (w.get("opts") or {}).get("create_mode") == "num" and \
                None in (wref["create"].get("union"), (val.get("create") or {}).get("union", 0)):
            ctx.bump("create_num_kmeans_left_a_centre_empty(not compared)")
            diff = None
        follow_same = diff is None
        if diff:
            ctx.fail("c06-refusal-%s-followup-differs" % cls,
                     "%s on %d ranks, then %s in the same world: the root's result differs from the single-process run at %s"
                     % (request, size, follow, diff), dict(replay, per_rank=per_rank, first_difference=diff), case=idx)
        else:
            ctx.bump("refusal_followup_equal:" + follow)
        kinds = {v[0] for r, v in first.items()}
        ctx.bump("refusal_all_ranks_same_outcome" if len(kinds) == 1 else "refusal_ranks_end_request_differently")
        if run["leftover"]:
            ctx.bump("refusal_runs_with_unreceived_messages")
        handle_episodes(ctx, st, w, j, run, idx, replay)
    worlds = []
    for cid in sorted(run.get("ctraces", {}), key=int):
        tr = run["ctraces"][cid]
        worlds.append(fq.lst([fq.nlist(tr[r]) for r in sorted(tr, key=int)]))
    st["rterms"].append("c06_refusal_case %s %s %s %s" % (fq.lst(worlds), fq.b(all_returned), fq.b(root_same), fq.b(follow_same)))
    st["rmeta"].append(dict(idx=idx, replay=replay, expect=2 * (not all_returned) + 4 * (not root_same) + 8 * (not follow_same)))
    ctx.sample(dict(kind="refusal", replay=replay, per_rank=per_rank, all_returned=all_returned,
                    collective_calls_comm_world=run.get("ctraces", {}).get("0")), limit=6)


def finish_refusals(ctx, st):
    codes = ctx.shards("Cases_C06R", HEADER_R, st["rterms"], shard=150)
    bad = []
    for m, c in zip(st["rmeta"], codes):
        if c is None:
            continue
        if c & 1:       # all ranks returned although some communicator's members entered different collectives
            ctx.disagree("Cases_C06R(all returned -> collectives aligned)", m["idx"], dict(code=c, replay=m["replay"]))
        if (c & 14) != m["expect"]:
            bad.append((m["idx"], c, m["expect"]))
    ctx.obligation("refusal cases: the Coq checker reports the flags the harness acted on", not bad, json.dumps(bad[:5]))


def pipeline_job(ctx, w, ref):
    d = os.path.join(ctx.workdir, "world_%s" % w["id"])
    os.makedirs(d, exist_ok=True)
    spec = SPECS[w["spec"]]
    sched = dict(mode=w["mode"], policy=w["policy"], seed=w["seed"], hosts=host_names(w.get("hosts")))
    caches = {}
    for k in cc.CATS:
        caches[k] = os.path.join(d, "cache_" + k)
        cc.copy_cache(ref["caches"][k], caches[k])
    os.makedirs(os.path.join(d, "out"), exist_ok=True)
    jobs = []
    if w.get("create", True):
        cc.prepare_create_input(spec, os.path.join(d, "created"), "data", w.get("opts"))
        jobs.append(dict(kind="create", id="create", spec=spec, cache=os.path.join(d, "created"), which="data",
                         max_workers=w["mw"], sched=sched, keep_log=True, opts=w.get("opts") or {}))
    jobs.append(dict(kind="rest", id="rest", spec=spec, caches=caches, outdir=os.path.join(d, "out"),
                     max_workers=w["mw"], sched=dict(sched, seed=w["seed"] + 1), keep_log=False, ops=w.get("ops"),
                     opts=w.get("opts") or {}))
    for i, item in enumerate(w.get("refusals", [])):
        jobs.append(refusal_job(w, d, caches, ref, item, "r%02d" % i, w["seed"] + 2 + i))
    return dict(size=w["size"], jobs=jobs)


OPS_WHAT = {
    "load": "Catalog(cache) / load_patches", "trees": "Catalog.build_trees", "auto": "yaw.autocorrelate",
    "cross": "yaw.crosscorrelate", "hist": "HistData.from_catalog", "io_hist": "HistData.to_files/from_files",
    "io_cf": "CorrFunc.to_file/from_file", "io_cf_equal": "CorrFunc.from_file(path) == written instance",
}


def handle_pipeline(ctx, w, ref, out, st, jobs):
    spec = SPECS[w["spec"]]
    opts = w.get("opts") or {}
    hosts = w.get("hosts")
    base = dict(world_size=w["size"], max_workers=w["mw"], mode=w["mode"], policy=w["policy"], seed=w["seed"],
                processor_name_per_rank=hosts,
                data_spec=dict(spec, name=w["spec"]), optional_keyword_arguments=opts, ops=w.get("ops"), create=w.get("create", True))
    okey = json.dumps(opts, sort_keys=True)
    wref = w.get("_ref") or world_reference(ctx, ref, w["spec"], opts)
    w["_ref"] = wref
    byid = {j["id"]: j for j in jobs}
    for res in out["results"]:
        if res.get("skipped"):
            ctx.bump("stage_skipped_after_stuck_threads")
            continue
        if res.get("kind") == "refusal":
            handle_refusal(ctx, st, w, ref, byid[res["id"]], res)
            continue
        run = res["runs"][0]
        stage = res["id"]
        idx = (w["id"], stage)
        replay = dict(base, stage=stage, schedule=run.get("sched"),
                      how="harness/props/c06_driver.py with this job: size, spec, max_workers, sched, opts "
                          "(c06_common.stage_create / stage_rest on every rank)")
        ctx.count(key=("pipeline", stage, w["size"], w["mw"], w["mode"], w["policy"], w["seed"], w["spec"], okey, tuple(hosts or ())),
                  nontrivial=nontrivial_run(run), kind="%s/size%d/mw%s/%s%s" % (stage, w["size"], w["mw"], w["mode"],
                                                                                "" if layout_label(hosts) == "one-node" else "/several-nodes"))
        ctx.bump("layout/%s:%s" % (stage, layout_label(hosts)))
        for name in sorted(opts):
            if name == "progress":
                for op in opts[name]:
                    if op != "create" if stage == "rest" else op == "create":
                        ctx.bump("option:progress=True/" + op)
            elif (name in ("cs", "create_mode", "probe")) == (stage == "create"):
                ctx.bump("option:%s=%s" % (name, json.dumps(opts[name], sort_keys=True)))
        if stage == "create" and write_plan(w["size"], w["mw"], hosts) is None:
            # the root has no second (allowed) rank on its node: reader and writer cannot be two ranks of that node.  Not an
            # input the property promises a catalog for - the request may be refused, but on EVERY rank and the same way
            raised = sorted({v.get("type") for v in run["ranks"].values() if v["status"] == "exc"})
            if run["outcome"] == "ok" and all(v["status"] == "exc" for v in run["ranks"].values()) and len(raised) == 1:
                ctx.bump("create_refused_on_every_rank(no second rank on the root's node):" + raised[0])
                layout_term(ctx, st, w, idx, replay, None, True, 0, 0)
                ctx.sample(dict(kind="create-refused-by-layout", replay=base, every_rank_raised=raised[0]), limit=2)
                continue
        prob = rank_problems(run)
        if prob:
            # the operation the slowest rank was in when the world stopped (stage_rest marks every operation per rank)
            at = run.get("at") or {}
            order = ["load", "trees", "trees-again", "auto", "cross", "hist", "io_hist", "io_cf", "done"]
            behind = sorted((order.index(v) for v in at.values() if v in order and v != "done"))
            where = "create" if stage == "create" else (order[behind[0]] if behind else stage)
            what = {"create": "Catalog.from_dataframe", "load": "Catalog(cache)", "trees": "Catalog.build_trees",
                    "trees-again": "Catalog.build_trees (second call)", "auto": "yaw.autocorrelate", "cross": "yaw.crosscorrelate",
                    "hist": "HistData.from_catalog", "io_hist": "HistData.to_files/from_files",
                    "io_cf": "CorrFunc.to_file/from_file"}.get(where, "entry points after creation")
            ctx.fail("c06-%s-%s" % (where.replace("_", "-"), prob[0]),
                     "%s (optional keyword arguments of the world: %s) under the simulated MPI world did not return on all ranks (%s): "
                     "%s; operation per rank when the world stopped: %s; blocked in: %s"
                     % (what, okey, prob[0], json.dumps(prob[1], default=str)[:700], json.dumps(at, sort_keys=True),
                        json.dumps((run.get("abort") or {}).get("blocked"))[:400]),
                     dict(replay, operation_per_rank=at), case=idx)
            continue
        val = run["ranks"]["0"]["value"]
        if stage == "create" and opts.get("create_mode") == "num":
            # the library chose the patch centres (k-means, not seeded): all records must be stored, nothing else is comparable
            want = wref["create"]
            if want.get("union") is None or (val or {}).get("union") is None:
                ctx.bump("create_num_kmeans_left_a_centre_empty(not compared)")
                continue
            diff = cc.first_diff(want, val)
            ctx.bump("create_num_union_equal" if not diff else "create_num_union_differs")
            layout_term(ctx, st, w, idx, replay, run, False, want["union"]["num_records"], val["union"]["num_records"])
            if diff:
                st["create_failed"].add(idx)
                ctx.fail("c06-create-root-result-differs",
                         "Catalog.from_dataframe(patch_num=%d, probe_size=%s): the records stored in the root's catalog differ from the "
                         "single-process run at %s (unreceived messages: %s)" % (spec["ncent"], opts.get("probe"), diff, run["leftover"][:4]),
                         dict(replay, first_difference=diff), case=idx)
            continue
        if stage == "create":
            want = wref["create"]
            diff = cc.first_diff(want, val)
            obs = write_observation(run)
            writer = 1 if obs is None else obs["writer"]      # (one node: the lowest rank after the reader)
            ctx.bump("create_writer_rank:%d" % writer)
            senders = sorted({e[1] for e in run.get("log", []) if e[2] in ("send", "ssend") and e[3] == writer and e[4] == 1 and e[5] == 0})
            ctx.bump("create_senders:%d" % len(senders))
            layout_term(ctx, st, w, idx, replay, run, False, sum(len(v["rows"]) for v in want.values()),
                        sum(len(v.get("rows", [])) for v in (val or {}).values()), obs)
            if run["leftover"]:
                ctx.bump("create_runs_with_unreceived_messages")
            # C06_write_stopped_rest on the implementation: per patch, stored + unreceived = input
            rest = {}
            for m in run["leftover"]:
                if m[1] == writer and m[2] == 1 and m[3] == 0 and m[4].startswith("dict:{"):
                    for item in m[4][6:-1].split(", "):
                        if ":" in item:
                            k, v = item.split(":")
                            rest[k.strip()] = rest.get(k.strip(), 0) + int(v)
            cons = all(len(want[p]["rows"]) == len(val.get(p, {}).get("rows", [])) + rest.get(p, 0) for p in want) \
                and set(val) <= set(want)
            ctx.bump("create_conservation_ok" if cons else "create_conservation_broken")
            if not cons and not diff:
                ctx.disagree("write-conservation(stored+unreceived=input)", idx, dict(replay=replay, unreceived=run["leftover"][:6]))
            if diff:
                st["create_failed"].add(idx)
                if cons and is_f13b(run, writer):
                    lost = sum(len(v["rows"]) for v in want.values()) - sum(len(v["rows"]) for v in val.values())
                    ctx.fail(F13B, "Catalog.from_dataframe on %d ranks (max_workers=%s, eager sends): the writer's wildcard receive "
                                   "matched the reader's end-of-queue sentinel while %d patch dictionaries of other ranks were still "
                                   "queued; %d records lost, no error, all ranks returned"
                             % (w["size"], w["mw"], len(run["leftover"]), lost),
                             dict(replay, unreceived=run["leftover"][:8], first_difference=diff), case=idx)
                else:
                    ctx.fail("c06-create-root-result-differs",
                             "Catalog.from_dataframe: root's catalog differs from the single-process run at %s (unreceived messages: %s)"
                             % (diff, run["leftover"][:4]), dict(replay, first_difference=diff), case=idx)
            ctx.sample(dict(kind="create", replay=base, senders=senders, decisions=len(run["decisions"]),
                            unreceived=len(run["leftover"]), equal=diff is None), limit=5)
        else:
            want = wref["rest"]
            ops = [o for o in want if (w.get("ops") is None or o in w["ops"])]
            for op in ops:
                a, b = want[op], (val or {}).get(op)
                if op == "load":
                    diff = cc.first_diff(a, b)
                else:
                    diff = cc.first_diff(a, b)
                if not diff:
                    ctx.bump("equal:" + op)
                    continue
                if w["mw"] == 1 and op == "load" and all(v == {} for v in (b or {}).values()):
                    ctx.fail(F13A, "Catalog(cache, max_workers=1) on %d ranks: no patch is loaded, the root's catalog is empty"
                             % w["size"], dict(replay, op=op), case=idx)
                else:
                    ctx.fail("c06-%s-root-result-differs" % op.replace("_", "-"),
                             "%s: root result differs from the single-process run at %s" % (OPS_WHAT.get(op, op), diff),
                             dict(replay, op=op, first_difference=diff), case=idx)


def dict_records(summ):
    """number of records in a patch dictionary from its log summary 'dict:{patch id:records, ...}' (None: cut off)"""
    if not summ.startswith("dict:{") or summ.endswith("...}"):
        return None
    return sum(int(item.split(":")[1]) for item in summ[6:-1].split(", ") if ":" in item)


def write_observation(run):
    """who took part in the write pipeline of one creation run, from the communication log up to the reader's end-of-queue
    sentinel (what follows belongs to load_patches): the writer = the rank the patch dictionaries (tag 1, COMM_WORLD) go to,
    the processing ranks = the ranks that send them, and per processing rank the records of each of its dictionaries (one
    per chunk, in order).  None when the log does not show a complete pipeline run"""
    writer, sizes, closed = None, {}, False
    for e in run.get("log", []):
        rank, op, peer, tag, cid, summ = e[1:7]
        if op not in ("send", "ssend") or tag != 1 or cid != 0:
            continue
        if summ == EOQ and rank == 0:
            writer, closed = (peer if writer is None else writer), True
            break
        if summ.startswith("dict:"):
            k = dict_records(summ)
            if k is None or (writer is not None and peer != writer):
                return None
            writer = peer
            sizes.setdefault(rank, []).append(k)
    if not closed or not sizes:
        return None
    return dict(writer=writer, procs=sorted(sizes), sizes=sizes)


def layout_term(ctx, st, w, idx, replay, run, refused, n_input, n_stored, obs=None):
    """one creation run against Model/MpiWrite.v (node layouts): who takes part, how every chunk is cut, records handed out = input
    records = stored records"""
    hosts = w.get("hosts") or [0] * w["size"]
    if refused:
        obs = dict(writer=0, procs=[], sizes={})
    else:
        obs = obs or write_observation(run)
        if obs is None:
            ctx.bump("layout_runs_without_complete_pipeline_log(not replayed)")
            return
    procs = obs["procs"]
    nchunks = max([len(v) for v in obs["sizes"].values()] or [0])
    if any(len(v) != nchunks for v in obs["sizes"].values()):
        ctx.bump("layout_runs_with_unequal_dictionary_counts")
    pieces = [[(obs["sizes"][r][i] if i < len(obs["sizes"][r]) else 0) for r in procs] for i in range(nchunks)]
    members = sorted(procs + ([] if refused else [obs["writer"]]))
    st["lterms"].append("c06_layout_case %s %s %s %s %s %s %s %s %s" % (
        fq.nlist(hosts), oopt(w["mw"]), fq.b(refused), fq.nat(obs["writer"]), fq.nlist(members), fq.nlist(procs),
        fq.lst([fq.nlist(p) for p in pieces]), fq.nat(n_input), fq.nat(n_stored)))
    st["lmeta"].append(dict(idx=idx, replay=dict(replay, writer_rank=obs["writer"], processing_ranks=procs,
                                                 records_per_chunk_and_processing_rank=pieces[:12]),
                            refused=refused, writer=obs["writer"], procs=procs, pieces=pieces, n_input=n_input, n_stored=n_stored,
                            hosts=hosts, mw=w["mw"], size=w["size"]))
    if not refused:
        ctx.bump("layout_processing_ranks:%d/allowed_workers:%d" % (len(procs), min(w["mw"] or w["size"], w["size"])))
        if layout_label(w.get("hosts")) != "one-node":
            ctx.sample(dict(kind="create-on-several-nodes", replay=replay, writer_rank=obs["writer"], processing_ranks=procs,
                            records_per_chunk_and_processing_rank=pieces[:6], input_records=n_input, stored_records=n_stored), limit=4)


def finish_layouts(ctx, st):
    codes = ctx.shards("Cases_C06L", HEADER_R, st["lterms"], shard=200)
    for m, c in zip(st["lmeta"], codes):
        if c is None or c == 0:
            continue
        handed = sum(sum(p) for p in m["pieces"])
        where = "%d ranks with processor names %s, max_workers=%s: writer rank %d, processing ranks %s" % (
            m["size"], m["hosts"], m["mw"], m["writer"], m["procs"])
        if c & 2:
            ctx.fail("c06-create-layout-records-lost-at-scatter",
                     "catalog creation on %s: the processing ranks turned %d records into patch dictionaries, the input has %d "
                     "(per chunk and processing rank: %s); all ranks returned" % (where, handed, m["n_input"], m["pieces"][:8]),
                     m["replay"], case=m["idx"])
        if c & 4 and not (c & 2) and m["idx"] not in st["create_failed"]:
            ctx.fail("c06-create-layout-stored-records-differ",
                     "catalog creation on %s: the root's catalog holds %d records, the single-process catalog %d (handed to the "
                     "processing ranks: %d); all ranks returned" % (where, m["n_stored"], m["n_input"], handed), m["replay"], case=m["idx"])
        if c & 1:
            ctx.disagree("Cases_C06L(node layout: participants / cut of a chunk)", m["idx"],
                         dict(code=c, replay=m["replay"], refused=m["refused"],
                              model="writer and processing ranks = the first min(max_workers or size, size) ranks with the root's "
                                    "processor name; every chunk cut as numpy.array_split over the processing ranks"))


def is_f13b(run, wr=1):
    """structural test: all ranks returned; up to the moment the writer (rank wr) received the
    end-of-queue sentinel, the sentinel was the reader's LAST message to the writer (so the
    reader's own dictionaries were delivered, FIFO), and what is left unreceived are only
    dictionaries that OTHER ranks had sent eagerly to the writer before that moment"""
    left = run["leftover"]
    log = run.get("log", [])
    if not left or any(not (m[1] == wr and m[2] == 1 and m[3] == 0 and m[0] != 0 and m[4].startswith("dict:")) for m in left):
        return False
    stop = [e[0] for e in log if e[1] == wr and e[2] == "recv" and e[3] == 0 and e[5] == 0 and e[6] == EOQ]
    if not stop:
        return False
    before = [e for e in log if e[0] < stop[0]]
    from0 = [e for e in before if e[1] == 0 and e[2] in ("send", "ssend") and e[3] == wr and e[4] == 1 and e[5] == 0]
    if not from0 or from0[-1][6] != EOQ or any(e[6] == EOQ for e in from0[:-1]):
        return False
    eager = [(e[1], e[6]) for e in before if e[2] == "send" and e[3] == wr and e[4] == 1 and e[5] == 0]
    return all((m[0], m[4]) in eager for m in left)


# ------------------------------------------------------------------------------------------
def new_state():
    return dict(terms=[], meta=[], noterm=[], rterms=[], rmeta=[], eterms=[], emeta=[], enoterm=[], qterms=[], qmeta=[],
                lterms=[], lmeta=[], create_failed=set(), xterms=[], xmeta=[], xnoterm=[])


def run(ctx):
    t0 = time.time()
    workers = 8
    st = new_state()
    # (iv) process-backed worlds run in background threads (their own interpreter processes) while this thread computes the references
    pwh = procw.start(ctx)
    # plan
    dworlds = []
    nbatch = ctx.n(1, 4)
    for b in range(nbatch):
        for size in (2, 3, 4, 5):
            for mode in ("eager", "sync", "mixed"):
                dworlds.append(dict(id="d%d_%d_%s" % (b, size, mode), size=size, mode=mode,
                                    jobs=dispatch_jobs(ctx, size, mode, b)))
    pworlds = pipeline_worlds(ctx)
    refs = {}
    for name in sorted({w["spec"] for w in pworlds}):
        refs[name] = reference(ctx, name)
    for w in pworlds:           # single-process results of the same calls with the same optional keyword arguments
        w["_ref"] = world_reference(ctx, refs[w["spec"]], w["spec"], w.get("opts") or {})
    ctx.log("reference runs with optional keyword arguments: %d (data spec, option set) scenarios (%.1fs)"
            % (len(_world_refs), time.time() - t0))
    nref = 0
    for w in pworlds:           # single-process outcome of every refused request (this thread, before any world runs)
        for item in w.get("refusals", []):
            item["ref_first"] = refusal_reference(refs[w["spec"]], w["spec"], item["cls"], item["par"])
            nref += 1
    ctx.log("reference runs for %d data specs and %d refused requests (%d distinct) done (%.1fs); %d dispatch + %d pipeline "
            "world processes" % (len(refs), nref, len(_ref_first), time.time() - t0, len(dworlds), len(pworlds)))

    def do_d(w):
        return w, launch(ctx, w["id"], dict(size=w["size"], jobs=w["jobs"]))

    def do_p(w):
        job = pipeline_job(ctx, w, refs[w["spec"]])
        w["_jobs"] = job["jobs"]
        return w, launch(ctx, w["id"], job)

    selftest = None
    try:
        with ThreadPoolExecutor(max_workers=workers) as ex:
            dres = list(ex.map(do_d, dworlds))
            pres = list(ex.map(do_p, pworlds))
    finally:
        stray = reap()
    ctx.obligation("no stray driver process", stray == 0, "%d killed" % stray)
    ctx.log("worlds done (%.1fs)" % (time.time() - t0))

    walls = []
    for w, r in dres + pres:
        walls.append(r["wall"])
        out = r["out"]
        ok = (out is not None and not r["killed"] and r["rc"] == 0 and out.get("mpi_branch") and out.get("yaw_from_repo")
              and len(out.get("results", [])) == len(w["jobs"] if "jobs" in w else out.get("results", [])))
        ctx.obligation("world process %s (size %d) ran to completion on the MPI branches of the tree under test" % (w["id"], w["size"]),
                       ok, json.dumps(dict(rc=r["rc"], killed=r["killed"], stdout=r["stdout"],
                                           head={k: v for k, v in (out or {}).items() if k != "results"}))[:3000])
        if out is None:
            continue
        if "jobs" in w:
            for j, res in zip(w["jobs"], out["results"]):
                if j["kind"] == "selftest":
                    selftest = res.get("selftest")
                elif res.get("skipped"):
                    ctx.bump("dispatch_job_skipped_after_stuck_threads")
                elif j.get("fault") is not None:
                    handle_xfault(ctx, st, w["size"], j, res)
                elif j.get("bad") is not None:
                    handle_joberr(ctx, st, w["size"], j, res)
                else:
                    handle_dispatch(ctx, st, w["size"], j, res)
        else:
            handle_pipeline(ctx, w, refs[w["spec"]], out, st, w["_jobs"])
        shutil.rmtree(r["dir"], ignore_errors=True)
    ctx.obligation("simulator self-check (FIFO per sender, steered wildcard, sync blocks, deadlock and mismatch detection, "
                   "collectives, determinism)", bool(selftest) and all(selftest.values()), json.dumps(selftest))
    ctx.log("results interpreted (%.1fs)" % (time.time() - t0))
    finish_dispatch(ctx, st)
    ctx.log("dispatch shards done (%.1fs)" % (time.time() - t0))
    finish_refusals(ctx, st)
    ctx.log("refusal shards done (%.1fs)" % (time.time() - t0))
    finish_edispatch(ctx, st)
    ctx.log("job-error shards done (%.1fs)" % (time.time() - t0))
    finish_xdispatch(ctx, st)
    ctx.log("transient-failure shards done (%.1fs)" % (time.time() - t0))
    finish_qdispatch(ctx, st)
    ctx.log("consumer-stop shards done (%.1fs)" % (time.time() - t0))
    finish_layouts(ctx, st)
    ctx.log("layout shards done (%.1fs)" % (time.time() - t0))
    procw.finish(ctx, pwh)
    ctx.log("process worlds judged (%.1fs)" % (time.time() - t0))
    ctx.extra["node_layouts"] = dict(
        creation_runs_replayed=len(st["lterms"]), pipeline_worlds_on_several_nodes=sum(1 for w in pworlds if layout_label(w.get("hosts")) != "one-node"),
        layouts=sorted({layout_label(w.get("hosts")) for w in pworlds}),
        what="every creation run (one node and several) against c06_layout_case (Model/MpiWrite.v): writer and processing ranks = the "
             "allowed ranks on the root's node, every chunk cut as numpy.array_split over the processing ranks, records handed out = "
             "input = stored; the other entry points of such worlds are compared with the single-process run as on one node")
    ctx.extra["refusals"] = dict(classes={c: cc.REFUSALS[c][0] for c in sorted(cc.REFUSALS)}, runs=len(st["rterms"]),
                                 groups="A: decided by every rank; B: detected by one rank (root reads / writer opens); "
                                        "C: raised by the job on a worker rank; M: refused under MPI only")
    ctx.extra["worlds"] = dict(dispatch_processes=len(dworlds), pipeline_processes=len(pworlds),
                               dispatch_runs=len(st["terms"]) + len(st["noterm"]),
                               max_process_wall_s=max(walls) if walls else None)
    ctx.extra["job_errors"] = dict(runs=len(st["eterms"]) + len(st["enoterm"]),
                                   what="failing-job dispatch runs and iter_unordered episodes of group C refusals replayed "
                                        "through estep_with (Model/Dispatch.v, c06_edispatch_case)")
    ctx.extra["transient_failures"] = dict(
        runs=len(st["xterms"]) + len(st["xnoterm"]), exception_kinds_in_catalogue=len(cf.all_kinds()),
        exception_classes_seen=len(_cls_codes),
        what="iter_unordered runs and iter_unordered calls of group T requests (Catalog(cache), build_trees, autocorrelate, crosscorrelate, "
             "HistData.from_catalog) whose jobs record every execution and fail as planned (first execution only / always / given ranks only; "
             "errno-carrying OSErrors, classes without errno, own subclasses), judged and replayed by c06_xdispatch_case (Model/DispatchRetry.v)")
    ctx.extra["consumer_stops"] = dict(runs=len(st["qterms"]),
                                       what="iter_unordered consumed by islice / a breaking loop with an item limit <= number of tasks, replayed "
                                            "through qstep_with (Model/Dispatch.v, c06_qdispatch_case); tie only")
    ctx.extra["optional_keyword_arguments"] = dict(
        scenarios=len(_world_refs), worlds_with_options=sum(1 for w in pworlds if w.get("opts")),
        what="(data spec, option set) pairs for which the single-process reference was recomputed with the same arguments")
    ctx.extra["hypotheses_checked"] = ["every logged event enabled in Model/Dispatch.v step_with (flag0)",
                                       "failing jobs: every logged event enabled in estep_with, final model state = observed "
                                       "yields / executed tasks / per-rank outcome (flag0 of c06_edispatch_case)",
                                       "none needed: dispatch_exactly_once_total has no hypothesis on the rank set",
                                       "consumer with an item limit k: k > |tasks| -> ordinary protocol run (C06_consumer_exhausts_is_protocol), "
                                       "checked by c06_dispatch_case; 1 <= k <= |tasks| -> every logged event enabled in qstep_with and the "
                                       "model ends stopped + quiet iff only the root returned (flag0 of c06_qdispatch_case)",
                                       "refusal runs: all ranks returned -> the logged collective calls of every communicator "
                                       "are aligned (C06_collectives_terminate_iff_aligned, flag0 of c06_refusal_case)",
                                       "creation runs: nproc hosts mw = Some (number of observed processing ranks) and every chunk cut as "
                                       "scatter does (C06_layout_no_loss; flag0 of c06_layout_case)",
                                       "transient failures: every logged event (task message, execution with its outcome, result message, closing "
                                       "broadcast) enabled in xstep_with of the worker that executes once, final model state = observed yields / "
                                       "execution log / per-rank outcome (flag0 of c06_xdispatch_case; C06_exec_exactly_once, C06_exec_error_iff); "
                                       "C06_exec_agrees_with_single_process: its hypothesis (failing is a property of the task) holds for plans "
                                       "`first` / `always` (bad0 given), not for `ranks` (bad0 = None)",
                                       "process worlds: every read of a rank is a read of the model world (rank < world size, one observation "
                                       "per read; flag0 of c06_memo_case) and returns the current version (flag1; C06_world_memo_case_sound)"]


def replay(ctx, data):
    """re-run the world of a replay file"""
    r = data.get("replay", data)
    size = r["world_size"]
    if r.get("entry") == "procworld":
        procw.replay(ctx, r)
        return
    if r.get("entry") == "parallel.iter_unordered":
        job = dict(size=size, jobs=[dict(kind="dispatch", id=0, tasks=r["tasks"], max_workers=r["max_workers"],
                                         node_only=r.get("rank0_node_only"), sched=r["schedule"], consumer=r.get("consumer"),
                                         stop=r.get("consumer_asks_for_at_most"))])
        if r.get("job_raises_for") is not None:
            job["jobs"][0]["bad"] = r["job_raises_for"]
        if r.get("fault_plan") is not None:
            job["jobs"][0]["fault"] = r["fault_plan"]
        res = launch(ctx, "replay", job)
        st = new_state()
        if r.get("fault_plan") is not None:
            handle_xfault(ctx, st, size, job["jobs"][0], res["out"]["results"][0])
            finish_xdispatch(ctx, st)
            finish_edispatch(ctx, st)
        elif r.get("job_raises_for") is not None:
            handle_joberr(ctx, st, size, job["jobs"][0], res["out"]["results"][0])
            finish_edispatch(ctx, st)
        else:
            handle_dispatch(ctx, st, size, job["jobs"][0], res["out"]["results"][0])
            finish_dispatch(ctx, st)
            finish_qdispatch(ctx, st)
    elif r.get("entry") == "refusal":
        name = r["data_spec"]["name"]
        ref = reference(ctx, name)
        w = dict(id="replay", size=size, mw=r["max_workers"], mode=r["mode"], policy=r["policy"], seed=r["seed"] - 2, spec=name,
                 hosts=r.get("processor_name_per_rank"), create=False, ops=["load"], opts=r.get("follow_up_options") or {},
                 refusals=[dict(cls=r["refusal_class"], par=r["parameters"], follow=r["follow_up"])])
        job = pipeline_job(ctx, w, ref)
        res = launch(ctx, "replay", job)
        st = new_state()
        handle_pipeline(ctx, w, ref, res["out"], st, job["jobs"])
        finish_refusals(ctx, st)
        finish_edispatch(ctx, st)
        finish_xdispatch(ctx, st)
    else:
        name = r["data_spec"]["name"]
        ref = reference(ctx, name)
        w = dict(id="replay", size=size, mw=r["max_workers"], mode=r["mode"], policy=r["policy"], seed=r["seed"], spec=name,
                 hosts=r.get("processor_name_per_rank"),
                 opts=r.get("optional_keyword_arguments") or {}, ops=r.get("ops"), create=r.get("create", True))
        job = pipeline_job(ctx, w, ref)
        res = launch(ctx, "replay", job)
        st = new_state()
        handle_pipeline(ctx, w, ref, res["out"], st, job["jobs"])
        finish_layouts(ctx, st)
    reap()
