"""C08 — a crash never leaves a cache that is silently wrong.

Tie (DESIGN §5 C08, §4.3): every cache-writing workload is run once for real under strace
(harness/crash/trace.py).  (i) The recorded file operations, abstracted to the alphabet of
Model/FsCrash.v, must equal the model's operation list (c08_ops, compared inside Coq).  (ii) For
EVERY prefix of the real operation list the directory a crash at that point leaves is materialised
(harness/crash/replay.py: prior state + first k operations) and handed to the real recovery code in
a long-lived worker (props/c08_driver.py): Catalog(cache), build_trees + crosscorrelate compared
with the same measurement on fresh caches, CorrFunc.from_file, CorrData.from_files.  The outcome
class (error / equals old / equals new / other) must equal the model's (c08_case) and "other" is a
failure of the property itself.  Thorough tier: a sample of crash points is also produced for real
with strace's SIGKILL injection and must equal the replayed prefix byte for byte.

Result products under user-given names (workload kind "product"): CorrData / RedshiftData / HistData.to_files,
CorrFunc.to_file and Configuration.to_file are run over generated path SHAPES (dots in the last component, a
trailing suffix that looks like an extension, leading / trailing dot, dotted nested directories, relative to the
working directory or to a subdirectory, str or pathlib.Path) and over prior states that the implementation
itself produced under the same path (a complete older product, leftovers of an earlier crash, nothing).  The
file names the implementation derives from the path when it removes, writes and reads are taken from the traces
(unlink attempts, writes, read-only opens) and are parameters of the model (WProduct: theorems
C08_crash_safe_product / C08_names_ok); recovery = the same class' from_files / from_file on the same path.

Sizes above the user-space buffers (scale "x", create / overwrite only, every tier): two patches of ~1500 records
each, handed to the writers in pieces of which some are smaller than an io buffer (4 KiB here), some several times
larger, and the last one of every patch small.  At these sizes buffering is visible at system-call granularity: one
piece reaches data.bin in several write calls (ndarray.tofile: whole blocks, then the rest), and a writer that keeps
data in a buffered handle issues its writes late.  The model takes how each piece is cut into system calls from the
trace (WCreateB / WOverwriteB, theorems C08_crash_safe_create_buffered / _overwrite_buffered hold for EVERY cutting;
C08_marker_before_flush_refuted is the unsafe order) and abstracts a record to the piece that delivered it
(run-length terms); the crash states are classified by the real recovery on the real bytes as everywhere else.

Deaths by UNWINDING (every tier, small scale; thorough: scale m too).  A process rarely dies at a system call: SIGINT becomes a
KeyboardInterrupt, a SIGTERM handler calls sys.exit, an exception is not caught, and then handlers, __exit__ methods and finally
blocks run, in the main process and (max_workers > 1: the multiprocessing path of write_patches with its dedicated writer process,
the pools of build_trees) in the processes it started, which may write on when the main process is gone.  Each case is one REAL
run of a workload as a process group of its own (c08_driver.py interrupted) that dies (i) when the k-th chunk is requested from
the data source, for every k, with 1, 2 and 3 workers, by KeyboardInterrupt / SystemExit / OSError raised in the reader, by SIGINT
with the default handler, by SIGTERM with a handler that exits, by SIGTERM with the default action (thorough: also SIGINT to the
whole group), or (ii) at the k-th call of a python function of the package for k drawn over the whole run (creation, overwrite,
tree building, result files).  When the group has come to rest (processes left behind get a moment, then are killed) the directory
is classified by the same recovery as the crash states and abstracted to a model state; Coq evaluates c08_unwound: the model's
recovery of that state gives the same class, the class is not "other", and (where the position determines the state: unwinding, or
one process) the state is one that some crash point of the uninterrupted run leaves as well (prefix_state_b; theorems
C08_unwound_as_crash, C08_unwound_create_safe / _overwrite_safe; the abort path of write_patches is C08_unwound_create_prefix /
_err, the regular end on the abort path is C08_finalize_on_abort_refuted).

REBUILDS over an already valid older state (every tier; generated).  The hand-written tree workloads crash first builds and
implicit rebuilds from one earlier binning; a rebuild is really (earlier state, requested binning, force): the cache holds, on
every patch, trees + marker valid for an earlier binning X - with the same number of bins as the requested Y and other edges,
the other closed side or both, with ANOTHER number of bins (b4: three), unbinned - or no trees at all, and build_trees(Y) runs
with force=True or implicitly because the stored binning differs.  rebuild_matrix draws these from strata (quick: one workload
per forced stratum and two implicit ones; thorough: the full matrix on scale s); EVERY file-system operation of the rebuild is
a crash point (same strace / prefix-replay machinery), and every crash state is measured with X again, with Y and with a third
binning; the oracle is the measurement on a fresh cache of the same data (never a recorded output).  Model: Model/FsRebuild.v
(a rebuild = phases invalidate | trees | marker in an order that may depend on `force`; recovery that knows the bin counts:
more trees than bins raise, fewer are used silently); theorems C08_rebuild_over_valid_safe(_bins) / _class_safe / _chain_safe /
_complete for the order invalidate, trees, marker; C08_keep_marker_stale / C08_marker_before_trees_stale (for ALL X <> Y) and
C08_forced_rebuild_stale_refuted / C08_phase_orders_classified for the others.  Coq also decides, per traced rebuild, which
disciplines explain its operation list (evidence: rebuild_disciplines) and the hypotheses of the theorems on the prior state.

LARGE MARKERS (every tier; props/c08_marker.py).  patch_ids.bin holds 2 bytes per patch; written in place through a stdio stream a
list of more than 2048 ids reaches the file in SEVERAL write system calls, and a process that dies between them leaves a valid
shorter marker.  Real creations / overwrites of catalogs with 2040 .. 5000 patches (sizes on both sides of every 4096-byte
boundary of the marker) run in a child interpreter that is killed at every such boundary (RLIMIT_FSIZE lowered right before
CatalogWriter.finalize, SIGXFSZ); Catalog(cache) in a fresh interpreter must raise or hold ALL patches and records (overwrite:
or the complete old catalog), never a subset.  Model: the id list is written aside (PTmp) and moved into place by ONE rename
(fop Mv; theorems C08_create_marker_whole, C08_crash_safe_marker_last); written in place in two pieces some crash point opens
as a strict subset (C08_marker_in_pieces_refuted); an empty marker left by an older version is refused (C08_empty_marker_refused).
"""
import json
import os
import select
import shutil
import subprocess
import sys
import time
from concurrent.futures import ThreadPoolExecutor

import numpy as np

from crash import replay as rp
from crash import trace as tr
from props import c08_driver as drv
from props import c08_marker

ALLOWED_AXIOMS = []
U_GRACE = 1.5        # seconds the processes a dead main process left behind get to finish on their own (interrupted runs)
TRUSTED = [
    "interrupted runs: the triggers of harness/props/c08_driver.py (a proxy around the data frame that counts chunk requests, "
    "sys.setprofile counting calls of functions of the package; raise / os.kill of the own pid or process group), the listing of "
    "a process group from /proc and its SIGKILL when the main process is gone (self-check every run: an uninterrupted run of the "
    "driver leaves the final directory of the traced run)",
    "strace (syscall recorder, SIGKILL injection) and its parser harness/crash/trace.py; the prefix materialiser "
    "harness/crash/replay.py (self-check every run: replaying the full operation list reproduces the real final directory "
    "byte for byte; thorough: real SIGKILL states equal replayed prefixes)",
    "the abstraction bytes -> Model/FsCrash.v contents in harness/props/c08.py (records by bit pattern, complete pickles / "
    "HDF5 / text files by equality with files produced by an uninterrupted run; the record size of a data.bin by its header "
    "byte as written by an uninterrupted run).  On the large scale x a record is abstracted to the PIECE that delivered it "
    "(run-length terms): the comparison of operation lists sees how many records of which piece a file holds and whether a "
    "torn record follows, not which ones; WHICH records a crash state holds is decided by the real recovery (sha1 of "
    "load_data per patch against the fresh catalog), as on every scale",
    "h5py/HDF5, pickle, PyYAML, numpy.fromfile/loadtxt, scipy KDTree are exercised by the recovery worker, not modelled",
]
ASSUMPTIONS = [
    "granularity is the system call (the property's quantifier): no reordering below the syscall interface (page cache, "
    "directory entries without fsync); data still in a user-space buffer (stdio, io.BufferedWriter) at the crash are lost, "
    "which is what the traces show: a write appears when the buffer is flushed",
    "how a piece above the buffer size is cut into write system calls is whatever the trace shows and is a parameter of the "
    "model (theorems: every cutting, complete or torn records in between)",
    "the traced workloads (crash points at system calls) are sequential (max_workers=1); the order in which rmtree deletes is "
    "whatever the trace shows and is a parameter of the model (theorem: every children-first order)",
    "interrupted runs: 'the process dies' = the main process of the job dies at the chosen position; the processes it started get "
    "%.1f s to finish on their own and are killed then (a job whose main process never returns after ctrl-c is killed after its "
    "timeout); the directory is used after that, not while they are still writing.  Positions are python-level (k-th chunk request, "
    "k-th call of a function of the package), in the main process" % U_GRACE,
    "large markers: the writing process dies when the marker file has reached a multiple of 4096 bytes (file size limit + SIGXFSZ): "
    "between two of its write system calls, or after a write call that the limit cut short (reported as such)",
    "a later measurement = yaw.crosscorrelate with the recovered catalog as reference (binned request) or as unknown "
    "sample (unbinned request) against fixed untouched catalogs",
    "rebuilds: the earlier state is one an uninterrupted build_trees left (valid trees and marker on EVERY patch, or no trees); "
    "binnings come from a fixed set of six (four with two bins - other edges, other closed side -, one with three, unbinned); "
    "a chain of crashed rebuilds is covered by the theorem C08_rebuild_chain_safe, not by generated cases",
]
RULE = ("case = (scale, workload, prior state, crash position k, later request); a generated rebuild workload is (earlier state "
        "nothing|binning, requested binning, force) with later requests earlier / rebuilt / third binning; distinct by that tuple; non-trivial when "
        "0 < k < number of operations (a state that exists only if the process dies there); a product workload is "
        "(class, path shape, str|Path, working directory, prior state); scale x = (chunk sizes drawn per run) x "
        "(create 32-byte records around one io block | overwrite in pieces of several blocks | create 24-byte records); "
        "an interrupted run is (scale, workload, position kind reader|call, position, way of dying, number of workers, later "
        "request), non-trivial when the process died at the position (did not complete)")

HEADER = "From Verif Require Import Prelude FsCrash FsRebuild.\nOpen Scope nat_scope.\n"
# forms of the model a workload is compared with: pinned (False), repaired (True) and, for catalog creation / overwrite, MIXED = the
# operation list of the pinned form (patch_ids.bin written in place) with the id-list check of the repaired one (c08_case2 false true)
MIXED = "mixed"
MIXED_KINDS = ("create", "overwrite")
COQ_BOOL = {False: "false", True: "true"}
FORM_NAME = {False: "pinned", True: "repaired", MIXED: "pinned operation list, repaired id-list check"}

TAG = {"none": 0, "b1": 1, "b2": 2, "b1L": 3, "b3": 4, "b4": 5}
VAL = {"A": 1, "B": 2}
REC_OFFSET = {"A": 0, "B": 1000}
DEFAULT_REQ = "b1"

SCALES = {
    "s": dict(npatch=3, n=36, cs=16),
    "m": dict(npatch=5, n=110, cs=32),
    "l": dict(npatch=8, n=200, cs=48),
}
IO_BLOCK = 4096      # st_blksize here = size of the stdio / io.BufferedWriter buffers (only used to label the evidence)
RECORD = 32          # bytes per stored record (ra, dec, weight, redshift as float64)


def piece_sizes(patch, cs, record=RECORD):
    """bytes per (chunk, patch) piece when rows with patch ids `patch` are processed cs rows at a time"""
    out = []
    for c0 in range(0, len(patch), cs):
        rows = patch[c0:c0 + cs]
        out += [record * sum(1 for q in rows if q == pid) for pid in sorted(set(rows))]
    return out


def big_scale(rng):
    """scale "x": per-patch data several times any plausible user-space buffer (2 x ~1500 records = 2 x 47 KiB).
    Dataset A (create) is cut into pieces AROUND one io block (~128 records of 32 bytes: at least three pieces fit
    into a buffer and at least three do not, checked on the actual data), dataset B (overwrite) into pieces of
    2 .. 3.5 blocks; the chunk sizes are drawn such that the last chunk is short (8 .. 80 records per patch: smaller
    than any buffer), so that a writer that buffers at all still holds data when the last piece has been handed over.
    Dataset Aw (create_w) = A without redshifts: 24-byte records in pieces of 2 .. 3.5 blocks, so that the block-wise
    system calls end INSIDE a record."""
    base = dict(npatch=2, n=3000, cs=256, n_fixed=36, wB_odd=True, big=True)
    patch = {ds: drv.dataset(ds, base)["patch"].tolist() for ds in ("A", "B")}

    def pick(ds, lo, hi, ok):
        cands = [c for c in range(lo, hi) if 16 <= len(patch[ds]) % c <= 160]
        rng.shuffle(cands)
        for c in cands:
            if ok(piece_sizes(patch[ds], c)):
                return c
        return cands[0]
    mixed = lambda sz: sum(1 for x in sz if x < IO_BLOCK) >= 3 and sum(1 for x in sz if x > IO_BLOCK) >= 3
    large = lambda sz: sum(1 for x in sz if x > 2 * IO_BLOCK) >= 4 and sz[-1] < IO_BLOCK
    patch["Aw"] = patch["A"]
    size24 = lambda f: (lambda sz: f([x // RECORD * 24 for x in sz]))
    return dict(base, cs=pick("A", 240, 300, mixed), cs_B=pick("B", 500, 900, large), cs_Aw=pick("Aw", 700, 1200, size24(large)))


# ------------------------------------------------------------------ recovery worker client
class Worker:
    def __init__(self, ctx):
        self.ctx = ctx
        self.p = None
        self.restarts = 0
        self.setup_rq = None

    def env(self):
        e = dict(os.environ)
        e["PYTHONPATH"] = os.environ.get("VERIF_REPO_SRC", "/repo/src")
        e["PYTHONHASHSEED"] = "0"
        e["PYTHONDONTWRITEBYTECODE"] = "1"
        e["YAW_NUM_THREADS"] = "1"
        for k in ("OMP_NUM_THREADS", "OPENBLAS_NUM_THREADS", "MKL_NUM_THREADS"):
            e[k] = "1"
        return e

    def start(self):
        self.p = subprocess.Popen(["/venv/bin/python", "-u", drv.__file__, "worker"], stdin=subprocess.PIPE,
                                  stdout=subprocess.PIPE, stderr=subprocess.DEVNULL, env=self.env(),
                                  start_new_session=True)
        self._raw({"cmd": "ping"}, 120)
        if self.setup_rq is not None:
            self._raw(self.setup_rq, 300)

    def stop(self):
        if self.p is not None:
            try:
                self.p.stdin.close()
            except Exception:
                pass
            try:
                self.p.wait(timeout=5)
            except Exception:
                self.p.kill()
                self.p.wait()
            self.p = None

    def _raw(self, rq, timeout):
        self.p.stdin.write((json.dumps(rq) + "\n").encode())
        self.p.stdin.flush()
        fd = self.p.stdout.fileno()
        buf = b""
        t_end = time.time() + timeout
        while not buf.endswith(b"\n"):
            left = t_end - time.time()
            if left <= 0:
                raise TimeoutError("worker timeout")
            r, _, _ = select.select([fd], [], [], left)
            if not r:
                raise TimeoutError("worker timeout")
            chunk = os.read(fd, 1 << 16)
            if not chunk:
                raise EOFError("worker died")
            buf += chunk
        return json.loads(buf.decode())

    def call(self, rq, timeout=180):
        """-> answer dict; {"dead": reason} when the worker died or hung on this request (it is restarted)."""
        if self.p is None:
            self.start()
        try:
            return self._raw(rq, timeout)
        except (TimeoutError, EOFError, BrokenPipeError, json.JSONDecodeError) as e:
            try:
                self.p.kill()
                self.p.wait()
            except Exception:
                pass
            self.p = None
            self.restarts += 1
            return {"dead": type(e).__name__ + ":" + str(e)}

    def must(self, rq, timeout=300):
        rs = self.call(rq, timeout)
        if not rs.get("ok"):
            raise RuntimeError("worker request failed: %r -> %r" % (rq, rs))
        return rs


# ------------------------------------------------------------------ abstraction to the model's alphabet
def coq_nlist(xs):
    xs = [int(x) for x in xs]
    assert all(0 <= x < 5000 for x in xs)
    return "[" + "; ".join(str(x) for x in xs) + "]"


def coq_recs(xs):
    """a record list; long ones in the run-length notation of Model/FsCrash.v (rl [(v, n); ...] = n times v, ...)"""
    xs = [int(x) for x in xs]
    if len(xs) <= 48:
        return coq_nlist(xs)
    assert all(0 <= x < 5000 for x in xs)
    runs = []
    for x in xs:
        if runs and runs[-1][0] == x:
            runs[-1][1] += 1
        else:
            runs.append([x, 1])
    return "(rl [" + "; ".join("(%d, %d)" % (v, n) for v, n in runs) + "])"


class Abstraction:
    """bytes -> abstract content; knows the records of datasets A/B of one scale, the binning markers and the
    complete files of uninterrupted runs (reference pickles / result files)."""

    def __init__(self, scale, trees_info=None):
        self.rec = {}
        self.pieces = {}
        # large scale: a record is abstracted to the PIECE that delivers it (all records of a piece get the piece's
        # number; A: 0.., B: 64..), so that long files are short run-length terms and a partially written piece is
        # described by a count, whatever order the records of a piece have in the file
        self.by_piece = bool(scale.get("big"))
        self.offset = {"A": 0, "B": 64, "Aw": 128} if self.by_piece else REC_OFFSET
        self.datasets = ("A", "B", "Aw") if self.by_piece else ("A", "B")
        self.recbytes = {}                  # dataset -> bytes per stored record
        self.headers = {b"\x0f": RECORD}    # header byte of data.bin -> bytes per record (more: Scale.prepare)
        self.trees_info = trees_info
        self.tree_sig = {}     # (patch id, binned?, records per tree, sum of weights per tree) -> binning tag
        self._tcache = {}
        for ds in self.datasets:
            recs, patch = drv.stored_records(ds, scale)
            self.recbytes[ds] = len(recs[0])
            d = drv.dataset(ds, scale)
            for pid in sorted(set(patch)):
                rows = [r for r in range(len(patch)) if patch[r] == pid]
                for name, (edges, closed) in drv.BINNINGS.items():
                    if drv.no_redshifts(ds) and edges is not None:
                        continue             # no binned trees without redshifts
                    if edges is None:
                        sig = (pid, False, (len(rows),), (float(sum(d["w"][r] for r in rows)).hex(),))
                    else:
                        cnt, sw = [], []
                        for lo, hi in zip(edges[:-1], edges[1:]):
                            inb = [r for r in rows if (lo < d["z"][r] <= hi if closed == "right" else lo <= d["z"][r] < hi)]
                            cnt.append(len(inb))
                            sw.append(float(sum(d["w"][r] for r in inb)).hex())
                        sig = (pid, True, tuple(cnt), tuple(sw))
                    assert self.tree_sig.get(sig, TAG[name]) == TAG[name], "two binnings/datasets give the same trees: dataset too coarse"
                    self.tree_sig[sig] = TAG[name]
            cs = drv.chunksize(ds, scale)
            ps = []
            for c0 in range(0, len(recs), cs):
                rows = range(c0, min(c0 + cs, len(recs)))
                for pid in sorted({patch[r] for r in rows}):
                    mine = [r for r in rows if patch[r] == pid]
                    ident = (lambda r, j=len(ps): self.offset[ds] + j) if self.by_piece else (lambda r: self.offset[ds] + r)
                    for r in mine:
                        assert recs[r] not in self.rec, "duplicate record"
                        self.rec[recs[r]] = ident(r)
                    ps.append((pid, [ident(r) for r in mine]))
            assert not self.by_piece or len(ps) < 64, "too many pieces for the numbering of the large scale"
            self.pieces[ds] = ps
        self.marker = {}
        for name, (edges, closed) in drv.BINNINGS.items():
            if edges is not None:
                self.marker[(b"\x01" if closed == "left" else b"\x00") + np.asarray(edges, dtype="<f8").tobytes()] = TAG[name]
        self.pickles = {}     # bytes -> tag
        self.results = {}     # (kind, bytes) -> value id
        self.meta_ok = set()  # complete meta.yml texts seen in uninterrupted runs (checked structurally as well)

    @staticmethod
    def norm(name, data):
        """HDF5 (superblock version 0): bytes 20..23 are the file-consistency flags, set while the file is open for
        writing and cleared by the last write; a file that differs from a complete one only there is complete"""
        if name == "cf.hdf5" and data[:9] == b"\x89HDF\r\n\x1a\n\x00" and len(data) >= 24:
            return data[:20] + b"\0\0\0\0" + data[24:]
        return data

    def path(self, rel):
        parts = rel.split(os.sep)
        if rel == ".":
            return "PRoot"
        if rel == "patch_ids.bin":
            return "PIds"
        if rel == "patch_ids.tmp":
            return "PTmp"        # the id list written aside before it is moved into place (one rename)
        if parts[0].startswith("patch_") and parts[0][6:].isdigit():
            i = int(parts[0][6:])
            if len(parts) == 1:
                return "(PDir %d)" % i
            if len(parts) == 2:
                nm = {"data.bin": "PData", "meta.yml": "PMeta", "binning": "PBin", "trees.pkl": "PTrees"}.get(parts[1])
                if nm:
                    return "(%s %d)" % (nm, i)
        if rel == "cf.hdf5":
            return "PRes"
        if rel in ("cd.dat", "cd.smp", "cd.cov"):
            return {"cd.dat": "PDat", "cd.smp": "PSmp", "cd.cov": "PCov"}[rel]
        return "(POther %d)" % (sum(rel.encode()) % 4999)

    def content(self, rel, data):
        name = os.path.basename(rel)
        if name == "data.bin":
            if data == b"":
                return "(DataF false [])"
            body = data[1:]
            size = self.headers.get(data[:1])
            if size is None:
                return "Junk"
            ids = []
            for j in range(0, len(body) - len(body) % size, size):
                r = self.rec.get(body[j:j + size])
                if r is None:
                    return "Junk"
                ids.append(r)
            if len(body) % size:
                # a write system call that ended inside a record: complete records + a part of one more
                return "(DataT %s)" % coq_recs(sorted(ids))
            return "(DataF true %s)" % coq_recs(sorted(ids))
        if name == "meta.yml":
            if data == b"":
                return "(MetaF false)"
            try:
                import yaml
                d = yaml.safe_load(data.decode())
                ok = (isinstance(d, dict) and set(d) == {"num_records", "sum_weights", "center", "radius"}
                      and data.endswith(b"\n") and len(d["center"]) == 2)
            except Exception:
                ok = False
            return "(MetaF true)" if ok else "Junk"
        if name == "binning":
            if data == b"":
                return "(BinF BEmpty)"
            if len(data) == 1:
                return "(BinF BByte)"
            t = self.marker.get(data)
            return "(BinF (BWhole %d))" % t if t is not None else "Junk"
        if name == "trees.pkl":
            # complete pickle <=> it unpickles (a strict prefix of a pickle never does); which binning it was built
            # for is read off the number of records / sum of weights per tree (distinct by construction of the data)
            if data == b"":
                return "(TreesF None)"
            import hashlib
            key = hashlib.sha1(data).hexdigest()
            info = self._tcache.get(key)
            if info is None:
                info = self._tcache[key] = self.trees_info(data)
            if not info.get("complete"):
                return "(TreesF None)"
            parts = rel.split(os.sep)
            pid = int(parts[0][6:]) if parts[0].startswith("patch_") and parts[0][6:].isdigit() else -1
            t = self.tree_sig.get((pid, bool(info["binned"]), tuple(info["counts"]), tuple(info["sumw"])))
            return "(TreesF (Some %d))" % t if t is not None else "Junk"
        if name in ("patch_ids.bin", "patch_ids.tmp"):
            if len(data) % 2:
                return "Junk"
            return "(IdsF %s)" % coq_nlist(np.frombuffer(data, dtype="<i2").tolist())
        if name in ("cf.hdf5", "cd.dat", "cd.smp", "cd.cov"):
            v = self.results.get((name, self.norm(name, data)))
            if v is not None:
                return "(ResF (Some %d))" % v
            if name == "cf.hdf5":
                return "(ResF None)"     # HDF5 in the making: any byte pattern that is not a complete file
            if any(k[0] == name and k[1].startswith(data) for k in self.results):
                return "(ResF None)"
            return "Junk"
        return "Junk"

    def state(self, st):
        items = []
        for d in sorted(st.dirs):
            items.append("(%s, Dir)" % self.path(d))
        for f in sorted(st.files):
            items.append("(%s, %s)" % (self.path(f), self.content(f, st.files[f])))
        return "[" + "; ".join(items) + "]"

    def fops(self, prior, ops):
        """one model operation per real operation"""
        st = prior.copy()
        out = []
        for op in ops:
            st.apply(op)
            k, p = op["op"], op["path"]
            if k in ("unlink", "rmdir"):
                out.append("Del %s" % self.path(p))
            elif k == "mkdir":
                out.append("Put %s Dir" % self.path(p))
            elif k in ("open", "write", "pwrite", "truncate"):
                out.append("Put %s %s" % (self.path(p), self.content(p, st.files[p])))
            elif k == "rename" and op.get("to") is not None:
                # ONE model operation: the target holds what the source held, the source is gone (Model/FsCrash.v Mv)
                out.append("Mv %s %s" % (self.path(p), self.path(op["to"])))
            else:
                out.append("Put (POther 0) Junk")   # anything else: not in the model's alphabet
        return out


def effective_ops(prior, ops):
    """drop operations that leave the directory unchanged (re-opening an existing file without truncation,
    0-byte writes): a crash before or after them leaves the same state, so they are not crash points"""
    st = prior.copy()
    out = []
    for op in ops:
        before = (st.files.get(op["path"]), op["path"] in st.dirs, st.files.get(op.get("to") or ""))
        st.apply(op)
        after = (st.files.get(op["path"]), op["path"] in st.dirs, st.files.get(op.get("to") or ""))
        if before != after:
            out.append(op)
    return out


# ------------------------------------------------------------------ result products under user-given names
TRIPLES, SINGLES = drv.TRIPLES, drv.SINGLES
TOKENS = ["z0", "2-1", "4", "v1", "0", "2024", "05", "tomo", "bin3", "1e-3"]
STEMS = ["nz", "w_sp", "run", "cd", "x_y", "n"]
DIRS = ["out.d", "v1.0", "run.2", "plain", "a.b.c"]
TRIPLE_TAILS = ["", "", "", ".dat", ".smp", ".cov", ".txt", ".hdf5", ".", ".0"]
SINGLE_EXTS = {"CorrFunc": [".hdf5", ".hdf5", ".h5", "", ".hdf", ".hdf5.bak"],
               "Configuration": [".yml", ".yaml", ".yml", "", ".yml.orig", ".cfg"]}
MODES = ["abs", "abs", "rel", "rel-dot", "rel-sub", "rel-up"]
TRIPLE_PRIORS = ["full", "full", "full", "none", "dat+cov", "smp-only", "smp+cov"]


def shape(what, last, dirs=(), mode="abs", as_path=False, prior="full"):
    return dict(what=what, last=last, dirs=list(dirs), mode=mode, as_path=bool(as_path), prior=prior)


def gen_shape(rng, what):
    """one path shape: the last component gets 1-3 extra dots (plus, sometimes, a leading dot / a tail that looks
    like an extension); 0-2 dotted directories; absolute or relative in four ways; str or Path"""
    ndots = rng.choice([1, 1, 1, 2, 3])
    last = rng.choice(STEMS) + "".join("." + rng.choice(TOKENS) for _ in range(ndots))
    if rng.random() < 0.12:
        last = "." + last
    last += rng.choice(TRIPLE_TAILS if what in TRIPLES else SINGLE_EXTS[what])
    dirs = [rng.choice(DIRS) for _ in range(rng.choice([0, 0, 1, 2]))]
    mode = rng.choice(MODES)
    if mode in ("rel-sub", "rel-up") and not dirs:
        dirs = [rng.choice(DIRS)]
    prior = rng.choice(TRIPLE_PRIORS) if what in TRIPLES else rng.choice(["full", "full", "none"])
    return shape(what, last, dirs, mode, rng.random() < 0.5, prior)


def core_shapes():
    """shapes that are part of every run"""
    return [
        shape("CorrData", "nz_z0.2-1.4"),
        shape("CorrData", "cd", prior="full"),                                   # no dot at all: the plain case
        shape("RedshiftData", "nz.tomo.1", ["out.d", "v1.0"], "rel", True),
        shape("HistData", "hist.2024.dat", [], "abs", True),
        shape("CorrData", "nz.v1.smp", ["run.2"], "rel-sub", False, "smp-only"),
        shape("RedshiftData", "nz_0.5", ["plain"], "rel-up", False, "dat+cov"),
        shape("HistData", ".hz.v2", [], "rel-dot", False, "none"),
        shape("CorrFunc", "w_sp.z0.2-1.4.hdf5"),
        shape("CorrFunc", "w_ss.v1", ["out.d"], "rel", True),
        shape("Configuration", "setup.v1.0.yml", [], "rel-dot", False),
        shape("Configuration", "run.2024.cfg", ["a.b.c"], "abs", True, "none"),
    ]


def shape_layout(sh):
    """-> (relative path of the product below the workload directory, working directory relative to it or None,
    the argument as the user writes it for a workload directory `live` (callable))"""
    rel = os.path.join(*(sh["dirs"] + [sh["last"]]))
    mode = sh["mode"]
    if mode == "abs":
        return rel, None, lambda live: os.path.join(live, rel)
    if mode == "rel":
        return rel, ".", lambda live: rel
    if mode == "rel-dot":
        return rel, ".", lambda live: "./" + rel
    sub = sh["dirs"][0]
    rest = os.path.join(*(sh["dirs"][1:] + [sh["last"]]))
    if mode == "rel-sub":
        return rel, sub, lambda live: rest
    if mode == "rel-up":
        return rel, sub, lambda live: os.path.join("..", sub, rest)
    raise ValueError(mode)


def shape_class(sh):
    """histogram label of a shape"""
    last = sh["last"]
    core = last[1:] if last.startswith(".") else last
    nd = core.count(".")
    tail = os.path.splitext(last)[1] if nd else ""
    looks = "ext-like-tail" if tail in (".dat", ".smp", ".cov", ".hdf5", ".h5", ".yml", ".yaml") else "other-tail" if tail else "no-tail"
    return "%s:%s:dots=%s:%s:%s:dirs=%d:prior=%s" % (sh["what"], sh["mode"], "0" if nd == 0 else "1" if nd == 1 else "2+", looks,
                                                 "Path" if sh["as_path"] else "str", len(sh["dirs"]), sh["prior"])


def norm_h5(data):
    """see Abstraction.norm"""
    if data[:9] == b"\x89HDF\r\n\x1a\n\x00" and len(data) >= 24:
        return data[:20] + b"\0\0\0\0" + data[24:]
    return data


class ProductAbstraction:
    """bytes -> model contents for one product workload: a file is complete with value v when its bytes are those of
    a file an uninterrupted write of (class, v) produced (at a plain reference path), incomplete when it is a strict
    prefix of one (HDF5: anything else).  Paths are numbered injectively per workload (POther i)."""

    def __init__(self, what, table, names):
        self.what, self.table = what, table          # table: bytes -> value id
        self.idx = {rel: i + 1 for i, rel in enumerate(sorted(set(names) - {"."}))}

    def path(self, rel):
        if rel == ".":
            return "PRoot"
        if rel not in self.idx:
            self.idx[rel] = len(self.idx) + 1
        return "(POther %d)" % self.idx[rel]

    def content(self, rel, data):
        if self.what == "CorrFunc":
            v = self.table.get(norm_h5(data))
            return "(ResF (Some %d))" % v if v is not None else "(ResF None)"
        v = self.table.get(data)
        if v is not None:
            return "(ResF (Some %d))" % v
        return "(ResF None)" if any(c.startswith(data) for c in self.table) else "Junk"

    state = Abstraction.state
    fops = Abstraction.fops



# ------------------------------------------------------------------ rebuilds over an already valid older state
# A rebuild is (earlier state E, requested binning Y, force).  E: "nothing" (no tree cache at all) or trees + marker valid
# for a binning (same number of bins as Y with other edges / the other closed side, ANOTHER number of bins, unbinned).  Y is
# asked for with force=True or implicitly (force=False and the stored binning differs).  Every file-system operation of the
# rebuild is a crash point, and every crash state is measured with the earlier binning, the rebuilt one and a third.
# The strata below say which relation between E and Y a workload stands for; within a stratum the binnings are drawn.
NOTHING = "nothing"
SAME_COUNT = ["b1", "b2", "b3"]            # two bins, closed right, pairwise other edges
RB_EARLIER = [NOTHING, "b1", "b2", "b1L", "b4", "none"]
RB_REQUEST = ["b1", "b2", "b1L", "b4", "none"]
RB_FIXED = {("b1", "b2", False), ("b1", "b1L", False), ("b1", "none", False), ("b1", "b1", True), (NOTHING, "b1", False),
            ("none", "b1", False)}          # the hand-written workloads of define_workloads (the last one: thorough tier)


def nbins_of(name):
    edges = drv.BINNINGS[name][0]
    return 0 if edges is None else len(edges) - 1


def rebuild_relation(earlier, req):
    """how the earlier state relates to the requested binning (histogram label / stratum)"""
    if earlier == NOTHING:
        return "no-trees"
    if earlier == req:
        return "same-binning"
    if earlier == "none" or req == "none":
        return "binned-vs-unbinned"
    if nbins_of(earlier) != nbins_of(req):
        return "other-bin-count"
    if drv.BINNINGS[earlier][1] != drv.BINNINGS[req][1]:
        return "other-closed-side" if drv.BINNINGS[earlier][0] == drv.BINNINGS[req][0] else "other-edges-and-closed-side"
    return "other-edges-same-count"


def rebuild_strata():
    """stratum -> list of (earlier, request, force) it contains"""
    out = {}
    for e in RB_EARLIER + ["b3"]:
        for y in RB_REQUEST + ["b3"]:
            for force in (True, False):
                if e == y and not force:
                    continue                 # nothing to do: no operation, no crash point
                out.setdefault("%s:%s" % ("forced" if force else "implicit", rebuild_relation(e, y)), []).append((e, y, force))
    return out


def rebuild_matrix(ctx, tag):
    """the generated rebuild workloads of one scale: [(earlier, request, force, third)].
    quick (scale s): one draw from every FORCED stratum (the hand-written workloads are implicit but one) and from two
    implicit strata; thorough: scale s the full matrix RB_EARLIER x RB_REQUEST x force, scale m a draw from every forced
    stratum in which the binnings differ and from two implicit ones, scale l three draws.  `third` = a binning that is
    neither the earlier nor the requested one."""
    rng = ctx.rng
    strata = rebuild_strata()
    names = sorted(strata)
    forced = [n for n in names if n.startswith("forced")]
    implicit = [n for n in names if n.startswith("implicit")]
    picks = []
    if tag == "s" and not ctx.quick():
        picks = [(e, y, f) for e in RB_EARLIER for y in RB_REQUEST for f in (True, False) if not (e == y and not f)]
    elif tag == "s":
        # implicit rebuilds from b1 are hand-written: draw the implicit ones among the other earlier states
        imp = [n for n in implicit if [c for c in strata[n] if c[0] != "b1"]]
        rng.shuffle(imp)
        for n in forced + imp[:2]:
            cands = [c for c in strata[n] if c not in RB_FIXED and (c[2] or c[0] != "b1")]
            picks.append(rng.choice(cands))
    elif tag == "m":
        imp = list(implicit)
        rng.shuffle(imp)
        ns = [n for n in forced if not n.endswith(("no-trees", "same-binning"))] + imp[:2]
        picks = [rng.choice([c for c in strata[n] if c not in RB_FIXED] or strata[n]) for n in ns]
    elif tag == "l":
        ns = [n for n in forced if "other-edges-same-count" in n] + rng.sample(names, 2)
        picks = [rng.choice(strata[n]) for n in ns]
    out, seen = [], set()
    for e, y, f in picks:
        if (e, y, f) in seen or (e, y, f) in RB_FIXED:
            continue
        seen.add((e, y, f))
        others = [b for b in TAG if b not in (e, y)]
        out.append((e, y, f, rng.choice(others)))
    return out


# ------------------------------------------------------------------ one scale
class Scale:
    def __init__(self, ctx, W, tag, scale):
        self.ctx, self.W, self.tag, self.scale = ctx, W, tag, scale
        self.big = bool(scale.get("big"))      # catalog creation / overwrite only, buffered model
        self.root = os.path.join(ctx.workdir, "scale_" + tag)
        os.makedirs(self.root, exist_ok=True)
        self.ab = Abstraction(scale, self.trees_info)
        self.refs = {}        # dataset -> {"ids","data","measure":{req: digest}}
        self.res_digest = {}  # "A"/"B" -> {"corrfunc": d, "corrdata": d}
        self.wl = []          # workload descriptions
        self.scratch = os.path.join(self.root, "scratch")
        self.prod = {}        # product class -> {"table": bytes -> value id, "role": bytes -> ext, "digest": {"A","B"}}

    def p(self, *a):
        return os.path.join(self.root, *a)

    def trees_info(self, blob):
        path = self.p("tmp_trees.pkl")
        with open(path, "wb") as fh:
            fh.write(blob)
        rs = self.W.call({"cmd": "trees_info", "path": path})
        os.unlink(path)
        return rs if rs.get("ok") else {"complete": False}

    # ---- untraced preparation
    def prepare(self):
        W, sc = self.W, self.scale
        W.setup_rq = {"cmd": "setup", "root": self.p("fixed"), "scale": sc}
        W.must(W.setup_rq)
        os.makedirs(self.p("fresh"))
        for ds in self.ab.datasets:
            W.must({"cmd": "make_catalog", "dir": self.p("fresh", ds), "dataset": ds, "scale": sc})
            # the header byte of a data.bin written by an uninterrupted run tells the record size of that file
            for pdir in sorted(os.listdir(self.p("fresh", ds))):
                if pdir.startswith("patch_") and os.path.isdir(self.p("fresh", ds, pdir)):
                    with open(self.p("fresh", ds, pdir, "data.bin"), "rb") as fh:
                        hdr = fh.read(1)
                    assert self.ab.headers.get(hdr, self.ab.recbytes[ds]) == self.ab.recbytes[ds], (ds, hdr)
                    self.ab.headers[hdr] = self.ab.recbytes[ds]
        # reference pickles, measurements on fresh caches (one fresh copy per request)
        reqs = [DEFAULT_REQ] if self.big else list(TAG)
        for ds in self.ab.datasets:
            ref = {"measure": {}}
            for req in (["none"] if drv.no_redshifts(ds) else reqs):
                d = self.p("tmp_ref")
                shutil.rmtree(d, ignore_errors=True)
                shutil.copytree(self.p("fresh", ds), d)
                rs = W.must({"cmd": "recover", "dir": d, "requests": [req]})
                assert isinstance(rs["open"], dict) and not rs["measure"][req].startswith("error"), rs
                ref["ids"], ref["data"] = rs["open"]["ids"], rs["open"]["data"]
                ref["measure"][req] = rs["measure"][req]
                for pid in ref["ids"]:
                    with open(os.path.join(d, "patch_%d" % pid, "trees.pkl"), "rb") as fh:
                        c = self.ab.content(os.path.join("patch_%d" % pid, "trees.pkl"), fh.read())
                    assert c == "(TreesF (Some %d))" % TAG[req], (c, req, pid)
                shutil.rmtree(d)
            self.refs[ds] = ref
        assert self.refs["A"]["data"] != self.refs["B"]["data"]
        for req in reqs:
            assert self.refs["A"]["measure"][req] != self.refs["B"]["measure"][req]
        if self.big:
            return
        os.makedirs(self.p("res"))
        for ds in ("A", "B"):
            d = self.p("tmp_ref")
            shutil.copytree(self.p("fresh", ds), d)
            # all four kinds of pair counts (dd, dr, rd, rr): a partially written file that still opens
            # with a subset of them (and silently another estimator) must be recognisable as "other"
            W.must({"cmd": "make_results", "dir": d, "binning": "b1", "rd": True,
                    "hdf": self.p("res", "cf%s.hdf5" % ds), "prefix": self.p("res", "cd" + ds)})
            shutil.rmtree(d)
            # what an uninterrupted write reads back as (text files round to PRECISION digits)
            self.res_digest[ds] = {
                "corrfunc": W.must({"cmd": "read_corrfunc", "path": self.p("res", "cf%s.hdf5" % ds)})["result"],
                "corrdata": W.must({"cmd": "read_corrdata", "prefix": self.p("res", "cd" + ds)})["result"]}
            assert not any(v.startswith("error") for v in self.res_digest[ds].values()), self.res_digest
            for ext in ("dat", "smp", "cov"):
                with open(self.p("res", "cd%s.%s" % (ds, ext)), "rb") as fh:
                    self.ab.results[("cd." + ext, fh.read())] = VAL[ds]
            with open(self.p("res", "cf%s.hdf5" % ds), "rb") as fh:
                self.ab.results[("cf.hdf5", self.ab.norm("cf.hdf5", fh.read()))] = VAL[ds]
        assert self.res_digest["A"]["corrfunc"] != self.res_digest["B"]["corrfunc"]
        assert self.res_digest["A"]["corrdata"] != self.res_digest["B"]["corrdata"]
        # reference products of every class: an uninterrupted write to a plain path without any dot in the prefix
        # ("ref"; single files get their conventional extension) in a directory of its own; whatever files appear
        # there are the complete files of (class, value)
        for what in TRIPLES + SINGLES:
            info = {"table": {}, "role": {}, "digest": {}}
            for ds in ("A", "B"):
                d = self.p("res", "named", what, ds)
                os.makedirs(d)
                arg = os.path.join(d, "ref" + {"CorrFunc": ".hdf5", "Configuration": ".yml"}.get(what, ""))
                W.must({"cmd": "write_named", "what": what, "value": ds, "res_dir": self.p("res"), "arg": arg})
                info["digest"][ds] = W.must({"cmd": "read_named", "what": what, "arg": arg})["result"]
                assert not info["digest"][ds].startswith("error"), (what, ds, info["digest"])
                for fn in sorted(os.listdir(d)):
                    with open(os.path.join(d, fn), "rb") as fh:
                        data = fh.read()
                    key = norm_h5(data) if what == "CorrFunc" else data
                    assert info["table"].get(key, VAL[ds]) == VAL[ds], "products A and B share a file: cannot tell them apart"
                    info["table"][key] = VAL[ds]
                    info["role"][key] = os.path.splitext(fn)[1]
                assert len(os.listdir(d)) == (3 if what in TRIPLES else 1), (what, os.listdir(d))
            assert info["digest"]["A"] != info["digest"]["B"], what
            self.prod[what] = info

    def with_trees(self, dest, ds, bname):
        shutil.copytree(self.p("fresh", ds), dest)
        if bname is not None:
            self.W.must({"cmd": "build", "dir": dest, "binning": bname})

    def define_workloads(self, only=None):
        sc = self.scale
        wl = []

        def add(name, kind, prior_ds, new_ds, make_prior, requests=(), **kw):
            if self.big and kind not in ("create", "overwrite"):
                return           # large scale: catalog creation / overwrite only (the workloads whose size matters)
            live = self.p("wl", name, "live")
            os.makedirs(os.path.dirname(live), exist_ok=True)
            make_prior(live)
            w = dict(name=name, kind=kind, prior_ds=prior_ds, new_ds=new_ds, live=live, requests=list(requests), spec=kw)
            wl.append(w)

        def nothing(live):
            pass

        def cat_with(ds, bname, strip_meta=False):
            def f(live):
                self.with_trees(live, ds, bname)
                if strip_meta:
                    for pid in self.refs[ds]["ids"]:
                        os.unlink(os.path.join(live, "patch_%d" % pid, "meta.yml"))
            return f

        def res_dir(files):
            def f(live):
                os.makedirs(live)
                for src, dst in files:
                    shutil.copy(self.p("res", src), os.path.join(live, dst))
            return f

        add("create", "create", None, "A", nothing, dataset="A")
        add("overwrite", "overwrite", "A", "B", cat_with("A", "b1"), dataset="B")
        if self.big:
            # 24-byte records: the later measurement uses the recovered catalog as the unknown sample
            add("create_w", "create", None, "Aw", nothing, requests=["none"], dataset="Aw")
        add("metadata", "metadata", "A", "A", cat_with("A", None, strip_meta=True))
        add("build_first", "build", "A", "A", cat_with("A", None), requests=["b1", "b2", "none"], binning="b1")
        add("rebuild_edges", "build", "A", "A", cat_with("A", "b1"), requests=["b1", "b2", "none"], binning="b2")
        add("rebuild_closed", "build", "A", "A", cat_with("A", "b1"), requests=["b1", "b1L"], binning="b1L")
        add("rebuild_unbinned", "build", "A", "A", cat_with("A", "b1"), requests=["b1", "none"], binning="none")
        add("rebuild_forced", "build", "A", "A", cat_with("A", "b1"), requests=["b1", "b2"], binning="b1", force=True)
        if not self.ctx.quick():
            add("rebuild_from_unbinned", "build", "A", "A", cat_with("A", "none"), requests=["b1", "none", "b3"], binning="b1")
        add("corrfunc_fresh", "corrfunc", None, "B", res_dir([]), source=self.p("res", "cfB.hdf5"))
        add("corrfunc_over", "corrfunc", "A", "B", res_dir([("cfA.hdf5", "cf.hdf5")]), source=self.p("res", "cfB.hdf5"))
        add("corrdata_fresh", "corrdata", None, "B", res_dir([]), source=self.p("res", "cdB"))
        add("corrdata_over", "corrdata", "A", "B",
            res_dir([("cdA.dat", "cd.dat"), ("cdA.smp", "cd.smp"), ("cdA.cov", "cd.cov")]), source=self.p("res", "cdB"))
        for j, sh in enumerate([] if self.big else self.product_shapes()):
            self.add_product(add, "p%02d_%s" % (j, sh["what"]), sh)
        for e, y, force, third in ([] if self.big else rebuild_matrix(self.ctx, self.tag)):
            # rebuild over an already valid older state: the later measurement asks for the earlier binning, the
            # rebuilt one and a third
            reqs = [r for r in ([] if e == NOTHING else [e]) + [y, third]]
            add("rb_%s_%s_%s" % (e, y, "forced" if force else "implicit"), "build", "A", "A",
                cat_with("A", None if e == NOTHING else e), requests=list(dict.fromkeys(reqs)), binning=y, force=force,
                matrix=dict(earlier=e, request=y, force=force, third=third,
                            stratum="%s:%s" % ("forced" if force else "implicit", rebuild_relation(e, y))))
        if only:
            wl = [w for w in wl if w["name"] in only]
        for w in wl:
            prior = self.p("wl", w["name"], "prior")
            if os.path.isdir(w["live"]):
                shutil.copytree(w["live"], prior)
        self.wl = wl

    # ---- result products under user-given names
    def product_shapes(self):
        """the deterministic core on every scale; the random shapes on the small scale only"""
        shapes = core_shapes()
        if self.tag == "s":
            rng = self.ctx.rng
            n_t, n_s = self.ctx.n(12, 40), self.ctx.n(3, 10)
            shapes += [gen_shape(rng, rng.choice(TRIPLES)) for _ in range(n_t)]
            shapes += [gen_shape(rng, what) for what in SINGLES for _ in range(n_s)]
        seen, out = set(), []
        for sh in shapes:
            key = json.dumps(sh, sort_keys=True)
            if key not in seen:
                seen.add(key)
                out.append(sh)
        return out

    def add_product(self, add, name, sh):
        what = sh["what"]
        rel, cwd_rel, argf = shape_layout(sh)

        def make_prior(live):
            os.makedirs(os.path.join(live, os.path.dirname(rel)))
            if sh["prior"] == "none":
                return
            # the older product is written by the implementation itself, through the same path
            self.W.must({"cmd": "write_named", "what": what, "value": "A", "res_dir": self.p("res"), "arg": argf(live),
                         "as_path": sh["as_path"], "cwd": None if cwd_rel is None else os.path.join(live, cwd_rel)})
            keep = {"full": None, "dat+cov": (".dat", ".cov"), "smp-only": (".smp",), "smp+cov": (".smp", ".cov")}[sh["prior"]]
            if keep is not None:
                # leftovers of an earlier crash / clean-up: which file is which is read off its content
                for d, _, fns in os.walk(live):
                    for fn in fns:
                        with open(os.path.join(d, fn), "rb") as fh:
                            role = self.prod[what]["role"].get(fh.read())
                        assert role is not None, "older product holds an unknown file %s" % fn
                        if role not in keep:
                            os.unlink(os.path.join(d, fn))

        add(name, "product", "A" if sh["prior"] == "full" else None, "B", make_prior, shape=sh)

    def cwd_of(self, w, live):
        if w["kind"] != "product":
            return None
        cwd_rel = shape_layout(w["spec"]["shape"])[1]
        return None if cwd_rel is None else os.path.normpath(os.path.join(live, cwd_rel))

    def arg_of(self, w, live):
        return shape_layout(w["spec"]["shape"])[2](live)

    def ab_for(self, w):
        return w["ab"] if w["kind"] == "product" else self.ab


    def driver_spec(self, base, marks):
        """spec for c08_driver.py workloads with all live directories below `base` (= self.root for the reference run)"""
        def mv(path):
            return os.path.join(base, os.path.relpath(path, self.root))
        items = []
        for w in self.wl:
            it = dict(name=w["name"], kind=w["kind"], scale=self.scale)
            live = mv(w["live"])
            if w["kind"] in ("create", "overwrite"):
                it.update(dir=live, dataset=w["spec"]["dataset"])
            elif w["kind"] == "metadata":
                it.update(dir=live)
            elif w["kind"] == "build":
                it.update(dir=live, binning=w["spec"]["binning"], force=w["spec"].get("force", False))
            elif w["kind"] == "corrfunc":
                it.update(path=os.path.join(live, "cf.hdf5"), source=w["spec"]["source"])
            elif w["kind"] == "corrdata":
                it.update(prefix=os.path.join(live, "cd"), source=w["spec"]["source"])
            elif w["kind"] == "product":
                sh = w["spec"]["shape"]
                it.update(what=sh["what"], value=w["new_ds"], res_dir=self.p("res"), arg=self.arg_of(w, live),
                          as_path=sh["as_path"], cwd=self.cwd_of(w, live))
            items.append(it)
        return {"marks": marks, "workloads": items}

    # ---- traced reference run
    def trace_all(self):
        marks = self.p("marks.txt")
        spec = self.driver_spec(self.root, marks)
        with open(self.p("spec.json"), "w") as fh:
            json.dump(spec, fh)
        t0 = time.time()
        rc, err = tr.run_traced(["/venv/bin/python", drv.__file__, "workloads", self.p("spec.json")],
                                self.p("trace.txt"), env=self.W.env(), timeout=600)
        if rc != 0:
            raise RuntimeError("traced workloads failed rc=%s: %s" % (rc, err[-1500:]))
        events = tr.parse_trace(self.p("trace.txt"))
        segs, order = tr.split_marks(events, marks)
        self.ctx.log("scale %s: traced %d workloads in %.1fs (%d trace events)" % (self.tag, len(order), time.time() - t0, len(events)))
        ok_all = True
        for w in self.wl:
            w["prior_state"] = rp.DirState.load(self.p("wl", w["name"], "prior"))
            cwd = self.cwd_of(w, w["live"])
            w["ops"] = effective_ops(w["prior_state"], tr.file_ops(segs[w["name"]], w["live"], cwd=cwd))
            if w["kind"] == "product":
                # the names the implementation derives from the user's path: removed (attempts count: a name that
                # does not exist is still a derived name), written (the operations), read (second trace segment)
                w["nd"] = tr.name_attempts(segs[w["name"]], w["live"], cwd)[0]
                w["nr"] = tr.name_attempts(segs[w["name"] + "#read"], w["live"], cwd)[1]
                names = list(w["prior_state"].files) + list(w["prior_state"].dirs) + [o["path"] for o in w["ops"]] + w["nd"] + w["nr"]
                w["ab"] = ProductAbstraction(w["spec"]["shape"]["what"], self.prod[w["spec"]["shape"]["what"]]["table"], names)
            final = rp.replay_all(w["prior_state"], w["ops"])
            diff = final.diff_dir(w["live"])
            if diff:
                ok_all = False
                self.ctx.obligation("replay-selfcheck:%s/%s" % (self.tag, w["name"]), False, "; ".join(diff[:10]))
            w["final_state"] = final
        if ok_all:
            self.ctx.obligation("replay-selfcheck:scale %s (full replay = real final directory, %d workloads)" % (self.tag, len(self.wl)), True)
        os.unlink(self.p("trace.txt"))

    # ---- model terms
    def workload_term(self, w):
        ab = self.ab_for(w)
        s0 = ab.state(w["prior_state"])
        k = w["kind"]
        if k == "product":
            # per written file (in order of first write): system calls that leave it incomplete / complete
            f = ab.fops(w["prior_state"], w["ops"])
            ws, seen = [], {}
            for op, term in zip(w["ops"], f):
                if not term.startswith("Put"):
                    continue
                if op["path"] not in seen:
                    seen[op["path"]] = [ab.path(op["path"]), 0, 0]
                    ws.append(seen[op["path"]])
                seen[op["path"]][1 if term.endswith("(ResF None)") else 2] += 1
            return "(WProduct %s [%s] [%s] [%s] %d)" % (
                s0, "; ".join(ab.path(x) for x in w["nd"]),
                "; ".join("(%s, (%d, %d))" % (nm, max(ni - 1, 0), max(nc - 1, 0)) for nm, ni, nc in ws),
                "; ".join(ab.path(x) for x in w["nr"]), VAL[w["new_ds"]])
        if k == "create":
            if self.big:
                return "(WCreateB %s)" % self.bpieces_term(w)
            return "(WCreate %s)" % self.pieces_term(w["new_ds"])
        if k == "overwrite":
            order = []
            for op in w["ops"]:
                if op["op"] in ("unlink", "rmdir"):
                    order.append(ab.path(op["path"]))
                else:
                    break
            if self.big:
                return "(WOverwriteB %s [%s] %s)" % (s0, "; ".join(order), self.bpieces_term(w))
            return "(WOverwrite %s [%s] %s)" % (s0, "; ".join(order), self.pieces_term(w["new_ds"]))
        if k == "metadata":
            return "(WMeta %s)" % s0
        if k == "build":
            ies = []
            for pid in self.refs[w["prior_ds"]]["ids"]:
                nwr = sum(1 for op in w["ops"] if op["op"] == "write" and op["path"] == os.path.join("patch_%d" % pid, "trees.pkl"))
                ies.append("(%d, %d)" % (pid, max(nwr - 1, 0)))
            return "(WBuild %s [%s] %d %s)" % (s0, "; ".join(ies), TAG[w["spec"]["binning"]],
                                                "true" if w["spec"].get("force") else "false")
        if k == "corrfunc":
            # how many system calls leave the file incomplete / complete is a parameter of the model
            f = ab.fops(w["prior_state"], w["ops"])
            n_inc = sum(1 for x in f if x.endswith("(ResF None)"))
            n_com = len(f) - n_inc
            return "(WSingle %s %d %d %d)" % (s0, max(n_inc - 1, 0), max(n_com - 1, 0), VAL[w["new_ds"]])
        if k == "corrdata":
            return "(WTriple %s %d)" % (s0, VAL[w["new_ds"]])
        raise ValueError(k)

    def pieces_term(self, ds):
        return "[" + "; ".join("(%d, %s)" % (pid, coq_nlist(ids)) for pid, ids in self.ab.pieces[ds]) + "]"

    def data_ends(self, w):
        """-> {patch id: [length of data.bin without its header byte after every write system call on it]}"""
        st = w["prior_state"].copy()
        ends = {}
        for op in w["ops"]:
            st.apply(op)
            parts = op["path"].split(os.sep)
            if (op["op"] in ("write", "pwrite") and len(parts) == 2 and parts[1] == "data.bin"
                    and parts[0].startswith("patch_") and parts[0][6:].isdigit()):
                ends.setdefault(int(parts[0][6:]), []).append(len(st.files[op["path"]]) - 1)
        return ends

    def piece_cuts(self, w):
        """how the trace cuts every piece of the new dataset into write system calls: per piece the list of
        (complete records of the piece in the file, does a part of one more follow?) after each call that ends
        strictly inside the piece.  These are the parameters of the buffered model; a call that does not end where a
        piece ends (data of two pieces merged in a buffer, or written late) leaves the model's completing call
        without a counterpart and shows as a difference of the operation lists."""
        ends = self.data_ends(w)
        size = self.ab.recbytes[w["new_ds"]]
        start, out = {}, []
        for pid, ids in self.ab.pieces[w["new_ds"]]:
            lo = start.get(pid, 0) * size
            hi = lo + len(ids) * size
            out.append([((e - lo) // size, (e - lo) % size != 0) for e in ends.get(pid, []) if lo < e < hi])
            start[pid] = start.get(pid, 0) + len(ids)
        return out

    def bpieces_term(self, w):
        cuts = self.piece_cuts(w)
        w["cuts"] = cuts
        return "[" + "; ".join("((%d, %s), [%s])" % (pid, coq_recs(ids), "; ".join("(%d, %s)" % (c, "true" if t else "false") for c, t in cs))
                               for (pid, ids), cs in zip(self.ab.pieces[w["new_ds"]], cuts)) + "]"

    # ---- recovery of one materialised state
    def classify(self, w, st, req):
        """-> (class, detail).  0 error, 1 other, 2 old, 3 new, 4 both"""
        d = st.materialise(self.scratch)
        kind = w["kind"]
        if kind in ("create", "overwrite", "metadata", "build"):
            rs = self.W.call({"cmd": "recover", "dir": d, "requests": [req]})
            if "dead" in rs:
                return 1, {"worker": rs["dead"]}
            if not rs.get("ok"):
                raise RuntimeError("worker: %r" % rs)
            if not isinstance(rs["open"], dict):
                return 0, {"open": rs["open"]}
            old = self.refs.get(w["prior_ds"]) if w["prior_ds"] else None
            new = self.refs[w["new_ds"]]
            m = rs["measure"][req]

            def same(ref):
                return ref is not None and rs["open"]["ids"] == ref["ids"] and rs["open"]["data"] == ref["data"]
            a, b = same(old), same(new)
            det = {"ids": rs["open"]["ids"], "records": "old" if a else "new" if b else "other", "measure": m[:16]}
            if not (a or b):
                return 1, det
            if m.startswith("error"):
                return 0, det
            a = a and m == old["measure"][req]
            b = b and m == new["measure"][req]
            return (4 if a and b else 2 if a else 3 if b else 1), det
        if kind == "product":
            sh = w["spec"]["shape"]
            rs = self.W.call({"cmd": "read_named", "what": sh["what"], "arg": self.arg_of(w, d), "as_path": sh["as_path"],
                              "cwd": self.cwd_of(w, d)})
            if "dead" in rs:
                return 1, {"worker": rs["dead"]}
            r = rs["result"]
            if r.startswith("error"):
                return 0, {"result": r}
            dg = self.prod[sh["what"]]["digest"]
            a = w["prior_ds"] is not None and r == dg[w["prior_ds"]]
            b = r == dg[w["new_ds"]]
            return (4 if a and b else 2 if a else 3 if b else 1), {"result": r[:24]}
        if kind == "corrfunc":
            rs = self.W.call({"cmd": "read_corrfunc", "path": os.path.join(d, "cf.hdf5")})
            key = "corrfunc"
        else:
            rs = self.W.call({"cmd": "read_corrdata", "prefix": os.path.join(d, "cd")})
            key = "corrdata"
        if "dead" in rs:
            return 1, {"worker": rs["dead"]}
        r = rs["result"]
        if r.startswith("error"):
            return 0, {"result": r}
        a = w["prior_ds"] is not None and r == self.res_digest[w["prior_ds"]][key]
        b = r == self.res_digest[w["new_ds"]][key]
        return (4 if a and b else 2 if a else 3 if b else 1), {"result": r[:16]}

    def patch_cache(self, st, pid):
        """-> (binning tag the marker of patch pid decodes to | None when there is no marker or it is not a complete one,
               binning tag the complete trees.pkl was built for | None)"""
        bf, tf = os.path.join("patch_%d" % pid, "binning"), os.path.join("patch_%d" % pid, "trees.pkl")
        m = t = None
        if bf in st.files:
            c = self.ab.content(bf, st.files[bf])
            if c == "(BinF BByte)":
                m = 0                         # the complete marker of "unbinned" (and a torn binned one)
            elif c.startswith("(BinF (BWhole "):
                m = int(c[len("(BinF (BWhole "):-2])
        if tf in st.files:
            c = self.ab.content(tf, st.files[tf])
            if c.startswith("(TreesF (Some "):
                t = int(c[len("(TreesF (Some "):-2])
        return m, t

    def rebuild_signature(self, w, k, st):
        """what is wrong with the cache a crashed rebuild left, read off the files: a complete marker next to complete
        trees built for another binning"""
        mx = w["spec"]["matrix"]
        how = "forced" if mx["force"] else "implicit"
        old_t = None if mx["earlier"] == NOTHING else TAG[mx["earlier"]]
        new_t = TAG[mx["request"]]
        kinds = set()
        for pid in self.refs[w["prior_ds"]]["ids"]:
            m, t = self.patch_cache(st, pid)
            if m is None or t is None or m == t:
                continue
            if m == old_t and t == new_t:
                kinds.add("old-marker-over-new-trees")
            elif m == new_t and t == old_t:
                kinds.add("new-marker-over-old-trees")
            else:
                kinds.add("marker-and-trees-of-different-binnings")
        for what in ("old-marker-over-new-trees", "new-marker-over-old-trees", "marker-and-trees-of-different-binnings"):
            if what in kinds:
                return "c08-rebuild-%s:%s-rebuild" % (what, how)
        return "c08-rebuild-other:%s-rebuild:%s" % (how, self.position(w, k).split(",")[0])

    def position(self, w, k):
        """crash position class of prefix k (for signatures / evidence): the operation just completed"""
        if k == 0:
            return "before-first-op"
        if k == len(w["ops"]):
            return "complete"
        op = w["ops"][k - 1]
        nxt = w["ops"][k]
        # a rename is named source>target (after-rename:patch_ids.tmp>patch_ids.bin)
        nm = lambda o: os.path.basename(o["path"]) + (">" + os.path.basename(o["to"]) if o["op"] == "rename" and o.get("to") else "")
        return "after-%s:%s,before-%s:%s" % (op["op"], nm(op), nxt["op"], nm(nxt))

    def signature(self, w, k, st, req, det):
        kind = w["kind"]
        if kind == "build" and w["spec"].get("matrix"):
            return self.rebuild_signature(w, k, st)
        if kind == "build":
            # which patch is stale?
            new_t, stale = TAG[w["spec"]["binning"]], None
            for pid in self.refs[w["prior_ds"]]["ids"]:
                mk = self.ab.content("binning", st.files.get(os.path.join("patch_%d" % pid, "binning"), b"")) \
                    if os.path.join("patch_%d" % pid, "binning") in st.files else None
                tc = self.ab.content(os.path.join("patch_%d" % pid, "trees.pkl"), st.files.get(os.path.join("patch_%d" % pid, "trees.pkl"), b""))
                if mk and mk.startswith("(BinF (BWhole") and tc == "(TreesF (Some %d))" % new_t and mk != "(BinF (BWhole %d))" % new_t:
                    stale = pid
            if stale is not None:
                return "c08-trees-stale-marker"
            return "c08-trees-other:%s" % self.position(w, k).split(",")[0]
        pos = self.position(w, k).split(",")[0]          # coarse position class: the operation just completed
        if kind == "product":
            what = w["spec"]["shape"]["what"]
            tab = self.prod[what]["table"]
            vals = {tab.get(norm_h5(st.files[f]) if what == "CorrFunc" else st.files[f]) for f in w["nr"] if f in st.files}
            if len(vals) > 1 and None not in vals:
                # every file the reader opens is complete, but they belong to different products
                return "c08-product-read-mixes-old-and-new-files:%s" % what
            return "c08-product-other:%s:%s" % (what, pos.split(":")[0])
        if kind in ("create", "overwrite"):
            if (st.files.get("patch_ids.bin") == b"" and det.get("ids") == []
                    and self.position(w, k) == "after-open:patch_ids.bin,before-write:patch_ids.bin"):
                return "c08-empty-patch-ids-opens-as-empty-catalog"
            fin = w["final_state"].files
            short = sorted(f for f in fin if os.path.basename(f) == "data.bin" and st.files.get(f) != fin[f])
            if st.files.get("patch_ids.bin") == fin.get("patch_ids.bin") and short:
                # the completeness marker is on disk, the data of some patch is not (yet)
                return "c08-%s-patch-ids-complete-before-patch-data:%s" % (kind, pos)
            return "c08-%s-partial-catalog-opens:%s" % (kind, pos)
        if kind == "metadata":
            return "c08-metadata-partial:%s" % pos
        if kind == "corrdata":
            dat, smp = st.files.get("cd.dat"), st.files.get("cd.smp")
            va, vb = self.ab.results.get(("cd.dat", dat)), self.ab.results.get(("cd.smp", smp))
            if va is not None and vb is not None and va != vb:
                return "c08-result-triple-mixed"
            return "c08-result-triple-other:%s" % self.position(w, k).split(",")[0]
        return "c08-result-file-partial-readable:%s" % self.position(w, k).split(",")[0]


# ------------------------------------------------------------------ deaths by unwinding
# The sweep above kills at system calls (what SIGKILL / a power cut does).  Processes usually die differently: an
# exception that is not an Exception travels up the stack (KeyboardInterrupt from SIGINT, SystemExit from a SIGTERM
# handler), an exception nobody catches, a signal with its default action; all but the last run handlers, __exit__
# methods and finally blocks, in the main process AND, with several workers, in the processes it started, which may
# go on writing after the main process is gone.  Every case below is one REAL run of the workload in a process group
# of its own (props/c08_driver.py interrupted) that dies at a chosen position; what is left when the group has come
# to rest is classified by the same recovery as every crash state, and abstracted to a model state for which Coq
# decides whether some crash point of the uninterrupted run leaves it too (c08_unwound, theorem C08_unwound_as_crash).
U_LABEL = ["error", "OTHER", "old", "new", "old=new"]
U_RAISING = ["KeyboardInterrupt", "SystemExit", "OSError", "SIGINT", "SIGTERM-exit"]     # die by unwinding, main process only
U_CALL_QUICK = ["create", "overwrite", "build_first", "rebuild_edges", "corrfunc_over", "corrdata_over"]
U_CALL_MORE = ["metadata", "rebuild_closed", "rebuild_forced", "corrfunc_fresh", "corrdata_fresh", "p00_CorrData", "p07_CorrFunc"]
DISCIPLINES = ["d_always", "d_never", "d_unforced_only", "d_forced_only"]     # Model/FsRebuild.v
U_PARALLEL = 10
U_TIMEOUT = 25       # seconds after which a job that does not come back is killed (an uninterrupted run takes 2 - 4)


def pgroup_alive(pgid):
    """pids of the live (not zombie) processes of a process group"""
    out = []
    for p in os.listdir("/proc"):
        if not p.isdigit():
            continue
        try:
            with open("/proc/%s/stat" % p) as fh:
                s = fh.read()
        except OSError:
            continue
        rest = s[s.rindex(")") + 2:].split()
        if int(rest[2]) == pgid and rest[0] != "Z":
            out.append(int(p))
    return out


def run_interrupted(S, j, u):
    """one run of workload u["w"] that dies at u["hook"] position u["at"] in the way u["mode"] (u["at"] = 0 with the
    call hook: nothing happens, the calls are counted).  Fills in rc, status, orphans, hung, state (what is left)."""
    import signal
    w = u["w"]
    base = S.p("unw", "r%03d" % j)
    dst = os.path.join(base, "wl", w["name"])
    os.makedirs(dst)
    prior = S.p("wl", w["name"], "prior")
    if os.path.isdir(prior):
        shutil.copytree(prior, os.path.join(dst, "live"))
    item = [it for it in S.driver_spec(base, None)["workloads"] if it["name"] == w["name"]][0]
    item.update(workers=u["workers"], mode=u["mode"], hook=u["hook"], at=u["at"], status=os.path.join(base, "status"))
    with open(os.path.join(base, "spec.json"), "w") as fh:
        json.dump(item, fh)
    env = S.W.env()
    env.pop("YAW_NUM_THREADS", None)          # the driver sets it to the number of workers of the run
    with open(os.path.join(base, "stderr"), "wb") as errf:
        p = subprocess.Popen(["/venv/bin/python", drv.__file__, "interrupted", os.path.join(base, "spec.json")], env=env,
                             stdin=subprocess.DEVNULL, stdout=subprocess.DEVNULL, stderr=errf, start_new_session=True)
        u["hung"] = False
        try:
            p.wait(timeout=u.get("timeout", U_TIMEOUT))
        except subprocess.TimeoutExpired:
            u["hung"] = True                  # e.g. a pool that never comes back after ctrl-c: the user kills the job
    t_end = time.time() + (0 if u["hung"] else U_GRACE)
    left = pgroup_alive(p.pid)
    while left and time.time() < t_end:
        time.sleep(0.05)
        left = pgroup_alive(p.pid)
    if left:
        try:
            os.killpg(p.pid, signal.SIGKILL)
        except ProcessLookupError:
            pass
    p.wait()
    while pgroup_alive(p.pid):
        time.sleep(0.02)
    u["rc"], u["orphans"] = p.returncode, len([x for x in left if x != p.pid])
    try:
        with open(os.path.join(base, "status")) as fh:
            u["status"] = fh.read().split("\n")
    except OSError:
        u["status"] = []
    with open(os.path.join(base, "stderr"), "rb") as fh:
        u["stderr"] = fh.read()[-600:].decode("utf-8", "replace")
    live = os.path.join(base, "wl", w["name"], "live")
    u["state"] = rp.DirState.load(live)
    u["fired"], u["completed"] = "fired" in u["status"], "completed" in u["status"]
    u["calls"] = next((int(x.split()[1]) for x in u["status"] if x.startswith("calls ")), None)
    u["workers_real"] = next((int(x.split()[1]) for x in u["status"] if x.startswith("workers ")), None)
    shutil.rmtree(base, ignore_errors=True)
    return u


def unwound_plan(ctx, S):
    """the runs of one scale.  Reader positions (catalog creation / overwrite): the process dies when the k-th chunk
    is requested from the data source, k = 1 .. number of chunks, sequentially and with 2 and 3 worker processes
    (the multiprocessing path with the dedicated writer process), in every way of U_RAISING (quick: the ways are
    dealt round-robin over (workload, workers, position), so that every worker count meets every way; thorough: all),
    plus SIGTERM with the default action and SIGINT to the whole process group.  Call positions: the process dies at
    the k-th call of a python function of the package (k drawn from 1 .. the number counted in an uninterrupted run),
    for creation, tree building and result files, sequentially (thorough: tree building with 2 workers as well)."""
    rng, quick = ctx.rng, ctx.quick()
    by_name = {w["name"]: w for w in S.wl}
    plan = []

    def add(w, workers, mode, hook, at, chk, **kw):
        plan.append(dict(w=w, workers=workers, mode=mode, hook=hook, at=at, chk=chk, **kw))

    modes = list(U_RAISING)
    rng.shuffle(modes)
    i = 0
    for workers in (1, 2, 3):
        for name in ("create", "overwrite"):
            w = by_name.get(name)
            if w is None:
                continue
            ds = w["new_ds"]
            nrec = sum(len(ids) for _, ids in S.ab.pieces[ds])
            nchunks = -(-nrec // drv.chunksize(ds, S.scale))
            w["nchunks"] = nchunks
            for at in range(1, nchunks + 1):
                for mode in ([modes[i % len(modes)]] if quick else modes):
                    # unwinding in the main process: everything handed over before the interrupt is written, nothing
                    # after it: the state at a chunk boundary, whatever the number of workers
                    add(w, workers, mode, "reader", at, True)
                i += 1
    for name, workers in ([("create", 2), ("overwrite", 1)] if quick else [(n, k) for n in ("create", "overwrite") for k in (1, 2, 3)]):
        w = by_name.get(name)
        if w is not None:
            # no unwinding: with workers the orphaned writer process stops wherever it is when the group is killed
            add(w, workers, "SIGTERM-default", "reader", rng.randint(1, w["nchunks"]), workers == 1)
    if not quick:
        for name, workers in (("create", 1), ("create", 2), ("overwrite", 2), ("overwrite", 3)):
            w = by_name.get(name)
            if w is not None:
                # ctrl-c: every process of the job is interrupted wherever it is (a pool may never come back: the job
                # is killed after the timeout, as its user would)
                add(w, workers, "SIGINT-group", "reader", rng.randint(1, w["nchunks"]), workers == 1, timeout=12)
    calls = [by_name[n] for n in (U_CALL_QUICK if quick else U_CALL_QUICK + U_CALL_MORE) if n in by_name]
    # generated rebuilds over a valid older state: forced ones whose earlier binning differs from the requested one
    gen = [w for w in S.wl if w["spec"].get("matrix") and w["spec"]["matrix"]["force"]
           and w["spec"]["matrix"]["earlier"] not in (NOTHING, w["spec"]["matrix"]["request"])]
    calls += gen[:1] if quick else rng.sample(gen, min(4, len(gen)))
    return plan, calls


class Unwound:
    """the interrupted runs of scale S.  start(): the plan is drawn (all random choices happen here, from ctx.rng) and
    the runs begin in the background: they are processes of their own and only read the prior states of the workloads,
    so they run WHILE the crash points of the same scale are swept.  finish(): the left-over directories are
    classified by the recovery worker (which still holds the fixed catalogs of this scale) and abstracted."""

    def __init__(self, ctx, S):
        import random
        self.ctx, self.S = ctx, S
        self.plan, self.calls = unwound_plan(ctx, S)
        self.rng = random.Random(ctx.rng.getrandbits(64))
        self.t0 = time.time()
        self.ex = ThreadPoolExecutor(max_workers=1)
        self.fut = self.ex.submit(self.runs)

    def runs(self):
        S, rng, quick = self.S, self.rng, self.ctx.quick()
        # uninterrupted runs with the call hook: how many positions are there?
        counts = [dict(w=w, workers=1, mode="KeyboardInterrupt", hook="call", at=0, chk=True) for w in self.calls]
        with ThreadPoolExecutor(max_workers=U_PARALLEL) as ex:
            fut_cnt = [ex.submit(run_interrupted, S, 500 + j, u) for j, u in enumerate(counts)]
            fut_plan = [ex.submit(run_interrupted, S, j, u) for j, u in enumerate(self.plan)]
            counts = [f.result() for f in fut_cnt]
            second = []
            call_modes = ["KeyboardInterrupt", "SystemExit", "SIGINT", "SIGTERM-exit"]
            rng.shuffle(call_modes)
            i = 0
            for c in counts:
                # (nothing here may talk to the recovery worker: the main thread is using it)
                fin = c["w"]["final_state"]
                c["ok"] = bool(c["completed"] and c["calls"] and set(c["state"].files) == set(fin.files) and c["state"].dirs == fin.dirs)
                if not c["ok"]:
                    continue
                c["w"]["ncalls"] = c["calls"]
                for at in sorted(set(rng.randint(1, c["calls"]) for _ in range(2 if quick else 10))):
                    second.append(dict(w=c["w"], workers=1, mode=call_modes[i % len(call_modes)], hook="call", at=at, chk=True))
                    i += 1
                if not quick and c["w"]["kind"] == "build":
                    for at in sorted(set(rng.randint(1, c["calls"]) for _ in range(3))):
                        # trees built by pool processes that are terminated wherever they are: per patch a crash state
                        second.append(dict(w=c["w"], workers=2, mode=call_modes[i % len(call_modes)], hook="call", at=at, chk=False))
                        i += 1
            fut_second = [ex.submit(run_interrupted, S, 600 + j, u) for j, u in enumerate(second)]
            done = [f.result() for f in fut_plan] + [f.result() for f in fut_second]
        shutil.rmtree(S.p("unw"), ignore_errors=True)
        return counts, done, time.time()

    def finish(self):
        """-> list of interrupted-run cases (classified, with the abstract left-over state)"""
        ctx, S = self.ctx, self.S
        t_wait = time.time()
        counts, done, t_runs = self.fut.result()
        self.ex.shutdown()
        t1 = time.time()
        for c in counts:
            ab = S.ab_for(c["w"])
            c["ok"] = c["ok"] and ab.state(c["state"]) == ab.state(c["w"]["final_state"])
            ctx.obligation("unwound-selfcheck:%s/%s (an uninterrupted run of the driver with the call hook leaves the final "
                           "directory of the traced run; %s calls)" % (S.tag, c["w"]["name"], c["calls"]), c["ok"],
                           json.dumps(dict(rc=c["rc"], status=c["status"], stderr=c["stderr"])))
        ucases = []
        for u in done:
            w = u["w"]
            if u["hung"]:
                u["chk"] = False      # killed by the harness wherever its processes were: any state may be left
            u["lterm"] = S.ab_for(w).state(u["state"])
            for req in (w["requests"] or [DEFAULT_REQ]):
                cls, det = S.classify(w, u["state"], req)
                c = dict(u, idx="u%s%d" % (S.tag, len(ucases)), scale=S.tag, S=S, req=req, cls=cls, det=det)
                ucases.append(c)
                died = u["fired"] and not u["completed"]
                ctx.count(key=(S.tag, "unwound", w["name"], u["hook"], u["at"], u["mode"], u["workers"], req), nontrivial=died,
                          kind="unwound:%s:%s:%s:workers=%d:%s" % (w["name"], u["hook"], u["mode"], u["workers"], U_LABEL[cls]))
            ctx.bump("unwound-run:%s" % ("hung, killed" if u["hung"] else "not interrupted" if not u["fired"] else
                                         "completed all the same" if u["completed"] else
                                         "died, %s" % ("processes left behind" if u["orphans"] else "no process left behind")))
            if u["workers_real"] is not None and u["workers_real"] != u["workers"]:
                ctx.bump("unwound-run:fewer workers than asked for (machine too small)")
        ctx.log("scale %s: %d interrupted runs (+%d counting runs) took %.1fs in the background (waited %.1fs for them), %d cases classified in %.1fs"
                % (S.tag, len(done), len(counts), t_runs - self.t0, t1 - t_wait, len(ucases), time.time() - t1))
        ctx.extra.setdefault("unwound", {})[S.tag] = dict(
            runs=len(done), cases=len(ucases), calls_per_workload={c["w"]["name"]: c["calls"] for c in counts},
            died=sum(1 for u in done if u["fired"] and not u["completed"]), hung=sum(1 for u in done if u["hung"]),
            left_processes_behind=sum(1 for u in done if u["orphans"]),
            exit_statuses=sorted({str(u["rc"]) for u in done}),
            hung_runs=[dict(workload=u["w"]["name"], workers=u["workers"], mode=u["mode"], hook=u["hook"], at=u["at"], fired=u["fired"],
                            left_on_disk=sorted(u["state"].files), stderr=u["stderr"][-300:]) for u in done if u["hung"]][:6])
        return ucases


def unwound_signature(c):
    w, st = c["w"], c["state"]
    how = "unwinding" if c["mode"] in U_RAISING else "signal-to-every-process" if c["mode"] == "SIGINT-group" else "signal-default-action"
    nw = "sequential" if c["workers"] == 1 else "worker-processes"
    kind = w["kind"]
    if kind in ("create", "overwrite"):
        fin = w["final_state"].files
        part = [f for f in fin if os.path.basename(f) == "data.bin" and st.files.get(f) != fin[f]]
        if "patch_ids.bin" in st.files and (part or st.files["patch_ids.bin"] != fin.get("patch_ids.bin")):
            # the completeness marker was written although the input had not been read to its end
            return "c08-%s-interrupted-by-%s-%s:patch-ids-written-for-partial-data" % (kind, how, nw)
        return "c08-%s-interrupted-by-%s-%s:partial-catalog-opens" % (kind, how, nw)
    if kind == "build":
        return "c08-trees-interrupted-by-%s-%s:other-trees-used" % (how, nw)
    if kind == "metadata":
        return "c08-metadata-interrupted-by-%s-%s:partial" % (how, nw)
    what = w["spec"]["shape"]["what"] if kind == "product" else kind
    return "c08-result-interrupted-by-%s:%s-partial-readable" % (how, what)


def unwound_compare(ctx, header, ucases):
    terms, slots = [], []
    for n, c in enumerate(ucases):
        for fixed in (False, True):
            slots.append((n, fixed))
            terms.append("c08_unwound %s %s %s %d %d %s" % (COQ_BOOL[fixed], c["w"]["coq_name"], c["lterm"], TAG.get(c["req"], 0), c["cls"],
                                                           "true" if c["chk"] else "false"))
        if c["w"]["kind"] in MIXED_KINDS:
            slots.append((n, MIXED))
            terms.append("c08_unwound2 false true %s %s %d %d %s" % (c["w"]["coq_name"], c["lterm"], TAG.get(c["req"], 0), c["cls"],
                                                                    "true" if c["chk"] else "false"))
    t0 = time.time()
    # only the workloads the interrupted runs refer to (the header of the crash points holds those of every scale)
    used = {}
    for c in ucases:
        used[int(c["w"]["coq_name"][1:])] = c["w"]
    header = HEADER + "\n".join("Definition w%d : workload := %s." % (j, used[j]["term"]) for j in sorted(used)) + "\n"
    codes = ctx.shards("Unwound_C08", header, terms, shard=max(12, -(-len(terms) // 16)))
    ctx.log("interrupted runs: %d terms evaluated in Coq in %.1fs (at the same time as the crash points)" % (len(terms), time.time() - t0))
    for c in ucases:
        c["code"] = {}
    for (n, key), code in zip(slots, codes):
        ucases[n]["code"][key] = code


def unwound_verdicts(ctx, ucases):
    for c in ucases:
        w, S = c["w"], c["S"]
        code = c["code"][w.get("variant", False)]
        where = ("%d-th request for a chunk of the input (of %d)" % (c["at"], w.get("nchunks", 0)) if c["hook"] == "reader"
                 else "%d-th call of a function of the package (of %s)" % (c["at"], w.get("ncalls")))
        info = dict(scale=S.tag, scale_params=S.scale, workload=w["name"], kind=w["kind"], workers=c["workers"], mode=c["mode"],
                    hook=c["hook"], at=c["at"], request=c["req"], exit_status=c["rc"], hung=c["hung"], processes_left_behind=c["orphans"],
                    left_on_disk={f: len(b) for f, b in sorted(c["state"].files.items())}, detail=c["det"],
                    driver="harness/props/c08_driver.py interrupted <spec> (spec = workload item + workers, mode, hook, at)")
        if c["cls"] == 1:
            prior = "nothing" if w["prior_ds"] is None else "dataset %s%s" % (w["prior_ds"], "" if w["kind"] != "build" else " + its tree cache")
            what = ("workload %s (scale %s, prior state: %s) run with %d worker process(es); the process dies by %s at the %s "
                    "(exit status %s); the directory it leaves (%s) is then used: recovery succeeds with a result that is "
                    "neither the old nor the new state: %s"
                    % (w["name"], S.tag, prior, c["workers"], c["mode"], where, c["rc"],
                       ", ".join("%s: %d bytes" % kv for kv in info["left_on_disk"].items()) or "empty", json.dumps(c["det"])))
            ctx.fail(unwound_signature(c), what, info, case=c["idx"])
            ctx.sample({"interrupted_run": (S.tag, w["name"], c["workers"], c["mode"], c["hook"], c["at"]), "detail": c["det"]}, limit=4)
        if code is None or code & 1:
            ctx.disagree("Unwound_C08", c["idx"], dict(info, note="the model's recovery of the abstracted left-over state gives another class "
                                                       "than the real recovery", impl_class=c["cls"], state=c["lterm"][:2000]))
        elif code & 4:
            ctx.disagree("Unwound_C08", c["idx"], dict(info, note="the state the interrupted run left is not the state after any prefix of "
                                                       "the operation list of the uninterrupted run (handlers / other processes wrote on)",
                                                       impl_class=c["cls"], state=c["lterm"][:2000]))
    for c in ucases:
        if c["fired"] and not c["completed"] and c["workers"] > 1 and c["hook"] == "reader":
            ctx.sample({"interrupted_run": (c["scale"], c["w"]["name"], "workers=%d" % c["workers"], c["mode"], "chunk %d" % c["at"]),
                        "exit_status": c["rc"], "left_on_disk": sorted(c["state"].files), "class": U_LABEL[c["cls"]]}, limit=5)
            break


# ------------------------------------------------------------------ run
def sweep(ctx, S, cases):
    """all prefixes of all workloads of scale S; appends case dicts"""
    for w in S.wl:
        reqs = w["requests"] or [DEFAULT_REQ]
        n = len(w["ops"])
        t0 = time.time()
        for k, st in rp.prefixes(w["prior_state"], w["ops"]):
            for req in reqs:
                cls, det = S.classify(w, st, req)
                c = dict(idx=len(cases), scale=S.tag, w=w, k=k, req=req, cls=cls, det=det, pos=S.position(w, k))
                if cls == 1:
                    c["sig"] = S.signature(w, k, st, req, det)
                cases.append(c)
                label = w["name"] if w["kind"] != "product" else "product:" + shape_class(w["spec"]["shape"])
                mx = w["spec"].get("matrix")
                if mx:
                    label = "rebuild:%s:later=%s" % (mx["stratum"], "rebuilt-binning" if req == mx["request"] else
                                                       "earlier-binning" if req == mx["earlier"] else "third-binning")
                ctx.count(key=(S.tag, w["name"], k, req) if w["kind"] != "product" else (S.tag, json.dumps(w["spec"]["shape"], sort_keys=True), k),
                          nontrivial=0 < k < n, kind="%s:%s" % (label, ["error", "OTHER", "old", "new", "old=new"][cls]))
        ctx.log("scale %s %-22s %3d ops, %d crash points x %d requests  (%.1fs)" % (S.tag, w["name"], n, n + 1, len(reqs), time.time() - t0))


def coq_compare(ctx, scales, cases, ucases=()):
    # (i) op-list conformance and hypotheses, per workload, against both model variants
    wterms, wl_index = [], []
    for S in scales:
        for w in S.wl:
            w["term"] = S.workload_term(w)
            w["impl_ops"] = "[" + "; ".join(S.ab_for(w).fops(w["prior_state"], w["ops"])) + "]"
            wl_index.append((S, w))
    defs = []
    for j, (S, w) in enumerate(wl_index):
        w["coq_name"] = "w%d" % j
        defs.append("Definition w%d : workload := %s." % (j, w["term"]))
        defs.append("Definition i%d : list fop := %s." % (j, w["impl_ops"]))
    # number of bins per binning id (Model/FsRebuild.v: more trees than bins raise, fewer are used silently)
    defs.append("Definition nbt : list (nat * nat) := [%s]." % "; ".join("(%d, %d)" % (TAG[b], nbins_of(b)) for b in sorted(TAG, key=TAG.get)))
    header = HEADER + "\n".join(defs) + "\n"
    terms = []
    for j, (S, w) in enumerate(wl_index):
        terms += ["c08_ops false w%d i%d" % (j, j), "c08_ops true w%d i%d" % (j, j), "c08_hyp w%d" % j]
    # rebuilds: the hypotheses of the rebuild theorems on the generated prior states (the stated earlier state holds on
    # every patch), and which disciplines (order of the phases as a function of `force`) explain each traced rebuild
    builds = [(j, w) for j, (S, w) in enumerate(wl_index) if w["kind"] == "build"]
    n_reg = len(terms)
    for j, w in builds:
        mx = w["spec"].get("matrix")
        earlier = (mx["earlier"] if mx else {"build_first": NOTHING, "rebuild_from_unbinned": "none"}.get(w["name"], "b1"))
        terms.append("c08_rebuild_hyp w%d %s" % (j, "None" if earlier == NOTHING else "(Some %d)" % TAG[earlier]))
        terms += ["c08_rebuild_ops %s w%d i%d" % (d, j, j) for d in DISCIPLINES]
    codes = ctx.shards("Ops_C08", header, terms, shard=3000)
    per = 1 + len(DISCIPLINES)
    explained = {d: [] for d in DISCIPLINES}
    for n, (j, w) in enumerate(builds):
        got = codes[n_reg + per * n:n_reg + per * (n + 1)]
        S = wl_index[j][0]
        if got[0] != 0:
            ctx.obligation("hypotheses:%s/%s (rebuild: the prior state holds the stated earlier trees and marker on every patch, "
                           "every patch is visited once)" % (S.tag, w["name"]), False, "c08_rebuild_hyp = %r" % (got[0],))
        w["disciplines"] = [d for d, c in zip(DISCIPLINES, got[1:]) if c == 0]
        for d in w["disciplines"]:
            explained[d].append("%s/%s" % (S.tag, w["name"]))
    ctx.extra["rebuild_hypotheses_checked"] = sum(1 for n in range(len(builds)) if codes[n_reg + per * n] == 0)
    ctx.extra["rebuild_disciplines"] = {
        "explaining_every_traced_rebuild": [d for d in DISCIPLINES if len(explained[d]) == len(builds)],
        "rebuilds_explained": {d: len(explained[d]) for d in DISCIPLINES}, "rebuilds_traced": len(builds),
        "note": "d_always = marker removed first, trees, marker last, forced or not (theorem C08_rebuild_over_valid_safe); "
                "the others keep the old marker while the trees are rewritten (C08_keep_marker_stale)"}
    for j, (S, w) in enumerate(wl_index):
        cur, fix, hyp = codes[3 * j:3 * j + 3]
        w["ops_ok"] = {False: cur == 0, True: fix == 0}
        if w["kind"] in MIXED_KINDS:
            w["ops_ok"][MIXED] = cur == 0      # the operation list of the pinned form
        w["hyp"] = hyp
        if hyp != 0:
            ctx.obligation("hypotheses:%s/%s (wf prior state, valid deletion order, consistent tree caches; product: every name that "
                           "is read is written, and removed beforehand unless written first)" % (S.tag, w["name"]),
                           False, "c08_hyp = %r%s" % (hyp, "" if w["kind"] != "product" else
                                                      " names removed=%r read=%r" % (w["nd"], w["nr"])))
    ctx.extra["hypotheses_checked"] = sum(1 for _, w in wl_index if w["hyp"] == 0)
    # (ii) crash points, both variants
    terms, slots = [], []
    for n, c in enumerate(cases):
        req = TAG.get(c["req"], 0)
        for key in (False, True):
            fixed = COQ_BOOL[key]
            slots.append((n, key))
            if c["w"]["spec"].get("matrix"):
                # generated rebuilds: the recovery of the model knows the numbers of bins
                terms.append("c08_rebuild_case %s nbt %s %d %d %d" % (fixed, c["w"]["coq_name"], c["k"], req, c["cls"]))
            else:
                terms.append("c08_case %s %s %d %d %d" % (fixed, c["w"]["coq_name"], c["k"], req, c["cls"]))
        if c["w"]["kind"] in MIXED_KINDS:
            # catalog creation: the operation list of the pinned form, the id-list check of the repaired one
            slots.append((n, MIXED))
            terms.append("c08_case2 false true %s %d %d %d" % (c["w"]["coq_name"], c["k"], req, c["cls"]))
    # (iii) interrupted runs: compiled at the same time as the crash points
    with ThreadPoolExecutor(max_workers=1) as ex:
        fut = ex.submit(unwound_compare, ctx, header, ucases) if ucases else None
        codes = ctx.shards("Cases_C08", header, terms, shard=400)
        if fut is not None:
            fut.result()
    for c in cases:
        c["code"] = {}
    for (n, key), code in zip(slots, codes):
        cases[n]["code"][key] = code
    return wl_index, header


def verdicts(ctx, wl_index, cases):
    by_w = {}
    for c in cases:
        by_w.setdefault((c["scale"], c["w"]["name"]), []).append(c)
    variants = {}
    for S, w in wl_index:
        cs = by_w.get((S.tag, w["name"]), [])
        bad = {}
        forms = [False, True] + ([MIXED] if w["kind"] in MIXED_KINDS else [])
        for fixed in forms:
            n_bad = sum(1 for c in cs if c["code"][fixed] is None or c["code"][fixed] & 1)
            bad[fixed] = n_bad + (0 if w["ops_ok"][fixed] else 1000)
        fixed = min(forms, key=lambda f: bad[f])           # ties: pinned, repaired, mixed (in this order)
        w["variant"] = fixed
        variants["%s/%s" % (S.tag, w["name"])] = FORM_NAME[fixed] + ("" if bad[fixed] == 0 else " (disagrees: %d)" % bad[fixed])
        # property failures first (they explain disagreements of the same case)
        for c in cs:
            if c["cls"] == 1:
                prior = "nothing" if w["prior_ds"] is None else "dataset %s%s" % (w["prior_ds"], "" if w["kind"] != "build" else " + its tree cache")
                if w["kind"] == "product":
                    sh = w["spec"]["shape"]
                    prior = ("%s.%s(%s(%r)) with working directory %r; older product written through the same path: %s; files left "
                             "by the crash: %s; names removed %r, read %r"
                             % (sh["what"], "to_files" if sh["what"] in TRIPLES else "to_file", "Path" if sh["as_path"] else "str",
                                S.arg_of(w, "<dir>"), S.cwd_of(w, "<dir>"), sh["prior"],
                                sorted(rp.replay_all(w["prior_state"], w["ops"][:c["k"]]).files), w["nd"], w["nr"]))
                mx = w["spec"].get("matrix")
                if mx:
                    show = lambda b: "no tree cache" if b == NOTHING else "unbinned" if b == "none" else \
                        "edges %s closed=%s" % (drv.BINNINGS[b][0], drv.BINNINGS[b][1])
                    st_k = rp.replay_all(w["prior_state"], w["ops"][:c["k"]])
                    caches = {pid: S.patch_cache(st_k, pid) for pid in S.refs[w["prior_ds"]]["ids"]}
                    name_of = {v: n for n, v in TAG.items()}
                    prior = ("dataset A with a tree cache valid on every patch for: %s [%s]; the process runs build_trees(%s [%s], force=%s) "
                             "and dies; per patch (binning the marker on disk names, binning the trees on disk were built for): %s; the "
                             "later measurement asks for %s [%s]"
                             % (show(mx["earlier"]), mx["earlier"], show(mx["request"]), mx["request"], mx["force"],
                                {pid: tuple(name_of.get(x, x) for x in mt) for pid, mt in caches.items()}, show(c["req"]), c["req"]))
                what = ("workload %s (scale %s, prior state: %s), crash %s (after %d of %d operations), later request %s: "
                        "recovery succeeds with a result that is neither the old nor the new state: %s"
                        % (w["name"], S.tag, prior, c["pos"], c["k"], len(w["ops"]), c["req"], json.dumps(c["det"])))
                ctx.fail(c["sig"], what, dict(scale=S.tag, scale_params=S.scale, workload=w["name"], k=c["k"], request=c["req"],
                                              position=c["pos"], detail=c["det"], shape=w["spec"].get("shape"), rebuild=mx,
                                              ops=[dict(op=o["op"], path=o["path"], nbytes=len(o.get("data", b""))) for o in w["ops"]]),
                         case=c["idx"])
        if not w["ops_ok"][fixed]:
            ctx.disagree("Ops_C08", "%s/%s" % (S.tag, w["name"]),
                         dict(note="operation list of the real trace differs from the model's (both variants)",
                              impl_ops=w["impl_ops"][:3000], workload=w["term"][:3000]))
        for c in cs:
            code = c["code"][fixed]
            if code is None or code & 1:
                ctx.disagree("Cases_C08", c["idx"], dict(scale=S.tag, workload=w["name"], k=c["k"], request=c["req"],
                                                          impl_class=c["cls"], position=c["pos"], detail=c["det"], variant=fixed))
    ctx.extra["model_variant_agreeing"] = variants


def probes(ctx, scales, cases):
    """deterministic probes of the expected findings: the named crash points are part of every sweep (all
    prefixes of the small scale); here they are looked up and reported when the defect is NOT seen any more"""
    S = scales[0]
    want = {
        "F12 stale marker (rebuild_edges, after the last write of patch 0's trees.pkl, request = old binning)":
            lambda c: c["w"]["name"] == "rebuild_edges" and c["req"] == "b1" and c["pos"].startswith("after-write:trees.pkl,before-open:binning"),
        "F21 empty patch_ids.bin (create, between open and write of patch_ids.bin)":
            lambda c: c["w"]["name"] == "create" and c["pos"] == "after-open:patch_ids.bin,before-write:patch_ids.bin",
        "F35 repaired (create: id list written aside, crash between the write of patch_ids.tmp and its rename)":
            lambda c: c["w"]["name"] == "create" and c["pos"] == "after-write:patch_ids.tmp,before-rename:patch_ids.tmp>patch_ids.bin",
        "F18 mixed triple (corrdata_over, new .dat written, .smp still old)":
            lambda c: c["w"]["name"] == "corrdata_over" and c["pos"] == "after-write:cd.dat,before-open:cd.smp",
        "F18 under a prefix with dots (CorrData.to_files('nz_z0.2-1.4') over an older product written through the same "
        "path, first file rewritten, second not yet reopened)":
            lambda c: c["w"]["name"] == "p00_CorrData" and c["k"] == len(c["w"]["ops"]) - 4,
    }
    seen = {}
    for name, pred in want.items():
        hits = [c for c in cases if c["scale"] == S.tag and pred(c)]
        seen[name] = sorted({["error", "OTHER", "old", "new", "old=new"][c["cls"]] for c in hits}) if hits else "crash point not present in the trace"
    ctx.extra["probes"] = seen


def buffering_evidence(ctx, scales):
    """what the large scale exercised: sizes of the pieces relative to an io block and how the trace cut them into
    write system calls (evidence only: an implementation that writes every piece in one call is fine as well)"""
    out = {}
    for S in scales:
        if not S.big:
            continue
        for w in S.wl:
            rb = S.ab.recbytes[w["new_ds"]]
            sizes = [len(ids) * rb for _, ids in S.ab.pieces[w["new_ds"]]]
            cuts = w.get("cuts") or [[] for _ in sizes]
            per_patch = {}
            for pid, ids in S.ab.pieces[w["new_ds"]]:
                per_patch[pid] = per_patch.get(pid, 0) + len(ids) * rb
            out["%s/%s" % (S.tag, w["name"])] = dict(
                chunksize=drv.chunksize(w["new_ds"], S.scale), record_bytes=rb, pieces=len(sizes), bytes_per_patch=per_patch,
                piece_bytes_min_max=[min(sizes), max(sizes)], pieces_below_io_block=sum(1 for x in sizes if x < IO_BLOCK),
                pieces_above_two_io_blocks=sum(1 for x in sizes if x > 2 * IO_BLOCK),
                last_piece_bytes={pid: [len(ids) * rb for q, ids in S.ab.pieces[w["new_ds"]] if q == pid][-1] for pid in per_patch},
                pieces_in_several_system_calls=sum(1 for c in cuts if c), torn_cuts=sum(1 for c in cuts for _, t in c if t),
                operations=len(w["ops"]))
            ctx.bump("x:%s:pieces-in-several-system-calls=%s" % (w["name"], "yes" if any(cuts) else "no"))
    if out:
        ctx.extra["buffering"] = out


def sigkill_crosscheck(ctx, S, n_runs, key="sigkill_crosscheck"):
    """thorough: produce crash points for real (strace SIGKILL injection) and compare with the replayed prefix"""
    rng = ctx.rng
    cands = []
    for w in S.wl:
        n = len(w["ops"])
        ks = sorted(set([0, n - 1] + [rng.randrange(n) for _ in range(6)]))
        for k in ks:
            cands.append((w, k))
    rng.shuffle(cands)
    cands = cands[:n_runs]
    kroot = S.p("kill")

    def one(j):
        w, k = cands[j]
        base = os.path.join(kroot, "r%d" % j)
        for x in S.wl:
            dst = os.path.join(base, "wl", x["name"])
            os.makedirs(dst)
            prior = S.p("wl", x["name"], "prior")
            if os.path.isdir(prior):
                shutil.copytree(prior, os.path.join(dst, "live"))
        marks = os.path.join(base, "marks.txt")
        spec = S.driver_spec(base, marks)
        with open(os.path.join(base, "spec.json"), "w") as fh:
            json.dump(spec, fh)
        victim = w["ops"][k]
        tpath = os.path.join(base, "trace.txt")
        rc, err = tr.run_traced(["/venv/bin/python", drv.__file__, "workloads", os.path.join(base, "spec.json")],
                                tpath, env=S.W.env(), inject=(victim["sys"], victim["nth"]), timeout=600)
        events = tr.parse_trace(tpath)
        segs, order = tr.split_marks(events, marks)
        live = os.path.join(base, "wl", w["name"], "live")
        res = {"workload": w["name"], "k": k, "rc": rc}
        if not order or order[-1] != w["name"]:
            res["status"] = "miss (killed in %s)" % (order[-1] if order else "startup")
            return res
        got = effective_ops(w["prior_state"], tr.file_ops(segs[w["name"]], live, cwd=S.cwd_of(w, live)))
        strip = lambda ops: [{a: b for a, b in o.items() if a != "nth"} for o in ops]
        if strip(got) != strip(w["ops"][:k]):
            res["status"] = "miss (%d ops completed instead of %d)" % (len(got), k)
            return res
        st = rp.replay_all(w["prior_state"], w["ops"][:k])
        diff = st.diff_dir(live)
        res["status"] = "equal" if not diff else "DIFFERENT: " + "; ".join(diff[:5])
        shutil.rmtree(base, ignore_errors=True)
        return res

    t0 = time.time()
    with ThreadPoolExecutor(max_workers=8) as ex:
        results = list(ex.map(one, range(len(cands))))
    shutil.rmtree(kroot, ignore_errors=True)
    n_eq = sum(1 for r in results if r["status"] == "equal")
    n_miss = sum(1 for r in results if r["status"].startswith("miss"))
    bad = [r for r in results if r["status"].startswith("DIFFERENT")]
    ctx.log("SIGKILL cross-check (scale %s): %d runs, %d equal to the replayed prefix, %d missed the target, %d different (%.1fs)"
            % (S.tag, len(results), n_eq, n_miss, len(bad), time.time() - t0))
    ctx.extra[key] = {"runs": len(results), "equal": n_eq, "missed_target": n_miss, "different": bad[:5],
                                       "missed": [r for r in results if r["status"].startswith("miss")][:8]}
    ctx.obligation("sigkill-crosscheck (scale %s): real SIGKILL states equal replayed prefixes (%d/%d hit their target)" % (S.tag, n_eq, len(results)),
                   not bad and n_eq >= max(1, len(results) // 2), json.dumps(results)[:3000])


def run(ctx):
    W = Worker(ctx)
    scales, cases, ucases = [], [], []
    try:
        # large markers first (children of their own, nothing else running; a random stream of its own so that the draws
        # of the other families do not depend on it)
        import random
        main_rng, ctx.rng = ctx.rng, random.Random("C08-large-marker-%s-%s" % (ctx.seed, ctx.tier))
        try:
            c08_marker.run_large_marker(ctx)
        finally:
            ctx.rng = main_rng
        tags = ["s", "x"] if ctx.quick() else ["s", "m", "l", "x"]
        params = dict(SCALES, x=big_scale(ctx.rng))
        for tag in tags:
            S = Scale(ctx, W, tag, params[tag])
            t0 = time.time()
            S.prepare()
            S.define_workloads()
            ctx.log("scale %s: fixed catalogs, fresh references and %d prior states prepared (%.1fs)" % (tag, len(S.wl), time.time() - t0))
            S.trace_all()
            scales.append(S)
            # deaths by unwinding: real interrupted runs, in the background while the crash points are swept; classified
            # afterwards, while the recovery worker still holds the fixed catalogs of this scale
            U = Unwound(ctx, S) if tag in (("s",) if ctx.quick() else ("s", "m")) else None
            sweep(ctx, S, cases)
            if U is not None:
                ucases += U.finish()
        wl_index, header = coq_compare(ctx, scales, cases, ucases)
        verdicts(ctx, wl_index, cases)
        unwound_verdicts(ctx, ucases)
        probes(ctx, scales, cases)
        buffering_evidence(ctx, scales)
        ctx.extra["rebuild_matrix"] = [dict(scale=S.tag, operations=len(w["ops"]), later_requests=w["requests"],
                                            model_form_agreeing=FORM_NAME[w.get("variant", False)],
                                            disciplines_explaining_the_trace=w.get("disciplines"), **w["spec"]["matrix"])
                                       for S in scales for w in S.wl if w["spec"].get("matrix")]
        ctx.extra["crash_points"] = len(cases)
        ctx.extra["interrupted_runs_classified"] = len(ucases)
        ctx.extra["worker_restarts"] = W.restarts
        for w in scales[0].wl:
            if w["name"] == "rebuild_edges":
                ctx.sample({"workload": "s/rebuild_edges", "ops": [(o["op"], o["path"], len(o.get("data", b""))) for o in w["ops"][:6]]})
        for c in cases:
            if c["cls"] == 1:
                ctx.sample({"crash_point": (c["scale"], c["w"]["name"], c["k"], c["req"]), "position": c["pos"], "detail": c["det"]}, limit=4)
                break
        if not ctx.quick():
            sigkill_crosscheck(ctx, scales[0], 40)
            for S in scales:
                if S.big:     # the system calls one piece is cut into, killed for real
                    sigkill_crosscheck(ctx, S, 12, key="sigkill_crosscheck_" + S.tag)
    finally:
        W.stop()
